"""C06 - data compressed by convention are seen uncompressed, exactly
(DESIGN.md section 4, C06).

Generators build count / index / list vectors (zeros, absent instances,
unsorted, sparse), compressed data of several dtypes with masks, trailing and
leading dimensions, subspace indices, and masked 2-d / 3-d fields for
Field.compress.  The implementation is run in worker processes
(drive/c06.py).  The property oracle decodes every valid case with an
independent sample-by-sample ("scatter") decoder written from CF sections 8.2
and 9.3 and compares what cfdm presents; written files are inspected with
netCDF4-python and decoded from the raw count / index / list variables.  The
correspondence evaluates the Gallina model (C06/Model.v through
C06.Run.check_case) on the same inputs, including a malformed stream.
"""
import itertools
import json
import os

import lib
from lib import gz, gnat, glist, gopt

REQ = "From CfdmV Require Import Common.Base C06.Model C06.Run.\nOpen Scope Z_scope."
DEPENDS = ["C03"]   # C06/SubspaceLemmas.v, Props.v: the subspace is the orthogonal selection of C03

INT_DTYPES = ["i1", "i2", "i4", "i8", "u1", "u2", "u4"]
FLOAT_DTYPES = ["f4", "f8"]
STR_WORDS = ["a", "bc", "xyz", "q", "rs", "tuv", "w", "k9", "m", "no", "p", "zz", "y1", "h", "gg", "e2"]
BAD = 987654321
NOT_ARRAY = ("compress", "multi", "pair")


# ---- value coding -----------------------------------------------------------
def dkind(dtype):
    return "f" if dtype[0] == "f" else ("s" if dtype[0] in "US" else "i")


def val_of_code(code, dtype):
    """value stored in an array for the integer code used in the model"""
    k = dkind(dtype)
    if k == "f":
        return code * 0.25
    if k == "s":
        return STR_WORDS[code % len(STR_WORDS)] if code < len(STR_WORDS) else None
    return code


def code_of_val(v, dtype):
    if v is None:
        return None
    k = dkind(dtype)
    try:
        if k == "f":
            x = float(v) * 4
            return int(x) if x == int(x) else BAD
        if k == "s":
            return STR_WORDS.index(v) if v in STR_WORDS else BAD
        return int(v)
    except Exception:
        return BAD


def codes(flat, dtype):
    return [code_of_val(v, dtype) for v in flat]


# ---- Gallina printers ---------------------------------------------------------
def g_val(v):
    return "None" if v is None else f"(Some {gz(v)})"


def g_vals(vs):
    return glist(vs, g_val)


def g_cells(cells):
    return glist(cells, g_vals)


def g_nats(ns):
    return glist(ns, gnat)


def g_zs(zs):
    return glist(zs, gz)


def g_oz(x):
    return gopt(x, gz)


def g_idx(idx):
    if idx is None:
        return "[]"
    out = []
    for ix in idx:
        if ix[0] == "s":
            out.append(f"(ASlice {g_oz(ix[1])} {g_oz(ix[2])} {g_oz(ix[3])})")
        elif ix[0] == "i":
            out.append(f"(AInt {gz(ix[1])})")
        else:
            out.append(f"(AList {g_zs(ix[1])})")
    return "[" + "; ".join(out) + "]"


ERRK = {"IndexErr": "IndexErr", "ValueErr": "ValueErr", "TypeErr": "TypeErr", "KeyErr": "KeyErr"}


def g_obs(o):
    """o: {"ok": flat codes} or {"err": class}"""
    if "ok" in o:
        return f"(OOk {g_vals(o['ok'])})"
    return f"(OErr {ERRK.get(o['err'], 'OtherErr')})"


def chunk(flat, t):
    return [flat[i:i + t] for i in range(0, len(flat), t)] if t else []


def prod(xs):
    p = 1
    for x in xs:
        p *= x
    return p


# ---- independent decoders (CF 9.3.3, 9.3.4, 9.3.5, 8.2), sample by sample ------
def dec_contig(nrows, w, t, counts, cells):
    u = [[None] * w for _ in range(nrows)]
    p = 0
    for i, c in enumerate(counts):
        for j in range(c):
            u[i][j] = cells[p]
            p += 1
    return flatten_cells(u, t, 2)


def dec_indexed(nrows, w, t, index, cells):
    u = [[None] * w for _ in range(nrows)]
    rank = {}
    for p, i in enumerate(index):
        j = rank.get(i, 0)
        rank[i] = j + 1
        u[i][j] = cells[p]
    return flatten_cells(u, t, 2)


def dec_ic(nfeat, nprof, w, t, counts, index, cells):
    u = [[[None] * w for _ in range(nprof)] for _ in range(nfeat)]
    slot = {}
    start = 0
    for p, (i, c) in enumerate(zip(index, counts)):
        j = slot.get(i, 0)
        slot[i] = j + 1
        for k in range(c):
            u[i][j][k] = cells[start + k]
        start += c
    return flatten_cells(u, t, 3)


def dec_gathered(nlead, P, t, lst, blocks):
    u = [[None] * P for _ in range(nlead)]
    for b in range(nlead):
        for k, q in enumerate(lst):
            u[b][q] = blocks[b][k]
    return flatten_cells(u, t, 2)


def flatten_cells(u, t, depth):
    out = []

    def rec(x, d):
        if d == 0:
            out.extend([None] * t if x is None else x)
        else:
            for y in x:
                rec(y, d - 1)
    rec(u, depth)
    return out


def py_positions(n, ix):
    if ix[0] == "s":
        return list(range(*slice(ix[1], ix[2], ix[3]).indices(n)))
    if ix[0] == "i":
        return [ix[1] % n]
    return [x % n for x in ix[1]]


def take(flat, shape, idx):
    """orthogonal subspace of a C-ordered flat list (independent of the model)"""
    pos = [py_positions(n, ix) for n, ix in zip(shape, idx)]
    strides = []
    s = 1
    for n in reversed(shape):
        strides.insert(0, s)
        s *= n
    out = []
    for mi in itertools.product(*pos):
        out.append(flat[sum(a * b for a, b in zip(mi, strides))])
    return out, [len(p) for p in pos]


# ---- generators ------------------------------------------------------------------
def pick_dtype(rng, maxcode, allow_str=True):
    r = rng.random()
    if r < 0.45:
        cands = [d for d in INT_DTYPES if maxcode <= {"i1": 127, "u1": 250}.get(d, 30000)] or ["i4", "i8"]
        return rng.choice(cands)
    if r < 0.85 or not allow_str or maxcode >= len(STR_WORDS):
        return rng.choice(FLOAT_DTYPES)
    return "U3"


def gen_tdims(rng, w):
    r = rng.random()
    if r < 0.55:
        return []
    if r < 0.8:
        return [rng.choice([1, 2, 3, w + 1])]
    return [rng.choice([1, 2, w + 1]), rng.choice([1, 2, 3])]


def gen_cells(rng, n, t, pmask=0.12):
    """n samples of t elements with distinct codes; some masked"""
    out = []
    for p in range(n):
        out.append([None if rng.random() < pmask else (1 + p * t + e) for e in range(t)])
    return out


def gen_axis_index(rng, n):
    r = rng.random()
    if n == 0 or r < 0.25:
        return ["s", None, None, None]
    if r < 0.6:
        # negative bounds stay within -n (what Data does with a start below -n
        # and a negative step is index semantics, property C03)
        a = rng.choice([None, 0, 1, -1, max(-2, -n), n - 1, n, n + 2, -n, rng.randrange(-n, n + 1)])
        b = rng.choice([None, 0, 1, -1, n - 1, n, n + 2, -n, rng.randrange(-n, n + 1)])
        c = rng.choice([None, 1, 2, -1, -2, 3, -3])
        return ["s", a, b, c]
    if r < 0.75:
        return ["i", rng.randrange(-n, n)]
    k = rng.choice([1, 2, 2, 3])
    return ["l", [rng.randrange(-n, n) for _ in range(k)]]


def gen_index(rng, shape):
    if rng.random() < 0.35:
        return None
    return [gen_axis_index(rng, n) for n in shape]


def gen_counts(rng, nrows, maxc):
    return [0 if rng.random() < 0.3 else rng.randrange(0, maxc + 1) for _ in range(nrows)]


VTYPES = {"i1": ("I8", -128, 127), "u1": ("U8", 0, 255), "i2": ("I16", -32768, 32767), "u2": ("U16", 0, 65535),
          "i4": ("I32", -2 ** 31, 2 ** 31 - 1), "u4": ("U32", 0, 2 ** 32 - 1), "i8": ("I64", -2 ** 63, 2 ** 63 - 1)}


# netCDF default fill values: a value equal to the default fill value of its variable's type is, by
# the netCDF conventions, a value that was never written, and both cfdm and netCDF4-python read it as
# missing (property C07).  A count / index / list variable therefore never holds that value here.
DEFAULT_FILL = {"i1": -127, "u1": 255, "i2": -32767, "u2": 65535, "i4": -2147483647, "u4": 4294967295,
                "i8": -9223372036854775806}


def pick_vdtype(rng, c):
    """integer type of the count / index / list variable: any type that holds its values and whose
    default fill value is not among them"""
    vals = [v for k in ("count", "index", "list") if k in c for v in c[k]]
    lo, hi = min(vals, default=0), max(vals, default=0)
    cands = [t for t, (_, a, b) in VTYPES.items() if a <= lo and hi <= b and DEFAULT_FILL[t] not in vals]
    return rng.choice(cands)


def case_common(rng, c, maxcode, write_ok=True, thorough=False):
    c["dtype"] = pick_dtype(rng, maxcode)
    c["vdtype"] = pick_vdtype(rng, c)
    c["rawfile"] = False
    c["idx"] = gen_index(rng, c["shape"])
    size = prod(c["shape"])
    c["assign"] = None
    if size and rng.random() < 0.3:
        c["assign"] = [rng.randrange(size), rng.choice([None, 7, 7, 9])]
    c["write"] = False
    return c


def gen_contig(rng, malformed=False):
    nrows = rng.choice([1, 2, 3, 3, 4, 5])
    counts = gen_counts(rng, nrows, 4)
    w = max(max(counts), 1) + rng.choice([0, 0, 1, 2])
    tdims = gen_tdims(rng, w)
    t = prod(tdims)
    n = sum(counts)
    tag = "valid"
    if malformed:
        tag = rng.choice(["count-short", "count-long", "sum-small", "sum-big", "count-gt-width"])
        if tag == "count-short" and nrows > 1:
            counts = counts[:-1]
            n = sum(counts)
        elif tag == "count-long":
            counts = counts + [rng.choice([0, 1, 2])]
            n = sum(counts)
        elif tag == "sum-small":
            n = max(0, n - rng.choice([1, 2]))
        elif tag == "sum-big":
            n = n + rng.choice([1, 2])
        elif tag == "count-gt-width":
            i = rng.randrange(len(counts))
            counts[i] = w + rng.choice([1, 2])
            n = sum(counts)
        else:
            tag = "valid"
    cells = gen_cells(rng, n, t)
    c = {"k": "contig", "tag": tag, "shape": [nrows, w] + tdims, "cshape": [n] + tdims,
         "count": counts, "cells": cells, "t": t}
    return case_common(rng, c, n * t + 1)


def gen_indexed(rng, malformed=False):
    nrows = rng.choice([1, 2, 3, 3, 4, 5])
    n = rng.choice([0, 1, 2, 3, 4, 5, 6, 7])
    present = [i for i in range(nrows) if rng.random() < 0.65] or [rng.randrange(nrows)]
    index = [rng.choice(present) for _ in range(n)]
    if rng.random() < 0.25:
        index.sort()
    cnt = [index.count(i) for i in range(nrows)]
    w = max(max(cnt), 1) + rng.choice([0, 0, 1, 2])
    tdims = gen_tdims(rng, w)
    t = prod(tdims)
    tag = "valid"
    ncell = n
    if malformed and n:
        tag = rng.choice(["index-big", "index-negative", "index-long", "index-short", "count-gt-width"])
        if tag == "index-big":
            index[rng.randrange(n)] = nrows + rng.choice([0, 1])
        elif tag == "index-negative":
            index[rng.randrange(n)] = -1
        elif tag == "index-long":
            index = index + [rng.choice(present)]
            if max(index.count(i) for i in range(nrows)) > w:
                w += 1
        elif tag == "index-short":
            index = index[:-1]
        elif tag == "count-gt-width":
            i = index[0]
            index = index + [i] * (w + 1 - index.count(i))
            ncell = len(index)
    cells = gen_cells(rng, ncell, t)
    c = {"k": "indexed", "tag": tag, "shape": [nrows, w] + tdims, "cshape": [ncell] + tdims,
         "index": index, "cells": cells, "t": t}
    return case_common(rng, c, ncell * t + 1)


def gen_ic(rng, malformed=False):
    nfeat = rng.choice([1, 2, 2, 3, 3, 4])
    nprofs = [0 if rng.random() < 0.3 else rng.choice([1, 1, 2, 3]) for _ in range(nfeat)]
    index = [i for i, m in enumerate(nprofs) for _ in range(m)]
    if rng.random() < 0.7:
        rng.shuffle(index)
    counts = [0 if rng.random() < 0.25 else rng.choice([1, 2, 3]) for _ in index]
    nprof = max(max(nprofs), 1) + rng.choice([0, 0, 1])
    w = max(max(counts, default=0), 1) + rng.choice([0, 0, 1])
    tdims = gen_tdims(rng, w)
    t = prod(tdims)
    n = sum(counts)
    tag = "valid"
    if malformed and index:
        tag = rng.choice(["index-long", "count-long", "too-many-profiles", "index-big", "sum-small", "count-gt-width"])
        if tag == "index-long":
            index = index + [rng.randrange(nfeat)]
            if max(index.count(i) for i in range(nfeat)) > nprof:
                nprof += 1
        elif tag == "count-long":
            counts = counts + [1]
            n = sum(counts)
        elif tag == "too-many-profiles":
            i = index[0]
            extra = nprof + 1 - index.count(i)
            index = index + [i] * extra
            counts = counts + [1] * extra
            n = sum(counts)
        elif tag == "index-big":
            index[rng.randrange(len(index))] = nfeat
        elif tag == "sum-small":
            n = max(0, n - 1)
        elif tag == "count-gt-width":
            counts[rng.randrange(len(counts))] = w + 1
            n = sum(counts)
    cells = gen_cells(rng, n, t)
    c = {"k": "ic", "tag": tag, "shape": [nfeat, nprof, w] + tdims, "cshape": [n] + tdims,
         "count": counts, "index": index, "cells": cells, "t": t}
    return case_common(rng, c, n * t + 1)


def gen_gathered(rng, malformed=False):
    ldims = rng.choice([[], [], [2], [1], [3], [2, 2]])
    dims = rng.choice([[3], [4], [2, 3], [3, 2], [1, 4], [2, 2, 2], [2, 1, 3], [5]])
    tdims = rng.choice([[], [], [2], [1], [3], [2, 2]])
    P = prod(dims)
    t = prod(tdims)
    nlead = prod(ldims)
    k = rng.choice([0, 1, 2, 3, P // 2, P - 1, P])
    k = max(0, min(P, k))
    lst = rng.sample(range(P), k)
    if rng.random() < 0.4:
        lst.sort()
    tag = "valid"
    S = len(lst)
    if malformed:
        tag = rng.choice(["list-big", "list-negative", "list-dup", "list-long", "list-short", "broadcast"])
        if tag == "list-big":
            lst = lst + [P]
            S = len(lst)
        elif tag == "list-negative":
            lst = lst + [-1]
            S = len(lst)
        elif tag == "list-dup" and lst:
            lst = lst + [lst[0]]
            S = len(lst)
        elif tag == "list-long":
            lst = lst + [x for x in range(P) if x not in lst][:1]
            if len(lst) == S:
                tag = "valid"
        elif tag == "list-short" and len(lst) > 1:
            lst = lst[:-1]
        elif tag == "broadcast":
            S = 1
            if len(lst) == 1:
                tag = "valid"
        else:
            tag = "valid"
    blocks = []
    for b in range(nlead):
        cells = [[None if rng.random() < 0.1 else (1 + (b * S + s) * t + e) for e in range(t)] for s in range(S)]
        blocks.append(cells)
    c = {"k": "gathered", "tag": tag, "shape": ldims + dims + tdims, "cshape": ldims + [S] + tdims,
         "ldims": ldims, "dims": dims, "tdims": tdims, "list": lst, "blocks": blocks, "t": t,
         "cdim": len(ldims), "cdims": list(range(len(ldims), len(ldims) + len(dims)))}
    return case_common(rng, c, nlead * S * t + 1)


def gen_contig_wide(rng, big=False):
    """counts that fit a narrow integer type while their sum does not"""
    if big:
        vdt = rng.choice(["i2", "u2"])
        hi = VTYPES[vdt][2]
        counts = [rng.randrange(hi // 2, hi // 2 + 4000), 0, rng.randrange(hi // 2, hi // 2 + 3000), rng.choice([0, 3, 7])]
    else:
        vdt = rng.choice(["i1", "i1", "u1"])
        hi = VTYPES[vdt][2]
        nrows = rng.choice([3, 4, 5])
        counts = [0 if rng.random() < 0.2 else rng.randrange(hi // 3, hi // 2 + hi // 4) for _ in range(nrows)]
        while sum(counts) <= hi:
            counts[rng.randrange(nrows)] = rng.randrange(hi // 2, hi + 1)
    counts = [x - 1 if x == DEFAULT_FILL[vdt] else x for x in counts]
    if sum(counts) <= hi:
        return gen_contig_wide(rng, big)
    rng.shuffle(counts)
    n = sum(counts)
    w = max(counts) + rng.choice([0, 1])
    cells = [[1 + p] for p in range(n)]
    c = {"k": "contig", "tag": "valid", "shape": [len(counts), w], "cshape": [n], "count": counts, "cells": cells, "t": 1,
         "wide": True, "big": big, "nsamples": n}
    case_common(rng, c, n + 1)
    if big:
        c["dtype"] = rng.choice(["i4", "i8"])      # values 1 .. n are their own codes
    elif c["dtype"] == "U3":
        c["dtype"] = rng.choice(["f8", "i4", "f4"])
    c["vdtype"] = vdt
    if big:
        c["idx"] = None
        c["assign"] = None
    return c


def gen_ic_wide(rng):
    vdt = "i1"
    nfeat = rng.choice([2, 3])
    nprofs = [rng.choice([1, 2, 3]) for _ in range(nfeat)]
    index = [i for i, m in enumerate(nprofs) for _ in range(m)]
    rng.shuffle(index)
    counts = [0 if rng.random() < 0.15 else rng.randrange(20, 61) for _ in index]
    while sum(counts) <= 127:
        counts[rng.randrange(len(counts))] = rng.randrange(60, 100)
    n = sum(counts)
    w = max(counts)
    cells = [[1 + p] for p in range(n)]
    c = {"k": "ic", "tag": "valid", "shape": [nfeat, max(nprofs), w], "cshape": [n], "count": counts, "index": index,
         "cells": cells, "t": 1, "wide": True}
    case_common(rng, c, n + 1)
    if c["dtype"] == "U3":
        c["dtype"] = "f8"
    c["vdtype"] = vdt
    return c


def clone(c):
    return json.loads(json.dumps(c))


def order_preserving_shuffle(rng, index):
    """a permutation of the samples that keeps the order of the samples of every instance"""
    n = len(index)
    queues = {}
    for p, i in enumerate(index):
        queues.setdefault(i, []).append(p)
    slots = list(index)
    rng.shuffle(slots)
    return [queues[i].pop(0) for i in slots]


def gen_pair(rng):
    """two compressed arrays of the same uncompressed shape for equals()"""
    for _ in range(50):
        gen = rng.choice([gen_contig, gen_indexed, gen_ic, gen_gathered])
        a = gen(rng, malformed=False)
        a["idx"] = None
        a["assign"] = None
        if dkind(a["dtype"]) == "s":
            a["dtype"] = "f8"
        b = clone(a)
        mode = rng.choice(["same-compressed-values-different-count-index-list"] * 3 +
                          ["same-array-different-layout"] * 2 + ["copy", "one-value-differs"])
        k = a["k"]
        if mode == "same-compressed-values-different-count-index-list":
            key = {"contig": "count", "indexed": "index", "gathered": "list"}.get(k) or rng.choice(["count", "index"])
            v = list(b[key])
            rng.shuffle(v)
            if v == a[key]:
                v = v[::-1]
            if v == a[key]:
                continue
            b[key] = v
        elif mode == "same-array-different-layout":
            if k == "contig":
                b["k"] = "indexed"
                b["index"] = [i for i, cnt in enumerate(a["count"]) for _ in range(cnt)]
                del b["count"]
                if rng.random() < 0.6:
                    perm = order_preserving_shuffle(rng, b["index"])
                    b["index"] = [b["index"][p] for p in perm]
                    b["cells"] = [b["cells"][p] for p in perm]
            elif k == "indexed":
                perm = order_preserving_shuffle(rng, a["index"])
                b["index"] = [a["index"][p] for p in perm]
                b["cells"] = [a["cells"][p] for p in perm]
            elif k == "gathered":
                perm = list(range(len(a["list"])))
                rng.shuffle(perm)
                b["list"] = [a["list"][p] for p in perm]
                b["blocks"] = [[blk[p] for p in perm] for blk in a["blocks"]]
            else:
                # indexed contiguous: reorder whole profiles, keeping the order within each feature
                perm = order_preserving_shuffle(rng, a["index"])
                starts = [sum(a["count"][:p]) for p in range(len(a["count"]))]
                b["index"] = [a["index"][p] for p in perm]
                b["count"] = [a["count"][p] for p in perm]
                b["cells"] = [cell for p in perm for cell in a["cells"][starts[p]:starts[p] + a["count"][p]]]
            b["vdtype"] = pick_vdtype(rng, b)
        elif mode == "copy":
            b["vdtype"] = pick_vdtype(rng, b)
        else:
            cells = b["blocks"] if k == "gathered" else [b["cells"]]
            flat = [(x, y, z) for x, blk in enumerate(cells) for y, cell in enumerate(blk) for z in range(len(cell))]
            if not flat:
                continue
            x, y, z = rng.choice(flat)
            cells[x][y][z] = None if cells[x][y][z] is not None and rng.random() < 0.4 else 5000 + rng.randrange(9)
            if dkind(a["dtype"]) == "i" and a["dtype"] in ("i1", "u1", "i2", "u2"):
                a["dtype"] = b["dtype"] = "i4"
        return {"k": "pair", "tag": "valid", "mode": mode, "a": a, "b": b, "dtype": a["dtype"], "shape": a["shape"], "write": False}
    raise RuntimeError("no pair")


def trailing_missing_row(rng, w, base, pint=0.15, pall=0.25):
    """codes for one row: c valid leading cells (some interior missing) then missing"""
    if rng.random() < pall:
        c = 0
    else:
        c = rng.randrange(1, w + 1)
    row = [None] * w
    for j in range(c):
        row[j] = base + j
    for j in range(c - 1):
        if rng.random() < pint:
            row[j] = None
    return row, c


def gen_post(rng, shape, names):
    """a later step of the history: assign to the data of the field ("data") or of a
    construct spanning the same axes, then write"""
    if rng.random() < 0.25:
        kind = rng.choice(["data"] + names + names)
        return [kind, rng.randrange(prod(shape)), rng.choice([None, 7, 9])]
    return None


def gen_compress2(rng, inconsistent=False):
    method = rng.choice(["contiguous", "indexed"])
    n = rng.choice([1, 2, 3, 3, 4, 5])
    w = rng.choice([1, 2, 3, 3, 4])
    rows, cnt = [], []
    for i in range(n):
        r, c = trailing_missing_row(rng, w, 1 + i * w)
        rows.append(r)
        cnt.append(c)
    aux = other = aux2 = None
    tag = "valid"
    if rng.random() < 0.55:
        aux = []
        for i in range(n):
            r = rng.random()
            # the coordinate of a feature is as long as the feature, longer, or
            # (not allowed by CF 9.6 but representable) shorter
            c = cnt[i] if r < 0.5 else (rng.randrange(cnt[i], w + 1) if r < 0.85 or not inconsistent else rng.randrange(0, w + 1))
            aux.append([100 + i * w + j if j < c else None for j in range(w)])
    if rng.random() < 0.5:
        other = []
        for i in range(n):
            r = rng.random()
            c = cnt[i] if r < 0.5 else rng.randrange(0, (w if inconsistent else cnt[i]) + 1)
            other.append([200 + i * w + j if j < c and rng.random() > 0.1 else None for j in range(w)])
    if rng.random() < 0.3:
        aux2 = [300 + i for i in range(n)]
    if inconsistent and aux is not None:
        # a data value (or a value of the other construct) beyond the count
        # derived from the auxiliary coordinate
        cand = [i for i in range(n) if derive(aux[i]) < w]
        if cand:
            i = rng.choice(cand)
            if other is not None and rng.random() < 0.4:
                other[i][w - 1] = 299
            else:
                rows[i][w - 1] = 99
    if aux is not None and any(max(derive(r), derive(o) if other else 0) > derive(a)
                               for r, a, o in zip(rows, aux, other or rows)):
        tag = "beyond-count"
    c = {"k": "compress", "tag": tag, "method": method, "shape": [n, w], "rows": rows, "auxr": aux,
         "otherr": other, "aux2r": aux2, "bounds": aux is not None and rng.random() < 0.4}
    c["dtype"] = rng.choice(["f8", "f8", "f4", "i4", "i8", "i2"])
    c["write"] = False
    c["post"] = gen_post(rng, [n, w], [x for x, y in (("aux", aux), ("other", other)) if y is not None])
    c["idx"] = gen_index(rng, [n, w]) if rng.random() < 0.5 else None
    return c


def gen_compress3(rng, inconsistent=False):
    nf = rng.choice([1, 2, 2, 3])
    npf = rng.choice([1, 2, 3, 3])
    w = rng.choice([1, 2, 3])
    rows = []
    for i in range(nf):
        fr = []
        for j in range(npf):
            r, c = trailing_missing_row(rng, w, 1 + (i * npf + j) * w, pall=0.4)
            fr.append(r)
        rows.append(fr)
    aux = None
    tag = "valid"
    if rng.random() < 0.4:
        aux = [[[100 + (i * npf + j) * w + k if k < max(derive(rows[i][j]), (rng.random() < 0.3) * w) else None
                 for k in range(w)] for j in range(npf)] for i in range(nf)]
        if inconsistent:
            cand = [(i, j) for i in range(nf) for j in range(npf) if derive(aux[i][j]) < w]
            if cand:
                i, j = rng.choice(cand)
                rows[i][j][w - 1] = 99
                tag = "beyond-count"
    aux2 = None
    if rng.random() < 0.4:
        # one value per profile, present wherever the profile is kept
        aux2 = [[300 + i * npf + j if j < n_profiles([max(derive(x), derive(y)) for x, y in zip(rows[i], (aux or rows)[i])]) else None
                 for j in range(npf)] for i in range(nf)]
    c = {"k": "compress", "tag": tag, "method": "indexed_contiguous", "shape": [nf, npf, w], "rows": rows,
         "auxr": aux, "otherr": None, "aux2r": aux2, "bounds": False}
    c["dtype"] = rng.choice(["f8", "f8", "f4", "i4", "i8"])
    c["write"] = False
    c["post"] = gen_post(rng, [nf, npf, w], ["aux"] if aux is not None else [])
    c["idx"] = gen_index(rng, [nf, npf, w]) if rng.random() < 0.5 else None
    return c


def gen_multi(rng):
    """two or three compressed fields for one file: same or different methods, equal or
    different count / index variables"""
    k = rng.choice([2, 2, 3])
    r = rng.random()

    def fresh():
        out = []
        for n in range(k):
            # one featureType per file (CF 9.4): all members timeSeriesProfile, or all timeSeries
            m = gen_compress3(rng) if r < 0.35 else gen_compress2(rng)
            m["post"] = None
            m["bounds"] = False
            m["idx"] = None
            out.append(m)
        return out
    members = fresh()
    if rng.random() < 0.25:
        # fields whose count / index variables coincide although they must not be shared (equal index
        # variables over different numbers of features; equal count variables under different index variables)
        for _ in range(60):
            cand = fresh()
            if harmful_sharing(cand):
                members = cand
                break
    elif rng.random() < 0.3:
        # the same shape and counts twice: the count / index variables are equal
        twin = json.loads(json.dumps(members[0]))
        twin["rows"] = json.loads(json.dumps(twin["rows"]).replace("null", "null"))
        members[1] = twin
    for m in members:
        m["dtype"] = rng.choice(["f8", "f4", "i4"])
    return {"k": "multi", "tag": "valid", "members": members, "dtype": "f8", "shape": [k], "write": True}


def derive(row):
    n = len(row)
    while n and row[n - 1] is None:
        n -= 1
    return n


def n_profiles(cs):
    n = len(cs)
    while n and not cs[n - 1]:
        n -= 1
    return n


# ---- payloads for the driver ---------------------------------------------------------
def flat_vals(code_list, dtype):
    return [None if v is None else val_of_code(v, dtype) for v in code_list]


def payload_case(c, expect):
    if c["k"] == "multi":
        return {"k": "multi", "members": [payload_case(m, None) for m in c["members"]]}
    if c["k"] == "pair":
        return {"k": "pair", "a": payload_case(c["a"], None), "b": payload_case(c["b"], None)}
    if c["k"] == "compress":
        dt = c["dtype"]

        def fl(x, depth):
            if x is None:
                return None
            out = x
            for _ in range(depth - 1):
                out = [z for y in out for z in y]
            return out
        nd = len(c["shape"])
        p = {"k": "compress", "method": c["method"], "shape": c["shape"], "dtype": dt,
             "data": flat_vals(fl(c["rows"], nd), dt),
             "aux": None if c["auxr"] is None else flat_vals(fl(c["auxr"], nd), "f8"),
             "other": None if c["otherr"] is None else flat_vals(fl(c["otherr"], nd), dt),
             "aux2": None if c["aux2r"] is None else flat_vals(fl(c["aux2r"], nd - 1), "f8"),
             "bounds": c["bounds"], "write": c["write"], "post": None, "idx": c.get("idx")}
        if c.get("post") is not None:
            kind, pos, v = c["post"]
            pdt = "f8" if kind == "aux" else dt
            p["post"] = [kind, pos, None if v is None else val_of_code(v, pdt)]
        return p
    dt = c["dtype"]
    if c.get("big"):
        cdata = {"arange": c["nsamples"]}
    elif c["k"] == "gathered":
        cdata = flat_vals([v for b in c["blocks"] for cell in b for v in cell], dt)
    else:
        cdata = flat_vals([v for cell in c["cells"] for v in cell], dt)
    p = {"k": c["k"], "shape": c["shape"], "dtype": dt, "cshape": c["cshape"],
         "cdata": cdata, "idx": c["idx"], "assign": None, "write": c["write"],
         "expect": None, "vdtype": c.get("vdtype", "i4"), "rawfile": c.get("rawfile", False)}
    for key in ("ldims", "dims"):
        if key in c:
            p[key] = c[key]
    for key in ("count", "index", "list", "cdim", "cdims"):
        if key in c:
            p[key] = c[key]
    if expect is not None:
        pert = None
        if expect:
            # flip the last element between a value and missing
            pert = list(expect)
            pert[-1] = 5 if pert[-1] is None else None
        p["expect"] = {"shape": c["shape"], "flat": flat_vals(expect, dt),
                       "perturbed": None if pert is None else flat_vals(pert, dt)}
        if c["assign"] is not None:
            pos, v = c["assign"]
            p["assign"] = [pos, None if v is None else val_of_code(v, dt)]
    return p


# ---- expected values ---------------------------------------------------------------------
def expected_array(c):
    """flat codes of the uncompressed array by the independent decoder (valid cases only)"""
    k, t = c["k"], c["t"]
    sh = c["shape"]
    if k == "contig":
        return dec_contig(sh[0], sh[1], t, c["count"], c["cells"])
    if k == "indexed":
        return dec_indexed(sh[0], sh[1], t, c["index"], c["cells"])
    if k == "ic":
        return dec_ic(sh[0], sh[1], sh[2], t, c["count"], c["index"], c["cells"])
    return dec_gathered(prod(c["ldims"]), prod(c["dims"]), t, c["list"], c["blocks"])


CTYPE = {"contig": "ragged contiguous", "indexed": "ragged indexed", "ic": "ragged indexed contiguous",
         "gathered": "gathered", "contiguous": "ragged contiguous", "indexed_contiguous": "ragged indexed contiguous"}
NP_DTYPE = {"i1": "int8", "i2": "int16", "i4": "int32", "i8": "int64", "u1": "uint8", "u2": "uint16",
            "u4": "uint32", "f4": "float32", "f8": "float64", "U3": "<U3"}


# ---- Gallina literal of a case ---------------------------------------------------------------
def obs_of(row_entry, dtype, key=None):
    """observation (ok flat codes | err) from a guarded driver entry holding a dump"""
    if row_entry is None:
        return {"err": "OtherErr"}
    if "ok" in row_entry:
        d = row_entry["ok"]
        if key is not None:
            d = d[key]
        return {"ok": codes(d["flat"], dtype)}
    return {"err": row_entry["err"]}


def g_ty(c):
    return VTYPES[c.get("vdtype", "i4")][0]


def g_case_array(c, r):
    dt = c["dtype"]
    if r is None:
        o = {"err": "OtherErr"}
    elif "build" in r:
        o = {"err": r["build"]["err"]}
    elif c["idx"] is not None and "ok" in r["array"]:
        o = obs_of(r.get("sub"), dt, "a")
    else:
        o = obs_of(r["array"], dt)
    sh = c["shape"]
    if c["k"] == "contig":
        return (f"(KContig {g_ty(c)} {gnat(sh[0])} {gnat(sh[1])} {g_nats(sh[2:])} {g_zs(c['count'])} "
                f"{g_cells(c['cells'])} {g_idx(c['idx'])} {g_obs(o)})")
    if c["k"] == "indexed":
        return (f"(KIndexed {g_ty(c)} {gnat(sh[0])} {gnat(sh[1])} {g_nats(sh[2:])} {g_zs(c['index'])} "
                f"{g_cells(c['cells'])} {g_idx(c['idx'])} {g_obs(o)})")
    if c["k"] == "ic":
        return (f"(KIC {g_ty(c)} {gnat(sh[0])} {gnat(sh[1])} {gnat(sh[2])} {g_nats(sh[3:])} {g_zs(c['count'])} "
                f"{g_zs(c['index'])} {g_cells(c['cells'])} {g_idx(c['idx'])} {g_obs(o)})")
    return (f"(KGathered {g_ty(c)} {g_nats(c['ldims'])} {g_nats(c['dims'])} {g_nats(c['tdims'])} {g_zs(c['list'])} "
            f"{glist(c['blocks'], g_cells)} {g_idx(c['idx'])} {g_obs(o)})")


def g_bool(b):
    return "true" if b else "false"


def pair_answers(r, level="data"):
    """(default, ignore_compression=True, ignore_compression=False) answers, None where the two
    directions disagree or one raised"""
    out = []
    for name in ("default", "ignore", "strict"):
        xs = [x.get("ok") for x in r[level][name]]
        out.append(xs[0] if xs[0] == xs[1] and isinstance(xs[0], bool) else None)
    return out


def g_case_pair(c, r):
    d, i, st = pair_answers(r)
    return f"(KPair {g_case_array(c['a'], None)} {g_case_array(c['b'], None)} {g_bool(i)} {g_bool(st)})"


def g_rows(rows):
    return glist(rows, g_vals)


def g_case_compress(c, r):
    dt = c["dtype"]
    anc = r.get("anc", {})
    carr = obs_of(r.get("carr"), dt)
    arr = obs_of(r.get("array"), dt)
    cd = carr.get("ok", [BAD])
    if c["method"] == "indexed_contiguous":
        aux = "None" if c["auxr"] is None else f"(Some {glist(c['auxr'], g_rows)})"
        oaux = arr if c["auxr"] is None else obs_of(r["cons"]["aux"].get("array"), "f8")
        return (f"(KCompress3 {gnat(c['shape'][1])} {gnat(c['shape'][2])} {glist(c['rows'], g_rows)} {aux} "
                f"{g_zs(anc.get('count', [BAD]))} {g_zs(anc.get('index', [BAD]))} {g_vals(cd)} {g_obs(arr)} {g_obs(oaux)})")
    m = "MContiguous" if c["method"] == "contiguous" else "MIndexed"
    var = anc.get("count" if c["method"] == "contiguous" else "index", [BAD])
    aux = "None" if c["auxr"] is None else f"(Some {g_rows(c['auxr'])})"
    if c["otherr"] is not None:
        other = c["otherr"]
        oc = r["cons"]["other"]
        co = obs_of(oc.get("carr"), dt).get("ok", [BAD])
        oa = obs_of(oc.get("array"), dt)
    else:
        # no second construct: reuse the field data (the same packing is applied)
        other, co, oa = c["rows"], cd, arr
    return (f"(KCompress2 {m} {gnat(c['shape'][1])} {g_rows(c['rows'])} {aux} {g_rows(other)} "
            f"{g_zs(var)} {g_vals(cd)} {g_vals(co)} {g_obs(arr)} {g_obs(oa)})")


# ---- property oracle ------------------------------------------------------------------------------
def absent_instances(c):
    if c["k"] == "indexed":
        return any(i not in c["index"] for i in range(c["shape"][0]))
    if c["k"] == "ic":
        return any(i not in c["index"] for i in range(c["shape"][0]))
    return False


def sig_decode(c):
    """signature of a wrong uncompressed array, from the failing input only"""
    k = c["k"]
    if k in ("indexed", "ic") and absent_instances(c) and max(c["index"], default=-1) > min(
            i for i in range(c["shape"][0]) if i not in c["index"]):
        return f"{k}:absent-instance-shifts-later-rows"
    if k == "ic" and c["cells"] and any(a < b for a, b in zip(c["shape"][2:], c["shape"][3:])):
        return "ic:trailing-dimension-clipped"
    return f"{k}:decode"


def oracle_array(chk, c, r, exp):
    """valid array case: everything the user sees must be that of the uncompressed array"""
    dt = c["dtype"]
    inp = {k: c[k] for k in ("k", "shape", "dtype", "count", "index", "list", "cells", "blocks", "idx", "cdims") if k in c}

    def bad(sig, what, expected=None, observed=None):
        chk.fail("property", sig, what, {"input": inp, "case": c_public(c), "expected": expected, "observed": observed})
        return True

    failed = False
    if "build" in r or "driver_error" in r:
        return bad(f"{c['k']}:construct", f"constructing the compressed array failed: {r.get('build') or r.get('driver_error')}")
    a = r["array"]
    if "ok" not in a:
        return bad(sig_decode(c), f"Data.array of a valid {CTYPE[c['k']]} array raised {a['err']}: {a.get('msg')}",
                   exp, a)
    got = codes(a["ok"]["flat"], dt)
    if a["ok"]["shape"] != c["shape"] or got != exp:
        failed = bad(sig_decode(c), f"Data.array of a {CTYPE[c['k']]} array differs from the CF decoding",
                     {"shape": c["shape"], "flat": exp}, {"shape": a["ok"]["shape"], "flat": got})
    if a["ok"]["dtype"] != NP_DTYPE[dt] or r["dtype"] != NP_DTYPE[dt]:
        failed = bad(f"{c['k']}:dtype", f"dtype {a['ok']['dtype']} / {r['dtype']} is not that of the compressed data {NP_DTYPE[dt]}")
    if failed:
        return True
    if r.get("alias"):
        failed = bad(f"{c['k']}:returned-array-aliases-internal-state",
                     "an array returned by the implementation was overwritten in place and the next read changed: "
                     + ", ".join(x["what"] for x in r["alias"]), None, r["alias"][:3])
    # subspace
    if c["idx"] is not None:
        es, eshape = take(exp, c["shape"], c["idx"])
        s = r["sub"]
        if "ok" not in s:
            failed = bad(f"{c['k']}:subspace", f"subspace {c['idx']} raised {s['err']}: {s.get('msg')}", es, s)
        else:
            gs = codes(s["ok"]["a"]["flat"], dt)
            if (codes(s["ok"]["parent_after"]["flat"], dt) != exp or codes(s["ok"]["again"]["flat"], dt) != es):
                failed = bad(f"{c['k']}:returned-array-aliases-internal-state",
                             "overwriting the array of a subspace changed the parent data or a later subspace", exp, s["ok"])
            if s["ok"]["a"]["shape"] != eshape or gs != es:
                failed = bad(f"{c['k']}:subspace", f"subspace {c['idx']} of the compressed data is not the subspace of the uncompressed array",
                             {"shape": eshape, "flat": es}, {"shape": s["ok"]["a"]["shape"], "flat": gs})
    # stays compressed under reads
    cflat = [v for b in c["blocks"] for cell in b for v in cell] if c["k"] == "gathered" else [v for cell in c["cells"] for v in cell]
    st_ok = (r["ctype0"] == CTYPE[c["k"]] and r["ctype1"] == r["ctype0"] and "ok" in r["carr1"]
             and r["carr1"]["ok"]["shape"] == c["cshape"] and codes(r["carr1"]["ok"]["flat"], dt) == cflat
             and all(r["anc1"].get(k) == c[k] for k in ("count", "index", "list") if k in c))
    if "equals" in r:
        st_ok = st_ok and r.get("ctype2") == r["ctype0"]
    u = r.get("uncompress", {})
    if "ok" in u:
        if (u["ok"]["ctype_u"] != "" or codes(u["ok"]["a"]["flat"], dt) != exp or u["ok"]["ctype_d"] != r["ctype0"]
                or codes(u["ok"]["d_after"]["flat"], dt) != exp):
            failed = bad(f"{c['k']}:uncompress", "uncompress() did not return the uncompressed array as plain data, or changed its source", exp, u)
    else:
        failed = bad(f"{c['k']}:uncompress", f"uncompress() raised {u.get('err')}", None, u)
    if not st_ok:
        failed = bad(f"{c['k']}:stays-compressed", "reading changed the compression type, the compressed array or the count/index/list variable",
                     {"ctype": CTYPE[c["k"]], "carr": cflat}, {k: r.get(k) for k in ("ctype0", "ctype1", "ctype2", "carr1", "anc1")})
    # equality with the uncompressed array
    if "equals" in r:
        e = r["equals"]
        want = {"d_e": True, "e_d": True, "d_p": False, "p_d": False}
        got_e = {k: v.get("ok", v.get("err")) for k, v in e.items()}
        if any(got_e[k] != want[k] for k in got_e):
            failed = bad(f"{c['k']}:equals", f"equality with the uncompressed array / a perturbed copy: {got_e}", want, got_e)
    # assignment decompresses the copy only
    if r.get("assign") is not None:
        s = r["assign"]
        pos, v = c["assign"]
        ex2 = list(exp)
        ex2[pos] = v
        if "ok" not in s:
            failed = bad(f"{c['k']}:assign", f"assignment raised {s['err']}: {s.get('msg')}", None, s)
        else:
            o = s["ok"]
            if (o["ctype_e"] != "" or codes(o["a"]["flat"], dt) != ex2 or o["ctype_d"] != r["ctype0"]
                    or codes(o["d"]["flat"], dt) != exp or codes(o["carr_d"]["flat"], dt) != cflat):
                failed = bad(f"{c['k']}:assign", "assignment to a copy: the copy must hold the changed uncompressed array as plain data and the original must stay compressed and unchanged",
                             {"copy": ex2, "orig": exp}, o)
    if c["write"]:
        failed = oracle_file_array(chk, c, r, exp, bad) or failed
    if c.get("rawfile"):
        failed = oracle_rawread(c, r, exp, bad) or failed
    return failed


def oracle_rawread(c, r, exp, bad):
    """the same compressed array in a file made with netCDF4-python alone, read by cfdm.read
    with each backend: the user sees the same uncompressed array"""
    k = c["k"]
    dt = c["dtype"]
    if "ok" not in r.get("rawwrite", {}):
        return bad(f"{k}:rawfile-harness", f"the harness could not write the file: {r.get('rawwrite')}")
    failed = False
    for be, ent in r["rawread"].items():
        sig = f"{k}:read-of-independent-file"
        if "ok" not in ent or ent["ok"].get("n") != 1:
            failed = bad(sig, f"cfdm.read(netcdf_backend={be!r}) of a {CTYPE[k]} file written with netCDF4-python "
                              f"({c['vdtype']} count/index/list variable) failed: {str(ent)[:300]}")
            continue
        o = ent["ok"]
        got = codes(o["array"]["flat"], dt)
        if o["ctype"] != CTYPE[k] or o["ctype_after"] != CTYPE[k] or not embed_ok(c["shape"], exp, o["array"]["shape"], got):
            failed = bad(sig, f"data read ({be}) from an independently written {CTYPE[k]} file ({c['vdtype']} count/index/list "
                              "variable) do not present the array the CF conventions define",
                         {"ctype": CTYPE[k], "shape": c["shape"], "flat": exp},
                         {"ctype": o["ctype"], "shape": o["array"]["shape"], "flat": got})
            continue
        if any(v != NP_DTYPE[c["vdtype"]] for v in o["vdtypes"].values()):
            failed = bad(f"{k}:variable-dtype", f"the count/index/list variable read ({be}) has type {o['vdtypes']}, the file has {c['vdtype']}")
        if "sub" in o:
            es, eshape = take(exp, c["shape"], c["idx"])
            sg = o["sub"]
            if "ok" not in sg or sg["ok"]["shape"] != eshape or codes(sg["ok"]["flat"], dt) != es:
                failed = bad(f"{k}:subspace", f"subspace {c['idx']} of data read ({be}) from an independently written file is not "
                                             "the subspace of the uncompressed array", {"shape": eshape, "flat": es}, sg)
        u = o["uncompress"]
        if u["ctype_u"] != "" or u["ctype_d"] != CTYPE[k] or not embed_ok(c["shape"], exp, u["a"]["shape"], codes(u["a"]["flat"], dt)):
            failed = bad(f"{k}:uncompress", f"uncompress() of data read ({be}) from an independently written file", exp, u)
        if "assign" in o:
            pos, v = c["assign"]
            ex2 = list(exp)
            ex2[pos] = v
            a_ = o["assign"]
            if ("ok" not in a_ or a_["ok"]["ctype_e"] != "" or codes(a_["ok"]["a"]["flat"], dt) != ex2
                    or a_["ok"]["ctype_d"] != CTYPE[k] or codes(a_["ok"]["d"]["flat"], dt) != exp):
                failed = bad(f"{k}:assign", f"assignment to a copy of data read ({be}) from an independently written file", ex2, a_)
        for key, want in (("eq", True), ("eq_p", False)):
            if key in o and o[key].get("ok") != [want, want]:
                failed = bad(f"{k}:equals", f"data read ({be}) from an independently written file: equals with the "
                                           f"{'uncompressed array' if want else 'perturbed array'} answered {o[key]}", want, o[key])
    if r.get("alias"):
        pass
    return failed


def pair_expected(c):
    ea, eb = expected_array(c["a"]), expected_array(c["b"])

    def carr(x):
        if x["k"] == "gathered":
            return [x["cshape"], [v for b in x["blocks"] for cell in b for v in cell]]
        return [x["cshape"], [v for cell in x["cells"] for v in cell]]
    default = c["a"]["shape"] == c["b"]["shape"] and ea == eb
    strict = default and c["a"]["k"] == c["b"]["k"] and carr(c["a"]) == carr(c["b"])
    return default, strict, ea, eb


def oracle_pair(chk, c, r):
    """equals() on two compressed data: equality of the uncompressed arrays (and, with
    ignore_compression=False, of the compression type and the compressed arrays as well) -
    through Data.equals, a metadata construct's equals and Field.equals"""
    def bad(sig, what, expected=None, observed=None):
        chk.fail("property", sig, what, {"input": c_public(c), "expected": expected, "observed": observed})
        return True
    if "driver_error" in r:
        return bad("equals:driver", r["driver_error"])
    default, strict, ea, eb = pair_expected(c)
    dt = c["dtype"]
    failed = False
    if [codes(x["flat"], dt) for x in r["arrays"]] != [ea, eb]:
        return bad(f"{c['a']['k']}:decode", "the arrays of the pair are not those the CF conventions define", [ea, eb], r["arrays"])
    want = {"default": default, "ignore": default, "strict": strict}
    for level in ("data", "construct", "field", "field_aux_only"):
        for name, w in want.items():
            got = [x.get("ok", x.get("err")) for x in r[level][name]]
            if got != [w, w]:
                kw = {"default": "", "ignore": ", ignore_compression=True", "strict": ", ignore_compression=False"}[name]
                failed = bad(f"equals:{level}:{c['mode']}",
                             f"{level}: x.equals(y{kw}) and the converse answered {got} for two {CTYPE[c['a']['k']]} / {CTYPE[c['b']['k']]} "
                             f"data whose uncompressed arrays are {'equal' if default else 'different'}"
                             + ("" if name != "strict" else f" and whose compressed forms are {'the same' if strict else 'different'}"),
                             w, {"answers": got, "a": ea, "b": eb})
    if r["ctypes_after"] != r["ctypes"]:
        failed = bad("equals:stays-compressed", "comparing decompressed one of the data", r["ctypes"], r["ctypes_after"])
    return failed


def c_public(c):
    return {k: v for k, v in c.items() if k not in ("t",) and not (k == "cells" and c.get("big"))}


def raw_find(raw, attr):
    return [(n, v) for n, v in raw["vars"].items() if attr in v["attrs"]]


def decode_raw(raw, datavar="tas"):
    """Independent decoder of a written file: returns (shape, flat values with None)
    of the uncompressed data variable, from the raw variables only."""
    v = raw["vars"][datavar]
    dims = v["dims"]
    vals = v["mflat"] if v["mflat"] is not None else v["flat"]
    sizes = raw["dims"]
    counts = raw_find(raw, "sample_dimension")
    indexes = raw_find(raw, "instance_dimension")
    lists = raw_find(raw, "compress")
    for name, lv in lists:
        if name in dims:
            pos = dims.index(name)
            cdims = lv["attrs"]["compress"].split()
            lead = [sizes[d] for d in dims[:pos]]
            trail = [sizes[d] for d in dims[pos + 1:]]
            csz = [sizes[d] for d in cdims]
            t = prod(trail)
            S = sizes[name]
            blocks = []
            for b in range(prod(lead)):
                blocks.append([vals[(b * S + s) * t:(b * S + s + 1) * t] for s in range(S)])
            flat = dec_gathered(prod(lead), prod(csz), t, lv["flat"], blocks)
            return "gathered", lead + csz + trail, flat
    for cname, cv in counts:
        sd = cv["attrs"]["sample_dimension"]
        if dims and dims[0] == sd:
            trail = [sizes[d] for d in dims[1:]]
            t = prod(trail)
            cells = chunk(vals, t)
            cnt = cv["flat"]
            prof_dim = cv["dims"][0]
            ix = [iv for n, iv in indexes if iv["dims"] == [prof_dim]]
            if ix:
                iv = ix[0]
                nfeat = sizes[iv["attrs"]["instance_dimension"]]
                per = [iv["flat"].count(i) for i in range(nfeat)]
                nprof = max(per) if per else 0
                w = max(cnt) if cnt else 0
                return "ragged indexed contiguous", [nfeat, nprof, w] + trail, dec_ic(nfeat, nprof, w, t, cnt, iv["flat"], cells)
            nrows = sizes[prof_dim]
            w = max(cnt) if cnt else 0
            return "ragged contiguous", [nrows, w] + trail, dec_contig(nrows, w, t, cnt, cells)
    for iname, iv in indexes:
        if dims and iv["dims"] == [dims[0]]:
            trail = [sizes[d] for d in dims[1:]]
            t = prod(trail)
            cells = chunk(vals, t)
            nrows = sizes[iv["attrs"]["instance_dimension"]]
            per = [iv["flat"].count(i) for i in range(nrows)]
            w = max(per) if per else 0
            return "ragged indexed", [nrows, w] + trail, dec_indexed(nrows, w, t, iv["flat"], cells)
    return "", [sizes[d] for d in dims], list(vals)


def embed_ok(full_shape, full, small_shape, small):
    """`small` (shape small_shape) equals `full` restricted to its leading corner and
    everything of `full` outside that corner is missing (what a ragged file can hold)."""
    if len(full_shape) != len(small_shape) or any(s > f for s, f in zip(small_shape, full_shape)):
        return False
    fs = []
    s = 1
    for n in reversed(full_shape):
        fs.insert(0, s)
        s *= n
    small_it = iter(small)
    inside = set()
    for mi in itertools.product(*[range(n) for n in small_shape]):
        p = sum(a * b for a, b in zip(mi, fs))
        inside.add(p)
        if full[p] != next(small_it):
            return False
    return all(v is None for p, v in enumerate(full) if p not in inside)


def oracle_file_common(chk, kindname, dtype, full_shape, exp, r, bad, ctype, idx=None):
    failed = False
    w = r.get("write", {})
    if "ok" not in w:
        return bad(f"{kindname}:file", f"writing the compressed field raised {w.get('err')}: {w.get('msg')}")
    raw = r["raw"].get("ok")
    if raw is None:
        return bad(f"{kindname}:file", f"the written file cannot be inspected: {r['raw']}")
    try:
        rtype, rshape, rflat = decode_raw(raw)
    except Exception as e:  # noqa
        return bad(f"{kindname}:file", f"the count/index/list variables of the written file cannot be decoded: {type(e).__name__}: {e}", None, raw)
    rcodes = codes(rflat, dtype)
    if rtype != ctype:
        failed = bad(f"{kindname}:file-not-compressed", f"the field was written as {rtype or 'uncompressed'} instead of {ctype}", ctype, {k: (v['dims'], v['attrs']) for k, v in raw['vars'].items()})
    elif not embed_ok(full_shape, exp, rshape, rcodes):
        failed = bad(f"{kindname}:file-decode", "an independent decoder of the written count/index/list variables does not recover the array",
                     {"shape": full_shape, "flat": exp}, {"shape": rshape, "flat": rcodes})
    rr = r.get("reread", {})
    if True:
        if "ok" not in rr or rr["ok"]["n"] != 1:
            failed = bad(f"{kindname}:reread", f"reading the written file back failed: {rr}")
        else:
            hs = rr["ok"]["array"]
            for key in ("sub", "sub_field"):
                if key in rr["ok"] and idx is not None:
                    es, eshape = take(exp, full_shape, idx)
                    sg = rr["ok"][key]
                    if key == "sub_field" and 0 in eshape:
                        continue    # a Field refuses an empty subspace with IndexError, by design
                    if "ok" not in sg or sg["ok"]["shape"] != eshape or codes(sg["ok"]["flat"], dtype) != es:
                        failed = bad(f"{kindname}:reread-subspace", f"subspace {idx} ({key}) of the field read back from the written file is not the subspace of the array",
                                     {"shape": eshape, "flat": es}, sg)
            if rr["ok"]["ctype"] != ctype or not embed_ok(full_shape, exp, hs["shape"], codes(hs["flat"], dtype)):
                failed = bad(f"{kindname}:reread", "the field read back from the written file does not present the same array",
                             {"ctype": ctype, "shape": full_shape, "flat": exp}, {"ctype": rr["ok"]["ctype"], "shape": hs["shape"], "flat": codes(hs["flat"], dtype)})
    return failed


def oracle_file_array(chk, c, r, exp, bad):
    return oracle_file_common(chk, c["k"], c["dtype"], c["shape"], exp, r, bad, CTYPE[c["k"]], c.get("idx"))


def flat_nested(x, depth):
    out = x
    for _ in range(depth - 1):
        out = [z for y in out for z in y]
    return out


def oracle_compress(chk, c, r):
    """Field.compress then read / uncompress is the identity (values and mask) for
    the field and the constructs spanning the same axes."""
    dt = c["dtype"]
    nd = len(c["shape"])
    exp = flat_nested(c["rows"], nd)
    kind = "compress-" + c["method"]

    def bad(sig, what, expected=None, observed=None):
        chk.fail("property", sig, what, {"input": c_public(c), "expected": expected, "observed": observed})
        return True

    if "driver_error" in r:
        return bad(f"{kind}:driver", r["driver_error"])
    if "ok" not in r["compress"]:
        return bad(f"{kind}:raises", f"compress raised {r['compress']['err']}: {r['compress'].get('msg')}")
    failed = False
    a = r["array"]
    got = codes(a["ok"]["flat"], dt) if "ok" in a else a
    if r["ctype"] != CTYPE[c["method"]]:
        failed = bad(f"{kind}:not-compressed", f"compression type after compress is {r['ctype']!r}")
    if got != exp or a["ok"]["shape"] != c["shape"]:
        failed = bad(sig_compress(c, exp, got), "the array of the compressed field is not the array of the original field", exp, got)
    else:
        flags = {k: r[k].get("ok", r[k]) for k in ("g_eq_f", "f_eq_g", "g_eq_f_end")}
        u = r["uncompress"].get("ok", {})
        if (flags != {"g_eq_f": True, "f_eq_g": True, "g_eq_f_end": True} or not u or not u["u_eq_f"] or u["ctype_u"] != ""
                or u["ctype_g"] != r["ctype"] or r["ctype_end"] != r["ctype"] or codes(u["g_after"]["flat"], dt) != exp):
            failed = bad(sig_compress(c, exp, None) if c["tag"] == "beyond-count" else f"{kind}:equals",
                         "compressed field / uncompressed field do not compare equal to the original",
                         None, {"flags": flags, "uncompress": r["uncompress"]})
    if r.get("alias"):
        failed = bad(f"{kind}:returned-array-aliases-internal-state",
                     "an array returned by the implementation was overwritten in place and the next read changed: "
                     + ", ".join(x["what"] for x in r["alias"]), None, r["alias"][:3])
    if c.get("idx") is not None and "sub" in r and not failed:
        es, eshape = take(exp, c["shape"], c["idx"])
        sb = r["sub"]
        empty = 0 in eshape     # a Field (unlike Data) refuses an empty subspace with IndexError, by design
        for lvl in ("data", "field"):
            g_ = sb[lvl]
            if lvl == "field" and empty:
                continue
            if "ok" not in g_ or g_["ok"]["shape"] != eshape or codes(g_["ok"]["flat"], dt) != es:
                failed = bad(f"{kind}:subspace", f"subspace {c['idx']} of the compressed field ({lvl}) is not the subspace of the original array",
                             {"shape": eshape, "flat": es}, g_)
        for name, (ncvar, cdt, e) in construct_arrays(c).items():
            g_ = sb["cons"].get(name, {})
            ec, _ = take(e, c["shape"], c["idx"])
            if empty:
                continue
            if "ok" not in g_ or codes(g_["ok"]["flat"], cdt) != ec:
                failed = bad(f"{kind}:subspace", f"subspace {c['idx']} of the compressed field: construct {name} does not show the subspace of its array", ec, g_)
        if sb["ctype_after"] != r["ctype"]:
            failed = bad(f"{kind}:stays-compressed", "subspacing the compressed field decompressed it")
    if r["f_unchanged"].get("ok") is not True:
        failed = bad(f"{kind}:source-changed", "compress(inplace=False) changed its source field", None, r["f_unchanged"])
    # constructs spanning the same axes
    for name, rows in (("aux", c["auxr"]), ("other", c["otherr"])):
        if rows is None:
            continue
        cdt = "f8" if name == "aux" else dt
        e = flat_nested(rows, nd)
        ent = r["cons"][name]
        g = codes(ent["array"]["ok"]["flat"], cdt) if "ok" in ent["array"] else ent["array"]
        if g != e:
            failed = bad(sig_compress(c, e, g, name), f"the array of construct {name} (same axes as the field) changed under compress", e, g)
        if ent["ctype"] != CTYPE[c["method"]]:
            failed = bad(f"{kind}:construct-not-compressed", f"construct {name} spanning the same axes is not compressed: {ent['ctype']!r}")
        if name == "aux" and c["bounds"]:
            b = ent.get("bounds", {})
            if "ok" not in b or b["ok"]["flat"] != ent["bounds0"]["flat"] or b["ok"]["shape"] != ent["bounds0"]["shape"]:
                failed = bad(f"{kind}:bounds", "the bounds of the auxiliary coordinate changed under compress", ent.get("bounds0"), b)
    if c["write"] and not failed:
        failed = oracle_file_common(chk, kind, dt, c["shape"], exp, r, bad, CTYPE[c["method"]], c.get("idx")) or failed
        if not failed:
            failed = oracle_file_constructs(c, r["raw"]["ok"], r.get("reread_all", {}), "", kind, bad)
    if c.get("post") is not None and not failed:
        failed = oracle_post(c, r, exp, kind, bad) or failed
    return failed


def construct_arrays(c):
    """name -> (netCDF variable, dtype, flat expected array) of the constructs on the field's axes"""
    nd = len(c["shape"])
    out = {}
    if c["auxr"] is not None:
        out["aux"] = ("aux0", "f8", flat_nested(c["auxr"], nd))
    if c["otherr"] is not None:
        out["other"] = ("anc0", c["dtype"], flat_nested(c["otherr"], nd))
    return out


def oracle_file_constructs(c, raw, reread, suffix, kind, bad):
    """the constructs spanning the field's axes are in the file on the sample dimension, and
    decode (raw, and by cfdm) to their arrays"""
    failed = False
    for name, (ncvar, cdt, e) in construct_arrays(c).items():
        ncvar += suffix
        if ncvar not in raw["vars"]:
            failed = bad(f"{kind}:file-construct", f"variable {ncvar} of the construct spanning the field's axes is not in the file")
            continue
        try:
            rtype, rshape, rflat = decode_raw(raw, ncvar)
        except Exception as ex:  # noqa
            failed = bad(f"{kind}:file-construct", f"{ncvar} cannot be decoded from the raw file: {type(ex).__name__}: {ex}")
            continue
        if rtype != CTYPE[c["method"]] or not embed_ok(c["shape"], e, rshape, codes(rflat, cdt)):
            failed = bad(f"{kind}:file-construct", f"{ncvar}: an independent decoder of the written variables does not recover the construct's array",
                         {"ctype": CTYPE[c["method"]], "shape": c["shape"], "flat": e}, {"ctype": rtype, "shape": rshape, "flat": codes(rflat, cdt)})
        rr = reread.get("ok") if isinstance(reread, dict) else None
        if rr is not None:
            ents = [f["cons"].get(ncvar) for f in rr.values() if ncvar in f["cons"]]
            if not ents or not embed_ok(c["shape"], e, ents[0]["shape"], codes(ents[0]["flat"], cdt)):
                failed = bad(f"{kind}:reread-construct", f"{ncvar}: the construct read back from the file does not present the same array",
                             {"shape": c["shape"], "flat": e}, ents[:1])
    return failed


def oracle_post(c, r, exp, kind, bad):
    """compress, then assign to the data of the field or of one construct on the same axes,
    then write: only what was assigned to is decompressed and changed; the result can be
    written and read back"""
    pr = r.get("post")
    if pr is None:
        return bad(f"{kind}:post", "the later steps of the history were not run")
    where, pos, v = c["post"]
    dt = c["dtype"]
    failed = False
    want = {"data": (dt, list(exp))}
    for name, (ncvar, cdt, e) in construct_arrays(c).items():
        want[name] = (cdt, list(e))
    want[where][1][pos] = v
    got = {"data": pr["array"]}
    ctypes = {"data": pr["ctype_field"]}
    for name in want:
        if name != "data":
            got[name] = pr["cons"][name]["array"]
            ctypes[name] = pr["cons"][name]["ctype"]
    for name, (cdt, e) in want.items():
        g = got[name]
        gc = codes(g["ok"]["flat"], cdt) if "ok" in g else g
        wct = "" if name == where else CTYPE[c["method"]]
        if gc != e or ctypes[name] != wct:
            failed = bad(f"{kind}:assign-after-compress", f"after assigning to {where}: {name} shows a wrong array or compression state {ctypes[name]!r} (expected {wct!r})",
                         e, gc)
    if pr["orig_ctype"] != CTYPE[c["method"]] or pr["orig_eq"].get("ok") is not True:
        failed = bad(f"{kind}:assign-after-compress", "assigning to a copy of the compressed field changed the field it was copied from", None, pr)
    if failed:
        return True
    w = pr["write"]
    if "ok" not in w:
        sig = "compress:file-after-construct-assignment" if where != "data" else f"{kind}:file-after-assignment"
        return bad(sig, f"after assigning to {where} of the compressed field, writing it raised {w.get('err')}: {w.get('msg')}")
    rr = pr.get("reread", {})
    raw = pr.get("raw", {}).get("ok")
    if "ok" not in rr or raw is None or "tas" not in rr["ok"]:
        return bad(f"{kind}:file-after-assignment", f"the file written after the assignment cannot be read back: {str(rr)[:300]}")
    ent = rr["ok"]["tas"]
    if not embed_ok(c["shape"], want["data"][1], ent["array"]["shape"], codes(ent["array"]["flat"], dt)):
        failed = bad(f"{kind}:file-after-assignment", "the field read back after compress, assign, write does not present the assigned array",
                     want["data"][1], ent["array"])
    for name, (ncvar, cdt, e0) in construct_arrays(c).items():
        e = want[name][1]
        cg = ent["cons"].get(ncvar)
        if cg is None or not embed_ok(c["shape"], e, cg["shape"], codes(cg["flat"], cdt)):
            failed = bad(f"{kind}:file-after-assignment", f"construct {ncvar} read back after compress, assign, write does not present its array", e, cg)
    try:
        rtype, rshape, rflat = decode_raw(raw, "tas")
        if not embed_ok(c["shape"], want["data"][1], rshape, codes(rflat, dt)):
            failed = bad(f"{kind}:file-after-assignment", "an independent decoder of the file written after the assignment does not recover the field's array",
                         want["data"][1], {"shape": rshape, "flat": codes(rflat, dt)})
    except Exception as ex:  # noqa
        failed = bad(f"{kind}:file-after-assignment", f"the file written after the assignment cannot be decoded: {type(ex).__name__}: {ex}")
    return failed


def file_variables(m):
    """(count variable, index variable, number of features) that compress gives member m"""
    nd = len(m["shape"])
    arrays = [m["rows"]] + [x for x in (m["auxr"], m["otherr"]) if x is not None]
    flat = [flat_nested(a, nd - 1) if nd == 3 else a for a in arrays]
    cnt = [max(derive(a[i]) for a in flat) for i in range(len(flat[0]))]
    nf = m["shape"][0]
    if m["method"] == "contiguous":
        return cnt, None, nf
    if m["method"] == "indexed":
        return None, [i for i, c in enumerate(cnt) for _ in range(c)], nf
    npf = m["shape"][1]
    per = [cnt[i * npf:(i + 1) * npf] for i in range(nf)]
    kept = [n_profiles(p) for p in per]
    return [x for p, k in zip(per, kept) for x in p[:k]], [i for i, k in enumerate(kept) for _ in range(k)], nf


def harmful_sharing(members):
    """The writer stores equal count / index variables once.  That loses information when two
    indexed fields have equal index variables but different numbers of features, or two
    indexed contiguous fields have equal count variables but different index variables or
    numbers of features (open finding multi:equal-count-or-index-variables-shared-across-fields)."""
    fv = [file_variables(m) for m in members]
    for a in range(len(members)):
        for b in range(a + 1, len(members)):
            ma, mb = members[a]["method"], members[b]["method"]
            (ca, ia, na), (cb, ib, nb) = fv[a], fv[b]
            if ma == mb == "indexed" and ia == ib and na != nb:
                return True
            if ma == mb == "indexed_contiguous" and ca == cb and (ia != ib or na != nb):
                return True
    return False


def oracle_multi(chk, c, r):
    """several compressed fields in one file: each is written compressed with its own count /
    index variables, from which its array is recovered (raw decoder and cfdm.read)"""
    harm = harmful_sharing(c["members"])

    def bad(sig, what, expected=None, observed=None):
        if harm and sig != "multi:driver":
            # equal count / index variables that must not be shared (repaired: c3f0f59, 2744242 and
            # handoff/C06-fix3-1.diff); kept as a separate signature so that a regression is named
            sig = "multi:equal-count-or-index-variables-shared-across-fields"
        chk.fail("property", sig, what, {"input": c_public(c), "expected": expected, "observed": observed})
        return True
    if "driver_error" in r:
        return bad("multi:driver", r["driver_error"])
    w = r["write"]
    methods = "+".join(sorted({m["method"] for m in c["members"]}))
    if "ok" not in w:
        return bad("multi:file", f"writing {len(c['members'])} compressed fields ({methods}) to one file raised {w.get('err')}: {w.get('msg')}")
    raw = r["raw"].get("ok")
    rr = r["reread"]
    if raw is None:
        return bad("multi:file", f"the written file cannot be inspected: {r['raw']}")
    failed = False
    for n, m in enumerate(c["members"]):
        exp = flat_nested(m["rows"], len(m["shape"]))
        dt = m["dtype"]
        ncvar = f"tas_{n}"
        ct = CTYPE[m["method"]]
        if r["ctypes"][n] != ct or codes(r["arrays"][n]["flat"], dt) != exp:
            failed = bad("multi:compress", f"member {n} is not compressed to the same array", exp, r["arrays"][n])
            continue
        try:
            rtype, rshape, rflat = decode_raw(raw, ncvar)
        except Exception as ex:  # noqa
            failed = bad("multi:file-decode", f"{ncvar} cannot be decoded from the raw file: {type(ex).__name__}: {ex}", None,
                         {k: (v["dims"], v["attrs"]) for k, v in raw["vars"].items()})
            continue
        if rtype != ct or not embed_ok(m["shape"], exp, rshape, codes(rflat, dt)):
            failed = bad("multi:file-decode", f"{ncvar} ({ct}): an independent decoder of the written count/index variables does not recover the array",
                         {"ctype": ct, "shape": m["shape"], "flat": exp},
                         {"ctype": rtype, "shape": rshape, "flat": codes(rflat, dt), "vars": {k: (v["dims"], v["attrs"], v["flat"]) for k, v in raw["vars"].items()}})
        failed = oracle_file_constructs(m, raw, rr, f"_{n}", "multi", bad) or failed
        if "ok" not in rr or ncvar not in rr["ok"]:
            failed = bad("multi:reread", f"{ncvar} is not among the fields read back: {str(rr)[:300]}")
        else:
            ent = rr["ok"][ncvar]
            if ent["ctype"] != ct or not embed_ok(m["shape"], exp, ent["array"]["shape"], codes(ent["array"]["flat"], dt)):
                failed = bad("multi:reread", f"{ncvar} read back from the file does not present the same array",
                             {"ctype": ct, "shape": m["shape"], "flat": exp}, ent)
    return failed


def sig_compress(c, exp, got, name="data"):
    """classification of a compress round-trip failure from the input"""
    kind = "compress-" + c["method"]
    if c["tag"] == "beyond-count":
        return "compress:values-beyond-auxiliary-count-dropped"
    nd = len(c["shape"])
    rows = c["rows"] if c["auxr"] is None else c["auxr"]
    flatrows = rows if nd == 2 else [r for f in rows for r in f]
    cnts = [derive(r) for r in flatrows]
    if (isinstance(got, list) and len(got) == len(exp)
            and any(e is None and g is not None for g, e in zip(got, exp))
            and all(g == e for g, e in zip(got, exp) if e is not None)):
        return f"{kind}:missing-value-inside-feature-unmasked"
    if 0 in cnts:
        return f"{kind}:empty-feature-shifts-later-features"
    return f"{kind}:roundtrip"


# ---- the check ----------------------------------------------------------------------------------------
CORPUS = [
    # F06a: an instance absent from the index variable
    {"k": "indexed", "tag": "valid", "shape": [3, 3], "cshape": [5], "index": [0, 2, 2, 0, 2],
     "cells": [[1], [2], [3], [4], [5]], "t": 1, "dtype": "i4", "idx": None, "assign": None, "write": True},
    {"k": "ic", "tag": "valid", "shape": [3, 2, 2], "cshape": [4], "count": [2, 1, 1], "index": [2, 0, 2],
     "cells": [[1], [2], [3], [4]], "t": 1, "dtype": "f8", "idx": None, "assign": None, "write": True},
    # F06d: indexed contiguous, trailing dimension larger than the element dimension
    {"k": "ic", "tag": "valid", "shape": [2, 2, 2, 3], "cshape": [5, 3], "count": [2, 1, 2], "index": [0, 1, 0],
     "cells": [[1, 2, 3], [4, 5, 6], [7, 8, 9], [10, 11, 12], [13, 14, 15]], "t": 3, "dtype": "i4",
     "idx": None, "assign": None, "write": False},
    # F06b / F06c: empty feature / empty profile before a present one
    {"k": "compress", "tag": "valid", "method": "contiguous", "shape": [4, 3],
     "rows": [[1, 2, None], [None, None, None], [3, None, None], [4, 5, 6]], "auxr": None, "otherr": None,
     "aux2r": None, "bounds": False, "dtype": "f8", "write": True},
    {"k": "compress", "tag": "valid", "method": "indexed", "shape": [4, 3],
     "rows": [[1, 2, None], [None, None, None], [3, None, None], [4, 5, 6]], "auxr": None, "otherr": None,
     "aux2r": None, "bounds": False, "dtype": "f8", "write": True},
    {"k": "compress", "tag": "valid", "method": "indexed_contiguous", "shape": [2, 3, 2],
     "rows": [[[None, None], [3, None], [5, 6]], [[7, 8], [None, None], [None, None]]], "auxr": None,
     "otherr": None, "aux2r": None, "bounds": False, "dtype": "f8", "write": True},
    # F06e: a missing value inside a feature
    {"k": "compress", "tag": "valid", "method": "contiguous", "shape": [2, 3],
     "rows": [[1, None, 3], [4, 5, None]], "auxr": None, "otherr": None, "aux2r": None, "bounds": False,
     "dtype": "f8", "write": True},
    # F06f (fix2-1): a field value beyond the last value of the auxiliary coordinate
    {"k": "compress", "tag": "beyond-count", "method": "indexed", "shape": [1, 3],
     "rows": [[1, None, 99]], "auxr": [[100, None, None]], "otherr": None, "aux2r": None, "bounds": False,
     "dtype": "f8", "write": True, "post": None},
    {"k": "compress", "tag": "beyond-count", "method": "contiguous", "shape": [2, 3],
     "rows": [[1, None, None], [4, 5, None]], "auxr": [[100, None, None], [101, 102, None]],
     "otherr": [[201, 202, None], [None, None, 203]], "aux2r": None, "bounds": False,
     "dtype": "i4", "write": True, "post": None},
    # fix2-2: no sample at all (every feature empty): the file must be readable
    {"k": "compress", "tag": "valid", "method": "indexed", "shape": [3, 2],
     "rows": [[None, None], [None, None], [None, None]], "auxr": None, "otherr": None, "aux2r": None,
     "bounds": False, "dtype": "f8", "write": True, "post": None},
    {"k": "compress", "tag": "valid", "method": "indexed_contiguous", "shape": [2, 2, 2],
     "rows": [[[None, None], [None, None]], [[None, None], [None, None]]], "auxr": None, "otherr": None,
     "aux2r": None, "bounds": False, "dtype": "f8", "write": True, "post": None},
    # fix2-3: two compressed fields with different index variables in one file; a contiguous
    # and an indexed field in one file
    {"k": "multi", "tag": "valid", "dtype": "f8", "shape": [2], "write": True, "members": [
        {"k": "compress", "tag": "valid", "method": "indexed", "shape": [2, 3], "rows": [[1, 2, None], [3, None, None]],
         "auxr": None, "otherr": None, "aux2r": None, "bounds": False, "dtype": "f8", "write": False, "post": None},
        {"k": "compress", "tag": "valid", "method": "indexed", "shape": [2, 3], "rows": [[4, None, None], [5, 6, 7]],
         "auxr": None, "otherr": None, "aux2r": None, "bounds": False, "dtype": "f8", "write": False, "post": None}]},
    {"k": "multi", "tag": "valid", "dtype": "f8", "shape": [2], "write": True, "members": [
        {"k": "compress", "tag": "valid", "method": "indexed_contiguous", "shape": [2, 2, 2],
         "rows": [[[1, 2], [3, None]], [[4, None], [None, None]]],
         "auxr": None, "otherr": None, "aux2r": None, "bounds": False, "dtype": "f8", "write": False, "post": None},
        {"k": "compress", "tag": "valid", "method": "indexed_contiguous", "shape": [3, 2, 2],
         "rows": [[[5, None], [None, None]], [[6, 7], [8, 9]], [[1, None], [None, None]]],
         "auxr": None, "otherr": None, "aux2r": None, "bounds": False, "dtype": "f8", "write": False, "post": None}]},
    {"k": "multi", "tag": "valid", "dtype": "f8", "shape": [2], "write": True, "members": [
        {"k": "compress", "tag": "valid", "method": "contiguous", "shape": [2, 3], "rows": [[1, 2, None], [3, None, None]],
         "auxr": None, "otherr": None, "aux2r": None, "bounds": False, "dtype": "f8", "write": False, "post": None},
        {"k": "compress", "tag": "valid", "method": "indexed", "shape": [2, 3], "rows": [[4, None, None], [5, 6, 7]],
         "auxr": None, "otherr": None, "aux2r": None, "bounds": False, "dtype": "f8", "write": False, "post": None}]},
    # fix2-4: compress, assign to the field data (the constructs stay compressed), write
    {"k": "compress", "tag": "valid", "method": "contiguous", "shape": [2, 3],
     "rows": [[1, 2, None], [3, None, None]], "auxr": [[101, 102, None], [103, None, None]], "otherr": None,
     "aux2r": None, "bounds": False, "dtype": "f8", "write": False, "post": ["data", 0, 9]},
    # third pass: int8 count variable whose counts add up to more than int8 holds (in memory and
    # in a file written with netCDF4-python)
    {"k": "contig", "tag": "valid", "shape": [4, 60], "cshape": [150], "count": [60, 50, 0, 40],
     "cells": [[1 + p] for p in range(150)], "t": 1, "dtype": "f8", "vdtype": "i1", "idx": None, "assign": None,
     "write": True, "rawfile": True, "wide": True},
    # third pass: the same compressed values under different count / list variables are different arrays
    {"k": "pair", "tag": "valid", "mode": "same-compressed-values-different-count-index-list", "dtype": "f8", "shape": [2, 3],
     "write": False,
     "a": {"k": "contig", "tag": "valid", "shape": [2, 3], "cshape": [4], "count": [1, 3], "cells": [[1], [2], [3], [4]],
           "t": 1, "dtype": "f8", "vdtype": "i4", "idx": None, "assign": None, "write": False},
     "b": {"k": "contig", "tag": "valid", "shape": [2, 3], "cshape": [4], "count": [3, 1], "cells": [[1], [2], [3], [4]],
           "t": 1, "dtype": "f8", "vdtype": "i4", "idx": None, "assign": None, "write": False}},
    {"k": "pair", "tag": "valid", "mode": "same-compressed-values-different-count-index-list", "dtype": "f8", "shape": [2, 3],
     "write": False,
     "a": {"k": "gathered", "tag": "valid", "shape": [2, 3], "cshape": [4], "ldims": [], "dims": [2, 3], "tdims": [],
           "list": [0, 2, 3, 5], "blocks": [[[1], [2], [3], [4]]], "t": 1, "cdim": 0, "cdims": [0, 1], "dtype": "f8",
           "vdtype": "i4", "idx": None, "assign": None, "write": False},
     "b": {"k": "gathered", "tag": "valid", "shape": [2, 3], "cshape": [4], "ldims": [], "dims": [2, 3], "tdims": [],
           "list": [5, 3, 2, 0], "blocks": [[[1], [2], [3], [4]]], "t": 1, "cdim": 0, "cdims": [0, 1], "dtype": "f8",
           "vdtype": "i4", "idx": None, "assign": None, "write": False}},
    # fix3-1: two indexed contiguous fields with equal count variables but different index variables
    {"k": "multi", "tag": "valid", "dtype": "f8", "shape": [2], "write": True, "members": [
        {"k": "compress", "tag": "valid", "method": "indexed_contiguous", "shape": [2, 1, 1], "rows": [[[1]], [[2]]],
         "auxr": None, "otherr": None, "aux2r": None, "bounds": False, "dtype": "f8", "write": False, "post": None},
        {"k": "compress", "tag": "valid", "method": "indexed_contiguous", "shape": [1, 2, 1], "rows": [[[None], [2]]],
         "auxr": [[[100], [101]]], "otherr": None, "aux2r": None, "bounds": False, "dtype": "f8", "write": False, "post": None}]},
    # c3f0f59: two indexed fields with equal index variables but different numbers of features
    {"k": "multi", "tag": "valid", "dtype": "f8", "shape": [2], "write": True, "members": [
        {"k": "compress", "tag": "valid", "method": "indexed", "shape": [3, 2], "rows": [[1, 2], [3, None], [None, None]],
         "auxr": None, "otherr": None, "aux2r": None, "bounds": False, "dtype": "f8", "write": False, "post": None},
        {"k": "compress", "tag": "valid", "method": "indexed", "shape": [2, 2], "rows": [[4, 5], [6, None]],
         "auxr": None, "otherr": None, "aux2r": None, "bounds": False, "dtype": "f8", "write": False, "post": None}]},
    # open: compress, assign to a construct spanning the field's axes, write
    {"k": "compress", "tag": "valid", "method": "contiguous", "shape": [2, 3],
     "rows": [[1, 2, None], [3, None, None]], "auxr": [[101, 102, None], [103, None, None]], "otherr": None,
     "aux2r": None, "bounds": False, "dtype": "f8", "write": False, "post": ["aux", 0, 9]},
]


def is_valid(c):
    return c.get("tag") == "valid" or (c["k"] == "compress" and c.get("tag") == "beyond-count")


def nontrivial(c):
    """rule used for coverage: see chk.coverage['rule']"""
    if c["k"] in ("multi", "pair"):
        return True
    if c["k"] == "compress":
        flat = flat_nested(c["rows"], len(c["shape"]))
        return any(v is None for v in flat) and any(v is not None for v in flat)
    if c["k"] == "gathered":
        return len(c["list"]) >= 1 and c["list"] != sorted(c["list"]) or 0 < len(c["list"]) < prod(c["dims"])
    if c["k"] == "contig":
        return len(c["cells"]) >= 1 and (0 in c["count"] or len(set(c["count"])) > 1)
    return len(c["cells"]) >= 2


def generate(chk):
    rng = chk.rng
    thorough = chk.tier == "thorough"
    scale = 10 if thorough else 2
    cases = [dict(c) for c in CORPUS]
    plan = [(gen_contig, 420), (gen_indexed, 520), (gen_ic, 560), (gen_gathered, 520)]
    for gen, n in plan:
        for _ in range(n * scale):
            c = gen(rng, malformed=False)
            cases.append(c)
        for _ in range((n // 7) * scale):
            cases.append(gen(rng, malformed=True))
    for _ in range(520 * scale):
        cases.append(gen_compress2(rng))
    for _ in range(90 * scale):
        cases.append(gen_compress2(rng, inconsistent=True))
    for _ in range(420 * scale):
        cases.append(gen_compress3(rng))
    for _ in range(30 * scale):
        cases.append(gen_compress3(rng, inconsistent=True))
    for _ in range(60 * scale):
        cases.append(gen_multi(rng))
    for _ in range(40 * scale):
        cases.append(gen_contig_wide(rng))
    for _ in range(20 * scale):
        cases.append(gen_ic_wide(rng))
    for _ in range(2 if not thorough else 8):
        cases.append(gen_contig_wide(rng, big=True))
    for _ in range(200 * scale):
        cases.append(gen_pair(rng))
    # file level: a share of the valid cases is also written and inspected
    nfiles = 0
    budget = 1500 if thorough else 300
    order = list(range(len(CORPUS), len(cases)))
    rng.shuffle(order)
    for i in order:
        c = cases[i]
        if nfiles >= budget:
            break
        if not is_valid(c) or dkind(c["dtype"]) == "s" or c["k"] in ("multi", "pair") or c.get("big"):
            continue
        c["write"] = True
        nfiles += 1
    # the other file route: a file written with netCDF4-python alone, read with both backends
    nraw = 0
    rng.shuffle(order)
    for i in order:
        c = cases[i]
        if c["k"] in ("compress", "multi", "pair") or not is_valid(c) or dkind(c["dtype"]) == "s":
            continue
        if c.get("wide") or nraw < (1200 if thorough else 220):
            c["rawfile"] = True
            nraw += 1
    return cases


def run(chk, model_ok):
    import time
    t0 = time.time()
    timing = {}
    cases = generate(chk)
    timing["generate_s"] = round(time.time() - t0, 1)
    expects = []
    for c in cases:
        if c["k"] not in NOT_ARRAY and is_valid(c):
            expects.append(expected_array(c))
        else:
            expects.append(None)
    payloads = [payload_case(c, e) for c, e in zip(cases, expects)]
    nw = 14
    shards = [list(range(i, len(cases), nw)) for i in range(nw)]
    scratch = chk.scratch
    res = lib.run_workers_parallel(
        "drive/c06.py", [{"scratch": scratch, "cases": [payloads[i] for i in sh]} for sh in shards])
    rows = [None] * len(cases)
    for w, (rc, out, err) in enumerate(res):
        for j, row in enumerate(out):
            if j < len(shards[w]):
                rows[shards[w][j]] = row
        if rc != 0 or len(out) != len(shards[w]):
            # a dead worker is an observation about the case that was running
            k = len(out)
            culprit = shards[w][k] if k < len(shards[w]) else None
            chk.fail("correspondence", "worker-crash",
                     f"C06 worker {w} stopped (rc={rc}) at case {culprit}: {err[-400:]}",
                     {"correspondence": "drive/c06.py", "input": c_public(cases[culprit]) if culprit is not None else None})
    done = [(i, cases[i], rows[i]) for i in range(len(cases)) if rows[i] is not None]
    timing["implementation_s"] = round(time.time() - t0, 1)

    # ---- property oracle on the implementation ----
    explained = set()
    for i, c, r in done:
        if "driver_error" in r:
            chk.fail("correspondence", "driver-error", r["driver_error"], {"correspondence": "drive/c06.py", "input": c_public(c)})
            explained.add(i)
            continue
        if c["k"] == "multi":
            oracle_multi(chk, c, r)
            explained.add(i)
        elif c["k"] == "pair":
            if oracle_pair(chk, c, r):
                explained.add(i)
        elif c["k"] == "compress":
            if oracle_compress(chk, c, r):
                explained.add(i)
        elif is_valid(c):
            if oracle_array(chk, c, r, expects[i]):
                explained.add(i)

    timing["oracle_s"] = round(time.time() - t0, 1)
    # ---- correspondence with the model ----
    ncorr = 0
    if model_ok:
        lits, idxs = [], []
        for i, c, r in done:
            if "driver_error" in r or c["k"] == "multi" or c.get("big"):
                continue
            try:
                if c["k"] == "pair":
                    if None in pair_answers(r)[1:]:
                        continue    # the oracle has reported it
                    lits.append(g_case_pair(c, r))
                elif c["k"] == "compress":
                    if "ok" not in r["compress"]:
                        continue
                    lits.append(g_case_compress(c, r))
                else:
                    lits.append(g_case_array(c, r))
                idxs.append(i)
            except Exception as e:  # noqa
                chk.fail("correspondence", "literal", f"cannot print case {i}: {type(e).__name__}: {e}",
                         {"correspondence": "C06.Run.check_case", "input": c_public(c)})
        bad = lib.coq_bad_indices("C06", REQ, "check_case", lits, chunk=250)
        ncorr = len(lits)
        for b in bad[:40]:
            i = idxs[b]
            if i in explained:
                continue
            chk.fail("correspondence", "model-vs-impl",
                     f"model and implementation disagree on a {cases[i]['k']} case ({cases[i].get('tag')})",
                     {"correspondence": "C06.Run.check_case", "input": c_public(cases[i]),
                      "observed": {k: rows[i].get(k) for k in ("build", "array", "sub", "anc", "carr", "compress")}})

    timing["correspondence_s"] = round(time.time() - t0, 1)
    # ---- coverage ----
    fam, tags, dts, sizes = {}, {}, {}, {}
    for i, c, r in done:
        key = c["k"] if c["k"] != "compress" else "compress-" + c["method"]
        if c["k"] == "multi":
            key = "multi:" + "+".join(m["method"] for m in c["members"])
        if c["k"] == "pair":
            key = "pair:" + c["mode"]
        fam[key] = fam.get(key, 0) + 1
        tags[c.get("tag")] = tags.get(c.get("tag"), 0) + 1
        dts[c["dtype"]] = dts.get(c["dtype"], 0) + 1
        sizes[str(len(c["shape"])) + "-d"] = sizes.get(str(len(c["shape"])) + "-d", 0) + 1
    distinct = {lib.canon({k: v for k, v in c.items() if k not in ("write", "assign")}) for i, c, r in done if nontrivial(c)}
    errs = {}
    for i, c, r in done:
        if c["k"] not in NOT_ARRAY:
            e = r.get("build", r.get("array", {})).get("err", "Ok")
            errs[e] = errs.get(e, 0) + 1
    feat = {
        "zero_counts": sum(1 for i, c, r in done if c["k"] in ("contig", "ic") and 0 in c["count"]),
        "absent_instances": sum(1 for i, c, r in done if absent_instances(c)),
        "unsorted_index": sum(1 for i, c, r in done if c["k"] in ("indexed", "ic") and c["index"] != sorted(c["index"])),
        "unsorted_list": sum(1 for i, c, r in done if c["k"] == "gathered" and c["list"] != sorted(c["list"])),
        "sparse_list": sum(1 for i, c, r in done if c["k"] == "gathered" and len(c["list"]) < prod(c["dims"])),
        "trailing_dims": sum(1 for i, c, r in done if c["k"] not in NOT_ARRAY and c["t"] > 1),
        "leading_dims": sum(1 for i, c, r in done if c["k"] == "gathered" and c["ldims"]),
        "masked_compressed_values": sum(1 for i, c, r in done if c["k"] not in NOT_ARRAY and any(
            v is None for cell in (c["cells"] if "cells" in c else [x for b in c["blocks"] for x in b]) for v in cell)),
        "subspaces": sum(1 for i, c, r in done if c.get("idx") is not None),
        "assignments": sum(1 for i, c, r in done if c.get("assign") is not None),
        "files_written": sum(1 for i, c, r in done if c.get("write")),
        "compress_empty_feature": sum(1 for i, c, r in done if c["k"] == "compress" and any(
            derive(x) == 0 for x in (c["rows"] if len(c["shape"]) == 2 else [y for f in c["rows"] for y in f]))),
        "compress_interior_missing": sum(1 for i, c, r in done if c["k"] == "compress" and any(
            None in x[:derive(x)] for x in (c["rows"] if len(c["shape"]) == 2 else [y for f in c["rows"] for y in f]))),
        "compress_with_aux": sum(1 for i, c, r in done if c["k"] == "compress" and c["auxr"] is not None),
        "compress_with_bounds": sum(1 for i, c, r in done if c["k"] == "compress" and c["bounds"]),
        "compress_value_beyond_aux_coordinate": sum(1 for i, c, r in done if c["k"] == "compress" and c["tag"] == "beyond-count"),
        "compress_then_assign_then_write": sum(1 for i, c, r in done if c["k"] == "compress" and c.get("post")),
        "compress_then_assign_to_construct": sum(1 for i, c, r in done if c["k"] == "compress" and c.get("post") and c["post"][0] != "data"),
        "zero_sample_files": sum(1 for i, c, r in done if c.get("write") and c["k"] == "compress"
                                 and all(v is None for v in flat_nested(c["rows"], len(c["shape"])))),
        "files_with_several_compressed_fields": sum(1 for i, c, r in done if c["k"] == "multi"),
        "files_with_coinciding_count_or_index_variables_that_must_not_be_shared": sum(
            1 for i, c, r in done if c["k"] == "multi" and harmful_sharing(c["members"])),
        "files_written_with_netCDF4_and_read_with_both_backends": sum(1 for i, c, r in done if c.get("rawfile")),
        "count_sum_beyond_range_of_count_type": sum(1 for i, c, r in done if c.get("wide")),
        "count_index_list_variable_types": {t: sum(1 for i, c, r in done if c.get("vdtype") == t) for t in VTYPES},
        "equals_pairs_compressed_vs_compressed": sum(1 for i, c, r in done if c["k"] == "pair"),
        "returned_arrays_overwritten_then_reread": sum(1 for i, c, r in done if "alias" in r),
    }
    samples = [c_public(done[k][1]) for k in (len(CORPUS), len(done) // 2, len(done) - 1) if k < len(done)]
    chk.coverage.update({
        "evaluations": len(done),
        "distinct_nontrivial": len(distinct),
        "rule": "a ragged contiguous case is non-trivial when it has samples and a zero or unequal counts; ragged indexed / "
                "indexed contiguous when it has at least two samples; gathered when the list is unsorted or sparse; "
                "a compress case when the field has both missing and present values; distinct = distinct canonical JSON of the input; "
                "count / index / list variables take every integer type that holds their values, except that they never hold "
                "the netCDF default fill value of their own type (read as missing by the netCDF conventions, property C07)",
        "samples": samples,
        "traces_validated_against_impl": ncorr,
        "disagreements_checked": ncorr,
        "families": fam, "input_classes": tags, "dtypes": dts, "ranks": sizes,
        "outcome_classes_array_cases": errs, "features_hit": feat,
        "exhaustive": False, "cumulative_wall": timing,
        "historical_refutations": "C06/Refuted.v: witnesses against the pinned code (F06a absent instance, F06b/c dropped "
                                  "zero counts, F06d clipped trailing dimension, F06e mask lost inside a feature)",
    })
    chk.assumptions += [
        "values are compared as exact integers, exact multiples of 0.25 (float32/float64) or words of a fixed list (strings); "
        "arrays as (shape, dtype, flat list of optional values)",
        "valid inputs: len(count) = number of features, sum(count) = sample dimension size, every count <= element dimension; "
        "index values in range(number of features), every instance's samples fit the element dimension; list values distinct and "
        "in range; malformed inputs are compared with the model only (outcome class and array), not judged by the property",
        "Field.compress (with handoff/C06-fix2-1): the count of a feature is the largest count derived from the field data and "
        "from every construct spanning the same axes; bounds of such constructs are assumed missing wherever the construct is "
        "(they are packed with the same counts but do not contribute to them); constructs spanning only the leading axes of an "
        "indexed contiguous field are assumed missing at the profiles that are not stored",
        "a file cannot record element dimensions larger than the largest count: file-level arrays are compared after removing "
        "trailing all-missing columns (and profiles), the remainder being required to be all missing",
        "files holding several compressed fields: one featureType per file (CF 9.4); the fields are two or three generated "
        "compress cases with their own netCDF names; equal count / index variables shared across fields are an open finding",
        "every array returned by the implementation (array, subspace, compressed_array, count/index/list variable, "
        "uncompress) is overwritten in place after it has been recorded and read again; returned arrays that are read-only "
        "cannot be overwritten and are not tested that way",
        "subspace indices are generated in range (slices, integers, integer lists); the full index semantics is property C03",
        "a count / index / list variable never holds the netCDF default fill value of its own type (255 in an unsigned byte "
        "variable, ...): by the netCDF conventions that is a value never written, and cfdm - like netCDF4-python - reads it as "
        "missing (property C07), so such a file does not describe a ragged array",
        "chunked decompression (subarrays(shapes=...)) is not exercised: this cfdm version always decompresses with shapes=-1",
    ]


def replay(chk, path):
    d = json.load(open(path))
    cases = []
    for x in d.get("cases", []):
        c = x.get("case") or x.get("input")
        if c and "k" in c:
            c = dict(c)
            if c["k"] not in NOT_ARRAY:
                c.setdefault("t", prod(c["shape"][{"contig": 2, "indexed": 2, "ic": 3}.get(c["k"], 0):]) if c["k"] != "gathered" else prod(c["tdims"]))
            cases.append(c)
    if not cases:
        print("no replayable case in", path)
        return 0
    expects = [expected_array(c) if c["k"] not in NOT_ARRAY and is_valid(c) else None for c in cases]
    rc, out, err = lib.run_worker("drive/c06.py", {"scratch": chk.scratch, "cases": [payload_case(c, e) for c, e in zip(cases, expects)]})
    bad = 0
    for c, e, r in zip(cases, expects, out):
        n0 = len(chk.failures)
        if c["k"] == "pair":
            oracle_pair(chk, c, r)
        elif c["k"] == "multi":
            oracle_multi(chk, c, r)
        elif c["k"] == "compress":
            oracle_compress(chk, c, r)
        elif is_valid(c):
            oracle_array(chk, c, r, e)
        fails = chk.failures[n0:]
        print(("FAIL " if fails else "ok   ") + json.dumps(c_public(c))[:300])
        for f in fails:
            print("     ", f.signature, "-", f.what[:200])
        bad += bool(fails)
    return 1 if bad else 0
