"""C18 - construct selection agrees with construct identities and keys (DESIGN.md section 4, C18).

Two phases per run: (1) workers build the generated fields and return every
construct's self-report; (2) queries are generated *from those reports* (every
construct, its identities, its axes, its names ...), run on the implementation,
judged by the Python oracle below (written from the documentation: a construct
is selected exactly when its own report says so) and compared with the Coq
model (C18.Run.check_case).
"""
import json
import os
import re

import lib
from lib import gz, gstr, gbool, gnat, gopt, glist

REQ = "From CfdmV Require Import Common.Base C18.Model C18.Run.\nOpen Scope string_scope."

TYPES = ["auxiliary_coordinate", "cell_connectivity", "cell_measure", "cell_method",
         "coordinate_reference", "dimension_coordinate", "domain_ancillary", "domain_axis",
         "domain_topology", "field_ancillary"]
ARRAY_TYPES = ["auxiliary_coordinate", "cell_connectivity", "cell_measure", "dimension_coordinate",
               "domain_ancillary", "domain_topology", "field_ancillary"]
WITH_PROPS = ARRAY_TYPES
WITH_NCVAR = ARRAY_TYPES + ["coordinate_reference"]
PLURALS = {
    "auxiliary_coordinates": ("auxiliary_coordinate", ["auxiliary_coordinate"]),
    "dimension_coordinates": ("dimension_coordinate", ["dimension_coordinate"]),
    "coordinates": ("coordinate", ["dimension_coordinate", "auxiliary_coordinate"]),
    "domain_ancillaries": ("domain_ancillary", ["domain_ancillary"]),
    "cell_measures": ("cell_measure", ["cell_measure"]),
    "coordinate_references": ("coordinate_reference", ["coordinate_reference"]),
    "domain_topologies": ("domain_topology", ["domain_topology"]),
    "cell_connectivities": ("cell_connectivity", ["cell_connectivity"]),
    "field_ancillaries": ("field_ancillary", ["field_ancillary"]),
}
SN = ["latitude", "longitude", "time", "air_temperature", "altitude", "grid_latitude", "height",
      "cell_area", "surface_altitude"]
LN = ["Grid latitude name", "x", "forecast time", "latitude"]
NCV = ["lat", "lon", "t", "x", "y", "areacella", "b", "crs", "lat_bnds", "bounds", "latitude"]
NCD = ["x", "y", "time", "lat", "bound"]
PNAMES = ["units", "foo", "comment", "positive", "axis", "cf_role"]
PVALS = ["m", "K", "bar", "degrees_north", "up", "X", "Y", "timeseries_id", "a=b", "1"]
COMP = {"cell_measure": ["area", "volume"], "cell_method": ["mean", "maximum", "sum", "point"],
        "domain_topology": ["face", "edge"], "cell_connectivity": ["edge", "node"]}
COMPF = {"cell_measure": "measure", "cell_method": "method", "domain_topology": "cell",
         "cell_connectivity": "conn"}


# =========================================================== field generators
def rand_props(rng, style=None):
    style = style or rng.choice(["sn", "sn", "sn+", "ln", "none", "none", "many", "axis"])
    p = {}
    if style in ("sn", "sn+", "many"):
        p["standard_name"] = rng.choice(SN)
    if style in ("ln", "sn+", "many"):
        p["long_name"] = rng.choice(LN)
    if style == "axis":
        p[rng.choice(["axis", "cf_role"])] = rng.choice(["X", "Y", "timeseries_id"])
    if style == "many":
        for _ in range(rng.choice([1, 2, 3])):
            p[rng.choice(PNAMES)] = rng.choice(PVALS)
    return p


def rand_bounds(rng):
    r = rng.random()
    if r < 0.45:
        return None
    b = {"props": {}, "ncvar": rng.choice(NCV) if rng.random() < 0.5 else None}
    if rng.random() < 0.55:
        b["props"]["standard_name"] = rng.choice(SN)      # the F18a shape
    if rng.random() < 0.3:
        b["props"][rng.choice(PNAMES)] = rng.choice(PVALS)
    return b


def synth_spec(rng):
    nax = rng.choice([1, 2, 2, 3, 3, 4])
    axes = [{"size": rng.choice([1, 2, 3, 3, 5]), "ncdim": rng.choice(NCD) if rng.random() < 0.6 else None}
            for _ in range(nax)]
    r = rng.random()
    if r < 0.15:
        data_axes = None
    else:
        k = rng.randint(1, nax)
        data_axes = rng.sample(range(nax), k)
    cons = []
    free_dim = list(range(nax))
    rng.shuffle(free_dim)
    n = rng.randint(3, 11)
    for _ in range(n):
        t = rng.choice(["dimension_coordinate", "dimension_coordinate", "auxiliary_coordinate",
                        "auxiliary_coordinate", "auxiliary_coordinate", "cell_measure", "cell_measure",
                        "domain_ancillary", "field_ancillary", "cell_method", "cell_method",
                        "coordinate_reference", "domain_topology", "cell_connectivity"])
        c = {"type": t, "props": {}, "ncvar": None}
        if t == "dimension_coordinate":
            if not free_dim:
                continue
            c["axes"] = [free_dim.pop()]
        elif t in ("domain_topology", "cell_connectivity"):
            c["axes"] = [rng.randrange(nax)]
        elif t in ARRAY_TYPES:
            k = rng.choice([0, 1, 1, 1, 2, 2]) if t != "field_ancillary" else rng.choice([1, 1, 2])
            k = min(k, nax)
            c["axes"] = rng.sample(range(nax), k)
        if t in ARRAY_TYPES:
            c["props"] = rand_props(rng)
            c["ncvar"] = rng.choice(NCV) if rng.random() < 0.5 else None
            if t in ("dimension_coordinate", "auxiliary_coordinate", "domain_ancillary"):
                c["bounds"] = rand_bounds(rng)
                if c["bounds"] is not None and rng.random() < 0.5:
                    c["props"].pop("standard_name", None)
        if t in COMP:
            c["comp"] = rng.choice(COMP[t]) if rng.random() < 0.85 else None
        if t == "cell_method":
            k = rng.choice([1, 1, 1, 2])
            c["maxes"] = [rng.randrange(nax) if rng.random() < 0.8 else rng.choice(["area", "time"])
                          for _ in range(k)]
        if t == "coordinate_reference":
            c["cc"] = {}
            if rng.random() < 0.7:
                c["cc"]["grid_mapping_name"] = rng.choice(["rotated_latitude_longitude", "latitude_longitude"])
            if rng.random() < 0.4:
                c["cc"]["standard_name"] = rng.choice(["atmosphere_hybrid_height_coordinate", "latitude"])
            c["ncvar"] = rng.choice(NCV) if rng.random() < 0.5 else None
            c["coords"] = [rng.randrange(8) for _ in range(rng.choice([0, 1, 2]))]
        cons.append(c)
    return {"base": None, "axes": axes, "data_axes": data_axes, "constructs": cons,
            "props": {"standard_name": "air_temperature"}, "domain": rng.random() < 0.08, "fam": "synthetic"}


def shared_spec(rng):
    """Two or three 1-d coordinates of ONE axis sharing an identity (dim + aux, aux + aux), by
    standard_name / long_name / ncvar, or only through a regular expression; sometimes the same
    identity also on a coordinate of ANOTHER axis (then it names no axis); a size-1 axis outside
    the data named the same way; cell methods over those axes."""
    nax = rng.choice([2, 3, 3])
    axes = [{"size": rng.choice([2, 3, 5]), "ncdim": rng.choice(NCD) if rng.random() < 0.5 else None}
            for _ in range(nax)]
    axes.append({"size": 1, "ncdim": rng.choice(NCD) if rng.random() < 0.3 else None})   # not spanned by the data
    data_axes = rng.sample(range(nax), nax)
    cons = []

    def coord(t, ax, props, ncvar=None, bounds=None):
        cons.append({"type": t, "axes": [ax], "props": dict(props), "ncvar": ncvar, "bounds": bounds})

    def share(ax, other):
        how = rng.choice(["sn", "sn", "ln", "ncvar", "regex", "bounds"])
        pair = rng.choice(["dim+aux", "dim+aux", "aux+aux", "dim+aux+aux"])
        types = {"dim+aux": ["dimension_coordinate", "auxiliary_coordinate"],
                 "aux+aux": ["auxiliary_coordinate", "auxiliary_coordinate"],
                 "dim+aux+aux": ["dimension_coordinate", "auxiliary_coordinate", "auxiliary_coordinate"]}[pair]
        name = rng.choice(["latitude", "longitude", "time", "height"])
        for j, t in enumerate(types):
            if how == "sn":
                coord(t, ax, {"standard_name": name})
            elif how == "ln":
                coord(t, ax, {"long_name": name} if j else {"long_name": name, "units": "m"})
            elif how == "ncvar":
                coord(t, ax, {"units": "m"} if j else {}, ncvar=name)
            elif how == "regex":
                coord(t, ax, [{"standard_name": "grid_" + name}, {"long_name": "Grid " + name + " name"},
                              {"standard_name": name}][j % 3])
            else:
                coord(t, ax, {"long_name": "c%d" % j},
                      bounds={"props": {"standard_name": name}, "ncvar": None})
        if other is not None:
            # the same identity on a coordinate of another axis: no axis is named by it
            if how in ("sn", "regex", "bounds"):
                coord("auxiliary_coordinate", other, {"standard_name": name})
            elif how == "ln":
                coord("auxiliary_coordinate", other, {"long_name": name})
            else:
                coord("auxiliary_coordinate", other, {}, ncvar=name)

    share(0, 1 if rng.random() < 0.3 else None)
    if rng.random() < 0.6:
        share(nax, None)                     # the size-1 axis
    if rng.random() < 0.5:
        coord("dimension_coordinate", 1, {"standard_name": rng.choice(["altitude", "air_pressure"])})
    cons.append({"type": "auxiliary_coordinate", "axes": [1, 0] if nax > 1 else [0],
                 "props": rand_props(rng), "ncvar": None, "bounds": None})
    cons.append({"type": "cell_measure", "axes": [0], "props": {}, "ncvar": None, "comp": "area"})
    cons.append({"type": "cell_method", "props": {}, "ncvar": None, "comp": "mean", "maxes": [0]})
    cons.append({"type": "cell_method", "props": {}, "ncvar": None, "comp": "maximum", "maxes": [1, 0]})
    return {"base": None, "axes": axes, "data_axes": data_axes, "constructs": cons,
            "props": {"standard_name": "air_temperature"}, "domain": rng.random() < 0.1, "fam": "shared-identity"}


def example_spec(rng):
    muts = []
    for _ in range(rng.choice([0, 1, 2, 3, 4])):
        op = rng.choice(["set_prop", "set_prop", "del_prop", "bounds_prop", "bounds_prop", "ncvar",
                         "del_ncvar", "ncdim", "measure", "method"])
        m = {"op": op, "pick": rng.randrange(50)}
        if op in ("set_prop", "bounds_prop"):
            m["types"] = ["dimension_coordinate", "auxiliary_coordinate", "domain_ancillary"] if op == "bounds_prop" \
                else rng.choice([["dimension_coordinate"], ["auxiliary_coordinate"], ["cell_measure"],
                                 ARRAY_TYPES])
            m["name"] = rng.choice(["standard_name", "standard_name", "long_name", "foo", "axis"])
            m["value"] = rng.choice(SN if m["name"] == "standard_name" else PVALS + LN)
        elif op == "del_prop":
            m["types"] = ARRAY_TYPES
            m["name"] = rng.choice(["standard_name", "standard_name", "long_name", "units"])
        elif op in ("ncvar", "del_ncvar"):
            m["types"] = WITH_NCVAR
            m["value"] = rng.choice(NCV)
        elif op == "ncdim":
            m["types"] = ["domain_axis"]
            m["value"] = rng.choice(NCD)
        elif op == "measure":
            m["types"] = ["cell_measure"]
            m["value"] = rng.choice(COMP["cell_measure"])
        elif op == "method":
            m["types"] = ["cell_method"]
            m["value"] = rng.choice(COMP["cell_method"])
        muts.append(m)
    return {"base": rng.randrange(8), "mutations": muts, "domain": rng.random() < 0.08, "fam": "example"}


# fields that once showed a defect (minimised), always run first
CORPUS_SPECS = [
    # F18a: identity only on the bounds / after a measure
    {"base": None, "axes": [{"size": 3, "ncdim": "lat"}, {"size": 2, "ncdim": None}], "data_axes": [0, 1],
     "props": {}, "fam": "corpus-F18a", "constructs": [
        {"type": "dimension_coordinate", "axes": [0], "props": {"long_name": "x"}, "ncvar": "lat",
         "bounds": {"props": {"standard_name": "latitude"}, "ncvar": "lat_bnds"}},
        {"type": "cell_measure", "axes": [0, 1], "props": {"standard_name": "cell_area"}, "ncvar": None, "comp": "area"},
        {"type": "cell_method", "maxes": [0], "comp": "mean"}]},
    # F18e/F18b/F18f: an axis known only by its netCDF dimension name, one cell method
    {"base": None, "axes": [{"size": 3, "ncdim": "tt"}, {"size": 2, "ncdim": None}], "data_axes": [1, 0],
     "props": {}, "fam": "corpus-F18bef", "constructs": [
        {"type": "dimension_coordinate", "axes": [0], "props": {"standard_name": "time"}, "ncvar": None, "bounds": None},
        {"type": "auxiliary_coordinate", "axes": [0], "props": {"long_name": "x"}, "ncvar": None, "bounds": None},
        {"type": "auxiliary_coordinate", "axes": [1, 0], "props": {"standard_name": "latitude"}, "ncvar": None, "bounds": None},
        {"type": "cell_method", "maxes": [0], "comp": "mean"}]},
]


# literal queries on the second corpus field: one per repaired defect
CORPUS_QUERIES_1 = [
    # F18e: method chain vs filter(...) when the axis is named by a domain axis identity
    {"kind": "chain", "form": "methods", "fs": [["type", ["dimension_coordinate"]], ["axis", [["s", "ncdim%tt"]]]],
     "todict": False, "am": "and", "pm": ["and"], "fam": "corpus-F18e"},
    # F18b: inverse_filter(1) after filter(naxes, type)
    {"kind": "ops", "fam": "corpus-F18b", "ops": [
        ["filter", {"kind": "chain", "form": "filter", "fs": [["naxes", [["i", 1]]], ["type", ["auxiliary_coordinate"]]],
                    "todict": False, "am": "and", "pm": ["and"]}], ["inverse", 1]]},
    # F18c: inverse_filter(1) with no filter applied
    {"kind": "ops", "fam": "corpus-F18c", "ops": [["inverse", 1]]},
    # F18f: cell_methods with an identity that matches nothing
    {"kind": "plural", "method": "cell_methods", "ids": [["s", "nothing"]], "fs": [], "todict": False, "fam": "corpus-F18f"},
    {"kind": "accessor", "method": "cell_method", "ids": [["s", "nothing"]], "fs": [], "how": "key", "default": "none",
     "fam": "corpus-F18f"},
    # F18h: inverse_filter(2) after filter, inverse_filter(), filter
    {"kind": "ops", "fam": "corpus-F18h", "ops": [
        ["filter", {"kind": "chain", "form": "methods", "fs": [["type", ["domain_axis"]]], "todict": False, "am": "and", "pm": ["and"]}],
        ["inverse", None],
        ["filter", {"kind": "chain", "form": "methods", "fs": [["naxes", [["i", 1]]]], "todict": False, "am": "and", "pm": ["and"]}],
        ["inverse", 2]]},
    # F18d: domain_axes(filter_by_identity=..., filter_by_size=...)
    {"kind": "plural", "method": "domain_axes", "ids": [["s", "ncdim%tt"]], "fs": [["size", [["i", 3]]]], "ids_kw": "first",
     "todict": False, "fam": "domain_axes-kw", "oracle_only": True},
]


# ================================================================== values
def vs(s):
    return ["s", s]


def vre(a, e, lit):
    return ["re", bool(a), bool(e), lit]


def vi(n):
    return ["i", int(n)]


VO = ["o"]


def py_match(v, s):
    """value0 matches the string s (documentation: == or re.search)."""
    if v[0] == "s":
        return v[1] == s
    if v[0] == "re":
        return re.compile(("^" if v[1] else "") + re.escape(v[3]) + ("$" if v[2] else "")).search(s) is not None
    return False


def py_match_int(v, n):
    return v[0] == "i" and v[1] == n


def ok_text(s):
    return isinstance(s, str) and all(32 <= ord(ch) < 127 for ch in s)


# ================================================================== oracle
class Rep:
    """What the constructs of one field say about themselves."""

    def __init__(self, report, fda):
        self.cs = report
        self.by = {c["key"]: c for c in report}
        self.fda = fda
        self.keys = [c["key"] for c in report]

    def of_type(self, *ts):
        return [c for c in self.cs if c["type"] in ts]


def sel_identity(R, ids, c):
    if not ids:
        return True
    for v in ids:
        if v[0] == "s" and (v[1] == c["key"] or v[1] == "key%" + c["key"]):
            return True
    return any(py_match(v, i) for i in c["identities"] for v in ids)


def axis_of_value(R, v):
    """Documented meaning of one filter_by_axis value -> a domain axis key or None."""
    das = [c["key"] for c in R.of_type("domain_axis")]
    if v[0] == "s" and v[1] in das:
        return v[1]
    if v[0] == "i":
        if R.fda:
            n = len(R.fda)
            i = v[1] + n if v[1] < 0 else v[1]
            return R.fda[i] if 0 <= i < n else None
        return None
    if v[0] == "o":
        return None
    coords = [c for c in R.of_type("dimension_coordinate", "auxiliary_coordinate")
              if c["axes"] is not None and len(c["axes"]) == 1 and sel_identity(R, [v], c)]
    if coords:
        axs = {c["axes"][0] for c in coords}
        return axs.pop() if len(axs) == 1 else None
    d = [c for c in R.of_type("domain_axis") if sel_identity(R, [v], c)]
    return d[0]["key"] if len(d) == 1 else None


def pred(R, f, am, pm):
    """-> ('err', cls) or a predicate on construct reports."""
    k = f[0]
    if k == "unknown":
        return ("err", "TypeErr")
    if k == "type":
        return lambda c: (not f[1]) or c["type"] in f[1]
    if k == "data":
        return lambda c: c["type"] in ARRAY_TYPES
    if k == "naxes":
        if not f[1]:
            return lambda c: c["type"] in ARRAY_TYPES
        return lambda c: c["axes"] is not None and any(py_match_int(v, len(c["axes"])) for v in f[1])
    if k == "ncvar":
        return lambda c: c["type"] in WITH_NCVAR and (
            not f[1] or (c["ncvar"] is not None and any(py_match(v, c["ncvar"]) for v in f[1])))
    if k == "ncdim":
        return lambda c: c["type"] == "domain_axis" and (
            not f[1] or (c["ncdim"] is not None and any(py_match(v, c["ncdim"]) for v in f[1])))
    if k in ("measure", "method", "cell", "conn"):
        t = {"measure": "cell_measure", "method": "cell_method", "cell": "domain_topology",
             "conn": "cell_connectivity"}[k]
        return lambda c: c["type"] == t and (
            not f[1] or (c["comp"] is not None and any(py_match(v, c["comp"]) for v in f[1])))
    if k == "size":
        return lambda c: c["type"] == "domain_axis" and (
            not f[1] or (c["size"] is not None and any(py_match_int(v, c["size"]) for v in f[1])))
    if k == "key":
        return lambda c: (not f[1]) or any(py_match(v, c["key"]) for v in f[1])
    if k == "identity":
        return lambda c: sel_identity(R, f[1], c)
    if k == "property":
        if len(pm) > 1 or (len(pm) == 1 and pm[0] not in ("and", "or")):
            return ("err", "ValueErr")
        use_or = pm == ["or"]
        if not f[1]:
            return lambda c: c["type"] in WITH_PROPS

        def one(c, name, q):
            if name not in c["props"]:
                return False
            return True if q[0] == "any" else py_match(q, c["props"][name])

        def p(c):
            if c["type"] not in WITH_PROPS:
                return False
            rs = [one(c, n, q) for n, q in f[1]]
            return any(rs) if use_or else all(rs)
        return p
    if k == "axis":
        if not f[1]:
            return lambda c: c["type"] in ARRAY_TYPES
        if am not in ("and", "or", "exact", "subset", None):
            return ("err", "ValueErr")
        axes = {a for a in (axis_of_value(R, v) for v in f[1]) if a is not None}
        if not axes:
            return lambda c: False

        def p(c):
            if c["axes"] is None:
                return False
            x = set(c["axes"])
            if am == "exact":
                return x == axes
            if am == "subset":
                return x <= axes
            if am == "or":
                return bool(x & axes)
            return axes <= x
        return p
    raise ValueError(k)


def expect_chain(R, fs, am, pm, within=None):
    """Expected keys (sorted) or ('err', cls): the intersection of the filters."""
    cur = list(R.cs) if within is None else [R.by[k] for k in within]
    for f in fs:
        p = pred(R, f, am, pm)
        if isinstance(p, tuple):
            return p
        cur = [c for c in cur if p(c)]
    return sorted(c["key"] for c in cur)


def expect_domain_axes(R, ids):
    das = R.of_type("domain_axis")
    if not ids:
        return sorted(c["key"] for c in das)
    out = set()
    for v in ids:
        hit = [c["key"] for c in das if sel_identity(R, [v], c)]
        if hit:
            out.update(hit)
            continue
        # documented additions: 1-d coordinates spanning one axis; position in the field data
        if v[0] == "i":
            a = axis_of_value(R, v)
        elif v[0] in ("s", "re"):
            coords = [c for c in R.of_type("dimension_coordinate", "auxiliary_coordinate")
                      if c["axes"] is not None and len(c["axes"]) == 1 and sel_identity(R, [v], c)]
            axs = {c["axes"][0] for c in coords}
            a = axs.pop() if len(axs) == 1 else None
        else:
            a = None
        if a is not None:
            out.add(a)
    return sorted(out)


def expect_cell_methods(R, ids):
    cms = R.of_type("cell_method")
    if not ids:
        return sorted(c["key"] for c in cms)
    out = set()
    misses = []
    for v in ids:
        hit = [c["key"] for c in cms if sel_identity(R, [v], c)]
        if hit:
            out.update(hit)
        else:
            misses.append(v)
    if misses:
        das = set(expect_domain_axes(R, misses))
        for c in cms:
            if len(c["maxes"]) == 1 and c["maxes"][0] in das:
                out.add(c["key"])
    return sorted(out)


def first_hit_ambiguity(R, ids, pool):
    """domain_axes/cell_methods decide 'miss' per given value, but a value that
    only ever matches identities already claimed by an earlier value is also
    treated as a miss by the code (hits are recorded per identity).  The
    documentation does not say which; such inputs are not generated."""
    for c in pool:
        for i in c["identities"]:
            if sum(1 for v in ids if py_match(v, i)) > 1:
                return True
    return len({json.dumps(v) for v in ids}) != len(ids)


def key_clash(R, ids):
    """A given string is both a construct key (or key%key) and an identity."""
    allid = {i for c in R.cs for i in c["identities"]}
    for v in ids:
        if v[0] == "s" and (v[1] in R.by or (v[1].startswith("key%") and v[1][4:] in R.by)) and v[1] in allid:
            return True
    return False


# ========================================================= query generation
def sample_vals_str(rng, pool, extra=()):
    """1-3 values drawn from the pool of strings present in the field (+ noise)."""
    out = []
    for _ in range(rng.choice([1, 1, 1, 2, 2, 3])):
        r = rng.random()
        s = rng.choice(pool) if pool and r < 0.8 else rng.choice(list(extra) or ["nothing"])
        r2 = rng.random()
        if r2 < 0.62:
            out.append(vs(s))
        elif r2 < 0.72:
            out.append(vre(1, 1, s))
        elif r2 < 0.82:
            out.append(vre(1, 0, s[:max(1, len(s) // 2)]))
        elif r2 < 0.88:
            out.append(vre(0, 1, s[len(s) // 2:]))
        elif r2 < 0.94:
            out.append(vre(0, 0, s[1:-1] if len(s) > 2 else s))
        elif r2 < 0.97:
            out.append(VO)
        else:
            out.append(vi(rng.choice([0, 1, 7])))
    return out


def rand_filter(rng, R, allow_unknown=False):
    cs = R.cs
    r = rng.random()
    idpool = [i for c in cs for i in c["identities"]]
    if r < 0.2:
        ids = sample_vals_str(rng, idpool, SN + ["ncvar%nothing", "long_name=nothing"])
        if rng.random() < 0.2 and R.keys:
            k = rng.choice(R.keys)
            ids.append(vs(k if rng.random() < 0.5 else "key%" + k))
        return ["identity", ids]
    if r < 0.3:
        present = sorted({c["type"] for c in cs})
        k = rng.choice([0, 1, 1, 2, 3])
        ts = [rng.choice(present + TYPES + ["nonsense"]) for _ in range(k)]
        return ["type", ts]
    if r < 0.34:
        return ["data"]
    if r < 0.42:
        return ["naxes", [rng.choice([vi(0), vi(1), vi(1), vi(2), vi(3), vs("1"), VO]) for _ in range(rng.choice([0, 1, 1, 2]))]]
    if r < 0.49:
        pool = [c["ncvar"] for c in cs if c["ncvar"]]
        return ["ncvar", sample_vals_str(rng, pool, NCV) if rng.random() < 0.85 else []]
    if r < 0.54:
        pool = [c["ncdim"] for c in cs if c["ncdim"]]
        return ["ncdim", sample_vals_str(rng, pool, NCD) if rng.random() < 0.85 else []]
    if r < 0.62:
        k = rng.choice(["measure", "method", "method", "cell", "conn"])
        t = {"measure": "cell_measure", "method": "cell_method", "cell": "domain_topology", "conn": "cell_connectivity"}[k]
        pool = [c["comp"] for c in cs if c["type"] == t and c["comp"]]
        return [k, sample_vals_str(rng, pool, COMP[t]) if rng.random() < 0.8 else []]
    if r < 0.68:
        pool = [c["size"] for c in cs if c["size"] is not None]
        n = rng.choice([0, 1, 1, 2])
        return ["size", [vi(rng.choice(pool + [4, 99])) if rng.random() < 0.9 else vs("3") for _ in range(n)]]
    if r < 0.75:
        if rng.random() < 0.15:
            return ["key", []]
        out = []
        for _ in range(rng.choice([1, 1, 2, 3])):
            k = rng.choice(R.keys + ["domainaxis9"])
            r2 = rng.random()
            out.append(vs(k) if r2 < 0.6 else vre(1, 0, k[:-1]) if r2 < 0.85 else vre(0, 0, k[3:9]) if r2 < 0.95 else VO)
        return ["key", out]
    if r < 0.85:
        names = sorted({n for c in cs for n in c["props"] if n not in c.get("nonstr", [])})
        ps = []
        used = set()
        for _ in range(rng.choice([0, 1, 1, 2, 2, 3])):
            n = rng.choice(names + ["foo", "standard_name"]) if names else rng.choice(["foo", "standard_name"])
            if n in used:
                continue
            used.add(n)
            vals = [c["props"][n] for c in cs if n in c["props"] and n not in c.get("nonstr", [])]
            r2 = rng.random()
            if r2 < 0.2:
                q = ["any"]
            else:
                s = rng.choice(vals) if vals and rng.random() < 0.8 else rng.choice(PVALS + SN)
                q = vs(s) if r2 < 0.75 else vre(1, 0, s[:max(1, len(s) // 2)]) if r2 < 0.9 else vre(0, 0, s[1:])
            ps.append([n, q])
        return ["property", ps]
    if r < 0.99 or not allow_unknown:
        return ["axis", rand_axis_values(rng, R)]
    return ["unknown"]


def rand_axis_values(rng, R):
    das = [c["key"] for c in R.of_type("domain_axis")]
    coord_ids = [i for c in R.of_type("dimension_coordinate", "auxiliary_coordinate") for i in c["identities"]]
    da_ids = [i for c in R.of_type("domain_axis") for i in c["identities"]]
    out = []
    for _ in range(rng.choice([0, 1, 1, 1, 2, 2, 3])):
        r = rng.random()
        if r < 0.35 and das:
            out.append(vs(rng.choice(das)))
        elif r < 0.55 and coord_ids:
            s = rng.choice(coord_ids)
            out.append(vs(s) if rng.random() < 0.8 else vre(1, 1, s))
        elif r < 0.7 and da_ids:
            out.append(vs(rng.choice(da_ids)))
        elif r < 0.88:
            out.append(vi(rng.choice([0, 1, 2, -1, -2, 5, -7])))
        elif r < 0.95:
            out.append(vs(rng.choice(SN + ["domainaxis9", "ncdim%nothing"])))
        else:
            out.append(VO)
    return out


AMODES = ["and", "and", "or", "exact", "subset", None]


def mk_chain(rng, R, n, form=None, malformed=False):
    fs = []
    names = set()
    for _ in range(n):
        f = rand_filter(rng, R, allow_unknown=malformed)
        if f[0] in names:
            continue
        names.add(f[0])
        fs.append(f)
    form = form or rng.choice(["filter", "filter", "methods", "methods", "call"])
    if form == "methods":
        fs = [f for f in fs if f[0] != "unknown"] or [["data"]]
    if form == "call":
        ids = [f for f in fs if f[0] == "identity"]
        fs = [f for f in fs if f[0] != "identity"] + ids
    q = {"kind": "chain", "form": form, "fs": fs, "todict": rng.random() < 0.35}
    am = rng.choice(AMODES) if not malformed else rng.choice(AMODES + ["bad", "xor"])
    if form != "call":
        q["am"] = am
    pm = [rng.choice(["and", "and", "or"])]
    if malformed:
        pm = rng.choice([["and"], ["or"], ["xor"], [], ["and", "or"]])
    if form == "filter":
        if len(pm) != 1:
            pm = ["xor"]
        if rng.random() < 0.7 or malformed:
            q["pm"] = pm
    elif form == "methods":
        q["pm"] = pm
    if form == "methods" and q["todict"] and fs and fs[-1][0] == "property":
        q["todict"] = False
    return q


def chain_modes(q):
    """(axis_mode, property_mode tuple) as the implementation will see them."""
    am = q.get("am", "and")
    if q["form"] == "methods":
        pm = q.get("pm", [])
    else:
        pm = q.get("pm", ["and"])
    return am, pm


def queries_for(rng, R, tier, is_domain):
    qs = []
    cs = R.cs
    per = 2 if tier == "quick" else 4

    # A. every construct, its identities -> found by that identity
    for c in cs:
        ids = c["identities"]
        if not ids:
            continue
        pick = {0, len(ids) - 1}
        plain = [j for j, s in enumerate(ids) if not any(ch in s for ch in "=:%")]
        pick.update(plain)
        while len(pick) < min(len(ids), per + 1):
            pick.add(rng.randrange(len(ids)))
        for j in sorted(pick):
            s = ids[j]
            if not ok_text(s):
                continue
            form = rng.choice(["filter", "methods", "call"])
            v = vs(s) if rng.random() < 0.75 else rng.choice([vre(1, 1, s), vre(1, 0, s[:max(1, len(s) - 1)])])
            qs.append({"kind": "chain", "form": form, "fs": [["identity", [v]]], "todict": rng.random() < 0.3,
                       "fam": "own-identity"})
            t = c["type"]
            sing = {"auxiliary_coordinate": "auxiliary_coordinate", "dimension_coordinate": "dimension_coordinate",
                    "domain_ancillary": "domain_ancillary", "cell_measure": "cell_measure",
                    "coordinate_reference": "coordinate_reference", "domain_topology": "domain_topology",
                    "cell_connectivity": "cell_connectivity", "field_ancillary": "field_ancillary"}.get(t)
            if sing and not (is_domain and t == "field_ancillary") and rng.random() < 0.6:
                qs.append({"kind": "accessor", "method": sing, "ids": [v], "ts": [t],
                           "how": rng.choice(["construct", "key", "item"]),
                           "default": rng.choice(["raise", "none", "value"]), "fam": "typed-accessor"})
            if rng.random() < 0.35:
                qs.append({"kind": "accessor", "method": rng.choice(["construct", "construct_key", "construct_item", "has_construct"]),
                           "ids": [v], "ts": [], "default": rng.choice(["raise", "none", "value"]),
                           "exc": rng.random() < 0.3, "fam": "generic-accessor"})
        # key and key% forms
        if rng.random() < 0.3:
            k = c["key"] if rng.random() < 0.5 else "key%" + c["key"]
            qs.append({"kind": "chain", "form": rng.choice(["filter", "methods", "call"]),
                       "fs": [["identity", [vs(k)]]], "todict": False, "fam": "own-key"})

    # B. single filters of every kind, C. chains of two and three
    nsingle, nchain = (22, 14) if tier == "quick" else (45, 40)
    for _ in range(nsingle):
        q = mk_chain(rng, R, 1)
        q["fam"] = "single"
        qs.append(q)
    for _ in range(nchain):
        q = mk_chain(rng, R, rng.choice([2, 2, 3]))
        q["fam"] = "chain"
        qs.append(q)
    for _ in range(3 if tier == "quick" else 8):
        q = mk_chain(rng, R, rng.choice([1, 2, 3]), malformed=True)
        q["fam"] = "malformed"
        qs.append(q)

    # D. histories with inverse_filter / unfilter
    for _ in range(10 if tier == "quick" else 30):
        ops = []
        nf = rng.choice([0, 1, 1, 2, 2, 3])
        for _ in range(nf):
            ch = mk_chain(rng, R, rng.choice([1, 1, 2]), form=rng.choice(["filter", "methods"]))
            ch["todict"] = False
            ops.append(["filter", ch])
        tail = rng.choice(["inv", "inv", "inv", "unf", "inv-inv", "inv-f", "mix"])
        d = lambda: rng.choice([None, None, 0, 1, 1, 2, 3, 5])  # noqa: E731
        if tail == "inv":
            ops.append(["inverse", d()])
        elif tail == "unf":
            ops.append(["unfilter", d()])
        elif tail == "inv-inv":
            ops += [["inverse", d()], ["inverse", d()]]
        elif tail == "inv-f":
            ch = mk_chain(rng, R, 1, form="methods")
            ch["todict"] = False
            ops += [["inverse", d()], ["filter", ch], ["inverse", d()]]
        else:
            for _ in range(rng.choice([2, 3, 4])):
                ops.append([rng.choice(["inverse", "unfilter"]), d()])
        qs.append({"kind": "ops", "ops": ops, "fam": "history:" + tail})

    # E. typed collections with identities and further filters
    plurals = [p for p in PLURALS if not (is_domain and p == "field_ancillaries")]
    for _ in range(8 if tier == "quick" else 20):
        p = rng.choice(plurals)
        sing, ts = PLURALS[p]
        pool = [i for c in cs if c["type"] in ts for i in c["identities"]]
        ids = sample_vals_str(rng, pool, SN) if rng.random() < 0.7 else []
        fs = []
        if rng.random() < 0.5:
            f = rand_filter(rng, R)
            if f[0] not in ("identity", "type"):
                fs.append(f)
        if rng.random() < 0.5:
            qs.append({"kind": "plural", "method": p, "ids": ids, "fs": fs, "ts": ts, "todict": rng.random() < 0.5,
                       "fam": "typed-collection"})
        else:
            qs.append({"kind": "accessor", "method": sing, "ids": ids, "fs": fs, "ts": ts,
                       "how": rng.choice(["construct", "key", "item"]),
                       "default": rng.choice(["raise", "none", "value"]), "fam": "typed-accessor"})

    # F. domain axes, cell methods, domain_axis_key
    da_ids = [i for c in R.of_type("domain_axis") for i in c["identities"]] + [c["key"] for c in R.of_type("domain_axis")]
    coord_ids = [i for c in R.of_type("dimension_coordinate", "auxiliary_coordinate") for i in c["identities"]]
    for _ in range(8 if tier == "quick" else 20):
        ids = []
        for _ in range(rng.choice([0, 1, 1, 1, 2, 2])):
            r = rng.random()
            if r < 0.35 and da_ids:
                ids.append(vs(rng.choice(da_ids)))
            elif r < 0.7 and coord_ids:
                s = rng.choice(coord_ids)
                ids.append(vs(s) if rng.random() < 0.8 else vre(1, 1, s))
            elif r < 0.85:
                ids.append(vi(rng.choice([0, 1, -1, 2, 6])))
            else:
                ids.append(vs(rng.choice(SN + ["nothing"])))
        if rng.random() < 0.6:
            qs.append({"kind": "plural", "method": "domain_axes", "ids": ids, "fs": [], "todict": rng.random() < 0.5,
                       "fam": "domain_axes"})
        else:
            qs.append({"kind": "accessor", "method": "domain_axis", "ids": ids, "fs": [],
                       "how": rng.choice(["construct", "key", "item"]),
                       "default": rng.choice(["raise", "none", "value"]), "fam": "domain_axis"})
    if not is_domain:
        cm_ids = [i for c in R.of_type("cell_method") for i in c["identities"]]
        for _ in range(6 if tier == "quick" else 16):
            ids = []
            for _ in range(rng.choice([0, 1, 1, 1, 2])):
                r = rng.random()
                if r < 0.4 and cm_ids:
                    ids.append(vs(rng.choice(cm_ids)))
                elif r < 0.6 and da_ids:
                    ids.append(vs(rng.choice(da_ids)))
                elif r < 0.8 and coord_ids:
                    ids.append(vs(rng.choice(coord_ids)))
                else:
                    ids.append(vs(rng.choice(["method:nothing", "nothing", "time"])))
            if rng.random() < 0.6:
                qs.append({"kind": "plural", "method": "cell_methods", "ids": ids, "fs": [], "todict": rng.random() < 0.5,
                           "fam": "cell_methods"})
            else:
                qs.append({"kind": "accessor", "method": "cell_method", "ids": ids, "fs": [],
                           "how": rng.choice(["construct", "key", "item"]),
                           "default": rng.choice(["raise", "none", "value"]), "fam": "cell_method"})
    for _ in range(4 if tier == "quick" else 10):
        ids = [vs(rng.choice(coord_ids))] if coord_ids and rng.random() < 0.8 else [vs("nothing")]
        if rng.random() < 0.2:
            ids = []
        qs.append({"kind": "accessor", "method": "domain_axis_key", "ids": ids, "fs": [],
                   "default": rng.choice(["raise", "none", "value"]), "fam": "domain_axis_key"})

    # G. domain_axes with the identities given by keyword, before / after another filter
    #    (oracle only; the model covers domain_axes without further keywords)
    sizes = [c["size"] for c in R.of_type("domain_axis") if c["size"] is not None]
    dai = [i for c in R.of_type("domain_axis") for i in c["identities"]]
    if sizes and dai:
        for pos in ("first", "last"):
            qs.append({"kind": "plural", "method": "domain_axes", "ids": [vs(rng.choice(dai))],
                       "fs": [["size", [vi(rng.choice(sizes))]]], "ids_kw": pos, "todict": False,
                       "fam": "domain_axes-kw", "oracle_only": True})
    # F18g shape: a coordinate identity converted to an axis, with a size filter that excludes it
    c1 = [c for c in R.of_type("dimension_coordinate") if c["axes"] and len(c["axes"]) == 1 and c["identities"]]
    if c1 and rng.random() < 0.5:
        c = rng.choice(c1)
        a = c["axes"][0]
        sz = R.by[a]["size"] if a in R.by else 99
        for n in (99, sz):
            qs.append({"kind": rng.choice(["plural", "plural", "accessor"]), "method": "domain_axes",
                       "ids": [vs(c["identities"][0])], "fs": [["size", [vi(n)]]], "todict": False,
                       "how": "key", "default": "none", "fam": "domain_axes-converted+filter"})
            if qs[-1]["kind"] == "accessor":
                qs[-1]["method"] = "domain_axis"
        if not is_domain and R.of_type("cell_method"):
            meths = [m["comp"] for m in R.of_type("cell_method") if m["comp"]] + ["nothing"]
            qs.append({"kind": "plural", "method": "cell_methods", "ids": [vs(c["identities"][0])],
                       "fs": [["method", [vs(rng.choice(meths))]]], "todict": rng.random() < 0.5,
                       "fam": "cell_methods-converted+filter"})
    qs += shared_identity_queries(rng, R, tier, is_domain)
    return qs


REGEX_STEMS = ["atitude", "ongitude", "ime", "eight", "lat", "name"]


def shared_identity_queries(rng, R, tier, is_domain):
    """An axis named by an identity (or a regular expression) that matches SEVERAL 1-d coordinates:
    the axis they all span, or no axis when they span different ones.  Through filter_by_axis in
    every axis_mode and both return forms, inverse_filter, domain_axes / domain_axis /
    domain_axis_key, the cell_methods fall-back, and the Field methods that take an axis identity."""
    qs = []
    c1 = [c for c in R.of_type("dimension_coordinate", "auxiliary_coordinate")
          if c["axes"] is not None and len(c["axes"]) == 1]
    cands = []
    seen = set()
    for c in c1:
        for s in c["identities"]:
            if ok_text(s) and s not in seen:
                seen.add(s)
                cands.append(vs(s))
    for stem in REGEX_STEMS:
        cands.append(vre(0, 0, stem))
    multi = []
    for v in cands:
        hit = [c for c in c1 if any(py_match(v, i) for i in c["identities"])]
        if len(hit) >= 2 and not key_clash(R, [v]):
            multi.append((v, sorted({c["axes"][0] for c in hit})))
    rng.shuffle(multi)
    das = {c["key"]: c for c in R.of_type("domain_axis")}
    for v, axs in multi[:(3 if tier == "quick" else 8)]:
        fam = "shared-identity:one-axis" if len(axs) == 1 else "shared-identity:several-axes"
        for am in ("and", "or", "exact", "subset"):
            qs.append({"kind": "chain", "form": rng.choice(["filter", "methods"]), "fs": [["axis", [v]]],
                       "todict": am in ("and", "exact"), "am": am, "pm": ["and"], "fam": fam})
        qs.append({"kind": "chain", "form": "filter", "fs": [["axis", [v]]], "todict": False, "am": "and",
                   "pm": ["and"], "fam": fam})
        qs.append({"kind": "chain", "form": "methods", "fs": [["type", ["auxiliary_coordinate", "cell_measure"]], ["axis", [v]]],
                   "todict": True, "am": "or", "pm": ["and"], "fam": fam})
        other = [k for k in das if k not in axs]
        if other:
            qs.append({"kind": "chain", "form": "filter", "fs": [["axis", [v, vs(rng.choice(other))]]],
                       "todict": False, "am": rng.choice(["and", "or", "exact", "subset"]), "pm": ["and"], "fam": fam})
        qs.append({"kind": "ops", "fam": fam, "ops": [
            ["filter", {"kind": "chain", "form": "methods", "fs": [["axis", [v]]], "todict": False,
                        "am": rng.choice(["and", "or"]), "pm": ["and"]}], ["inverse", rng.choice([None, 1])]]})
        qs.append({"kind": "plural", "method": "domain_axes", "ids": [v], "fs": [], "todict": rng.random() < 0.5, "fam": fam})
        qs.append({"kind": "accessor", "method": "domain_axis", "ids": [v], "fs": [], "how": "key",
                   "default": rng.choice(["raise", "none"]), "fam": fam})
        qs.append({"kind": "accessor", "method": "domain_axis_key", "ids": [v], "fs": [],
                   "default": rng.choice(["raise", "none"]), "fam": fam})
        if not is_domain:
            qs.append({"kind": "plural", "method": "cell_methods", "ids": [v], "fs": [], "todict": False, "fam": fam})
            if v[0] == "s":
                a = axs[0] if len(axs) == 1 else None
                for m in ("insert_dimension", "indices", "nc_set_hdf5_chunksizes"):
                    if m == "insert_dimension" and a is not None and (das[a]["size"] != 1 or a in R.fda):
                        continue
                    qs.append({"kind": "axis_method", "method": m, "id": v, "key": a, "fam": fam + ":" + m,
                               "oracle_only": True})
    return qs


# ============================================================ expectations
def expect(R, q):
    """-> dict(kind= keys|pick|err|none, ...) from the constructs' own reports."""
    kind = q["kind"]
    if kind == "chain":
        am, pm = chain_modes(q)
        e = expect_chain(R, q["fs"], am, pm)
        return {"err": e[1]} if isinstance(e, tuple) else {"keys": e}
    if kind == "plural":
        m = q["method"]
        if m == "domain_axes":
            if q.get("fs"):
                base = expect_domain_axes(R, q["ids"])
                e = expect_chain(R, q["fs"], "and", ["and"], within=base)
                return {"keys": e}
            return {"keys": expect_domain_axes(R, q["ids"])}
        if m == "cell_methods":
            base = expect_cell_methods(R, q["ids"])
            if q.get("fs"):
                return {"keys": expect_chain(R, q["fs"], "and", ["and"], within=base)}
            return {"keys": base}
        fs = [["type", q["ts"]]] + q["fs"] + ([["identity", q["ids"]]] if q["ids"] else [])
        e = expect_chain(R, fs, "and", ["and"])
        return {"err": e[1]} if isinstance(e, tuple) else {"keys": e}
    if kind == "accessor":
        m = q["method"]
        if m == "domain_axis":
            sel = expect_domain_axes(R, q["ids"])
            if q.get("fs"):
                sel = expect_chain(R, q["fs"], "and", ["and"], within=sel)
        elif m == "cell_method":
            sel = expect_cell_methods(R, q["ids"])
            if q.get("fs"):
                sel = expect_chain(R, q["fs"], "and", ["and"], within=sel)
        elif m == "domain_axis_key":
            fs = [["type", ["dimension_coordinate", "auxiliary_coordinate"]], ["naxes", [vi(1)]]] + \
                 ([["identity", q["ids"]]] if q["ids"] else [])
            cs = expect_chain(R, fs, "and", ["and"])
            das = {c["key"] for c in R.of_type("domain_axis")}
            axs = {R.by[k]["axes"][0] for k in cs if R.by[k]["axes"][0] in das}
            return {"pick": axs.pop() if len(axs) == 1 else None}
        else:
            fs = ([["type", q["ts"]]] if q.get("ts") else []) + q.get("fs", []) + \
                 ([["identity", q["ids"]]] if q["ids"] else [])
            sel = expect_chain(R, fs, "and", ["and"])
            if isinstance(sel, tuple):
                return {"err": sel[1]}
        return {"pick": sel[0] if len(sel) == 1 else None}
    return {}


def expect_ops(R, q):
    """Documented meaning of filter ... then ONE inverse_filter/unfilter; None otherwise."""
    ops = q["ops"]
    snaps = [sorted(R.keys)]
    for i, p in enumerate(ops):
        if p[0] == "filter":
            ch = p[1]
            am, pm = chain_modes(ch)
            if ch["form"] == "methods":
                steps = [[f] for f in ch["fs"]]
            else:
                steps = [ch["fs"]] if ch["fs"] else []
                if not ch["fs"]:
                    continue
            for st in steps:
                if ch["form"] == "methods":
                    e = expect_chain(R, st, am, pm, within=snaps[-1])
                    if isinstance(e, tuple):
                        return {"err": e[1]}
                    snaps.append(e)
                else:
                    cur = snaps[-1]
                    for f in st:
                        e = expect_chain(R, [f], am, pm, within=cur)
                        if isinstance(e, tuple):
                            return {"err": e[1]}
                        snaps.append(e)
                        cur = e
        else:
            if i != len(ops) - 1:
                return None
            d = p[1]
            nfil = len(snaps) - 1
            cur = snaps[-1]
            if d is None or d > nfil:
                base = snaps[0]
            else:
                base = snaps[-1 - d]
            if p[0] == "unfilter":
                return {"keys": base}
            return {"keys": sorted(set(base) - set(cur))}
    return {"keys": snaps[-1]}


# ============================================================== Gallina
def g_val(v):
    if v[0] == "s":
        return f"(VStr {gstr(v[1])})"
    if v[0] == "re":
        return f"(VRe {gbool(v[1])} {gbool(v[2])} {gstr(v[3])})"
    if v[0] == "i":
        return f"(VInt {gz(v[1])})"
    return "VOther"


def g_vals(vs_):
    return glist(vs_, g_val)


def g_strs(xs):
    return glist(xs, gstr)


def g_assoc(d):
    return glist(list(d.items()), lambda kv: f"({gstr(kv[0])}, {gstr(kv[1])})")


def g_pinfo(props, ncvar):
    return f"(mkP {g_assoc(props)} {gopt(ncvar, gstr)})"


def g_construct(c):
    b = c["bounds"]
    return ("(mkC " + " ".join([
        gstr(c["key"]), gstr(c["type"]),
        "None" if c["axes"] is None else f"(Some {g_strs(c['axes'])})",
        gopt(c["size"], gz), gopt(c["comp"], gstr), gopt(c["ncdim"], gstr),
        g_pinfo(c["props"], c["ncvar"]),
        "None" if b is None else f"(Some {g_pinfo(b['props'], b['ncvar'])})",
        g_assoc(c["cc"]), g_strs(c["maxes"])]) + ")")


def g_fspec(f):
    k = f[0]
    if k == "type":
        return f"(FType {g_strs(f[1])})"
    if k == "data":
        return "FData"
    if k == "unknown":
        return "FUnknown"
    if k == "property":
        return "(FProperty " + glist(f[1], lambda nq: f"({gstr(nq[0])}, {'PAny' if nq[1][0] == 'any' else '(PVal ' + g_val(nq[1]) + ')'})") + ")"
    con = {"naxes": "FNaxes", "ncvar": "FNcvar", "ncdim": "FNcdim", "measure": "FMeasure", "method": "FMethod",
           "cell": "FCell", "conn": "FConn", "size": "FSize", "key": "FKey", "identity": "FIdentity",
           "axis": "FAxis"}[k]
    return f"({con} {g_vals(f[1])})"


def g_amode(am):
    return {"and": "AAnd", None: "AAnd", "or": "AOr", "exact": "AExact", "subset": "ASubset"}.get(am, "ABad")


def g_hfilter(ch):
    am, pm = chain_modes(ch)
    return f"(HFilter {gbool(ch['form'] == 'methods')} {g_amode(am)} {g_strs([str(x) for x in pm])} {glist(ch['fs'], g_fspec)})"


def g_depth(d):
    return gopt(d, gnat)


def g_errk(e):
    return e if e in ("ValueErr", "IndexErr", "TypeErr", "KeyErr") else "OtherErr"


def g_query(q, res):
    """-> (query literal, observation literal) or None when the query is outside the model."""
    kind = q["kind"]
    if q.get("oracle_only") or res.get("skip"):
        return None
    if kind == "chain":
        ql = f"(QOps [{g_hfilter(q)}])"
    elif kind == "ops":
        hs = []
        for p in q["ops"]:
            if p[0] == "filter":
                hs.append(g_hfilter(p[1]))
            elif p[0] == "inverse":
                hs.append(f"(HInverse {g_depth(p[1])})")
            else:
                hs.append(f"(HUnfilter {g_depth(p[1])})")
        ql = f"(QOps [{'; '.join(hs)}])"
    elif kind in ("plural", "accessor"):
        m = q["method"]
        if m in ("domain_axes", "domain_axis"):
            sel = f"(SDomainAxes {g_vals(q['ids'])} {glist(q.get('fs', []), g_fspec)})"
        elif m in ("cell_methods", "cell_method"):
            sel = f"(SCellMethods {g_vals(q['ids'])} {glist(q.get('fs', []), g_fspec)})"
        elif m == "domain_axis_key":
            sel = None
        else:
            sel = f"(STyped {g_strs(q.get('ts', []))} {g_vals(q['ids'])} {glist(q.get('fs', []), g_fspec)})"
        if m == "domain_axis_key":
            ql = f"(QDak {g_vals(q['ids'])})"
        elif kind == "plural":
            ql = f"(QSel {sel})"
        else:
            ql = f"(QPick {sel})"
    else:
        return None
    # observation
    if "err" in res:
        if kind == "accessor" and q.get("default", "raise") == "raise" \
                and res["err"] == ("KeyErr" if q.get("exc") else "ValueErr"):
            ol = "(OPick None)"
        else:
            ol = f"(OErr {g_errk(res['err'])})"
    elif "keys" in res:
        nfa = res.get("nfa")
        rk = res.get("rootkeys")
        ol = f"(OKeys {g_strs(res['keys'])} {gopt(nfa, gnat)} {'None' if rk is None else '(Some ' + g_strs(rk) + ')'})"
    elif "found" in res:
        ol = f"(OPick {gopt(res['found'], gstr)})"
    elif "default" in res:
        ol = "(OPick None)"
    elif "has" in res:
        return None
    else:
        return None
    return ql, ol


def g_case(R, pairs):
    return ("(" + glist(R.cs, g_construct) + ", " + g_strs(R.fda) + ", "
            + glist([c["identities"] for c in R.cs], g_strs) + ", "
            + glist(pairs, lambda p: f"({p[0]}, {p[1]})") + ")")


# ============================================================ classification
def classify(R, q, res, exp):
    """Stable signature of a property failure."""
    kind = q["kind"]
    fam = q.get("fam", "")
    if kind == "ops":
        if res.get("err") == "IndexErr":
            return "inverse-filter-depth-on-unfiltered-raises"
        if res.get("err") == "KeyErr":
            return "inverse-filter-depth-after-inverse-raises"
        return "inverse-or-unfilter-not-relative-to-previous-filter"
    if fam.startswith("shared-identity"):
        return "axis-named-by-identity-shared-by-several-1d-coordinates"
    if fam == "domain_axes-kw":
        return "domain_axes-identity-keyword-order-crash" if "err" in res else "domain_axes-identity-keyword"
    if fam == "domain_axes-converted+filter":
        return "domain_axes-converted-identity-ignores-other-filters"
    if fam == "cell_methods-converted+filter":
        return "cell_methods-converted-identity-ignores-other-filters"
    if q.get("method") in ("cell_methods", "cell_method"):
        return "cell_methods-no-match-selects-all"
    if q.get("method") in ("domain_axes", "domain_axis", "domain_axis_key"):
        return "domain-axis-selection"
    fs = q.get("fs", [])
    names = [f[0] for f in fs]
    if "keys" in exp and "keys" in res:
        missing = set(exp["keys"]) - set(res["keys"])
        ids = [v for f in fs if f[0] == "identity" for v in f[1]] + list(q.get("ids", []))
        if missing and ids and all(v[0] == "s" and not any(ch in v[1] for ch in "=:%") for v in ids):
            return "plain-identity-not-first-is-missed"
    if "pick" in exp and q.get("ids") and all(v[0] == "s" and not any(ch in v[1] for ch in "=:%") for v in q["ids"]):
        return "plain-identity-not-first-is-missed"
    if kind == "chain" and q.get("form") == "methods" and "axis" in names and len(names) > 1:
        return "method-chain-axis-identity-differs-from-filter-chain"
    return "selection:" + "+".join(sorted(set(names)) or [q.get("method", kind)])


# ==================================================================== check
def run_phase(chk, specs, queries=None):
    nw = 12
    idx = list(range(len(specs)))
    shards = [idx[i::nw] for i in range(nw)]
    payloads = []
    for sh in shards:
        payloads.append({"cases": [{"spec": specs[i], "queries": (queries[i] if queries else [])} for i in sh]})
    res = lib.run_workers_parallel("drive/c18.py", payloads)
    rows = [None] * len(specs)
    for w, (rc, out, err) in enumerate(res):
        if rc != 0 or len(out) != len(shards[w]):
            chk.fail("correspondence", "worker-crash", f"C18 worker {w} failed rc={rc}: {err[-600:]}",
                     {"correspondence": "drive/c18.py"})
            continue
        for j, row in zip(shards[w], out):
            rows[j] = row
    return rows


def judge(chk, R, q, res, exp, spec, stats):
    """Property oracle for one query.  Returns True if a failure was recorded."""
    bad = None
    kind = q["kind"]
    if kind == "ops":
        e = expect_ops(R, q)
        if e is not None:
            if "err" in e:
                if res.get("err") != e["err"]:
                    bad = (e, "history should have raised " + e["err"])
            elif "err" in res:
                bad = (e, f"history raised {res['err']}: {res.get('msg')}")
            elif res["keys"] != e["keys"]:
                bad = (e, "inverse_filter/unfilter is not the complement / the earlier collection")
            stats["ops_judged"] += 1
        if bad is None and e is None and "err" in res:
            # no documented expectation for the members, but a history of valid calls must not raise
            bad = ({}, f"a history of valid filter/inverse_filter/unfilter calls raised {res['err']}: {res.get('msg')}")
        if bad is None and "keys" in res:
            if res["rootkeys"] != sorted(R.keys):
                bad = ({"rootkeys": sorted(R.keys)}, "unfilter() no longer returns the whole collection")
            elif not set(res["keys"]) <= set(R.keys):
                bad = ({}, "selected keys outside the collection")
        exp = e or {}
    elif kind == "axis_method":
        by_id, by_key = res.get("by_id"), res.get("by_key")
        if q["key"] is not None:
            exp = {"same_as_key": q["key"], "outcome": by_key}
            if by_id != by_key:
                bad = (exp, f"{q['method']} with the axis named by a coordinate identity differs from naming it by key")
        else:
            exp = {"err": "ValueErr"}
            if not (isinstance(by_id, dict) and by_id.get("err") == "ValueErr"):
                bad = (exp, f"{q['method']}: the identity names no single axis, expected ValueError")
    elif "err" in exp:
        if res.get("err") != exp["err"]:
            bad = (exp, f"expected {exp['err']}")
    elif "keys" in exp:
        if "err" in res:
            bad = (exp, f"raised {res['err']}: {res.get('msg')}")
        elif res["keys"] != exp["keys"]:
            bad = (exp, "selected constructs differ from what the constructs report about themselves")
        elif res.get("todict_keys") is not None and res["todict_keys"] != res["keys"]:
            bad = (exp, "dictionary form and collection form hold different members")
        elif res.get("values_ok") is False:
            bad = (exp, "the selected values are not the field's own constructs")
        elif "todict" in q and res.get("isdict") is not None and bool(q["todict"]) != res["isdict"]:
            bad = (exp, "todict flag not honoured")
    elif "pick" in exp:
        d = q.get("default", "raise")
        if q["method"] == "has_construct":
            if res.get("has") != (exp["pick"] is not None):
                bad = (exp, "has_construct disagrees with the unique-match rule")
        elif exp["pick"] is not None:
            if res.get("found") != exp["pick"] or res.get("same") is False:
                bad = (exp, "unique match not returned")
        else:
            if d == "raise":
                want = "KeyErr" if q.get("exc") else "ValueErr"
                if res.get("err") != want:
                    bad = (exp, f"no unique match: expected {want}")
            elif res.get("default") != d:
                bad = (exp, "no unique match: expected the default")
    if bad:
        sig = classify(R, q, res, bad[0])
        chk.fail("property", sig, bad[1],
                 {"input": {"spec": spec, "query": q}, "expected": bad[0], "observed": res})
        return True
    return False


def run(chk, model_ok):
    rng = chk.rng
    tier = chk.tier
    nfields = 110 if tier == "quick" else 520
    specs = list(CORPUS_SPECS)
    for i in range(nfields):
        r = rng.random()
        specs.append(example_spec(rng) if r < 0.27 else shared_spec(rng) if r < 0.45 else synth_spec(rng))

    # phase 1: self-reports
    rows = run_phase(chk, specs)
    reps = {}
    build_errors = 0
    for i, row in enumerate(rows):
        if row is None:
            continue
        if "build_error" in row:
            build_errors += 1
            continue
        reps[i] = Rep(row["report"], row["fda"])

    # phase 2: queries generated from the reports
    queries = [[] for _ in specs]
    for i, R in reps.items():
        if not all(ok_text(s) for c in R.cs for s in c["identities"] + list(c["props"].values()) + list(c["props"])):
            continue
        queries[i] = queries_for(rng, R, tier, bool(specs[i].get("domain")))
        if i == 1:
            queries[i] = [dict(q) for q in CORPUS_QUERIES_1] + queries[i]
    rows2 = run_phase(chk, specs, queries)

    stats = {"ops_judged": 0}
    fams = {}
    kinds = {}
    nq = 0
    nerr = 0
    nonempty = 0
    impure = 0
    lits = []
    lit_index = []
    distinct = set()
    explained = set()
    for i, R in reps.items():
        row = rows2[i]
        if row is None or "results" not in row or not queries[i]:
            continue
        if row["report"] != rows[i]["report"]:
            chk.fail("correspondence", "nondeterministic-build", "the same spec built two different fields",
                     {"correspondence": "drive/c18.py", "input": specs[i]})
            continue
        if not row["pure"]:
            impure += 1
            chk.fail("property", "selection-altered-the-field", f"the field changed while selecting: {row['why']}",
                     {"input": {"spec": specs[i], "queries": queries[i][:5]}})
        pairs = []
        for j, (q, res) in enumerate(zip(queries[i], row["results"])):
            nq += 1
            fams[q.get("fam", "?")] = fams.get(q.get("fam", "?"), 0) + 1
            kinds[q["kind"]] = kinds.get(q["kind"], 0) + 1
            if res.get("skip"):
                continue
            if "err" in res:
                nerr += 1
            if res.get("keys"):
                nonempty += 1
            exp = expect(R, q) if q["kind"] != "ops" else {}
            # inputs whose meaning the documentation leaves open are kept out of the oracle
            ids = [v for f in q.get("fs", []) if f[0] in ("identity", "axis") for v in f[1]] + list(q.get("ids", []))
            amb = key_clash(R, ids)
            if q.get("method") in ("domain_axes", "domain_axis", "cell_methods", "cell_method"):
                pool = R.of_type("domain_axis") if "domain" in q["method"] else R.of_type("cell_method")
                amb = amb or first_hit_ambiguity(R, q["ids"], pool)
            failed = False
            if not amb:
                failed = judge(chk, R, q, res, exp, specs[i], stats)
            if failed:
                explained.add((i, j))
            g = g_query(q, res)
            if g is not None:
                pairs.append((g[0], g[1], j))
            if res.get("keys") or res.get("found"):
                distinct.add(lib.canon([specs[i], {k: v for k, v in q.items() if k != "fam"}]))
        if model_ok:
            lits.append(g_case(R, [(a, b) for a, b, _ in pairs]))
            lit_index.append((i, [j for _, _, j in pairs]))

    ncorr = 0
    if model_ok and lits:
        old = bool(os.environ.get("C18_OLD"))   # development aid: the model of the code before the fixes
        bad = lib.coq_bad_indices("C18", REQ, "check_case_old" if old else "check_case", lits, chunk=6)
        ncorr = sum(len(js) for _, js in lit_index)
        for b in bad[:12]:
            i, js = lit_index[b]
            out = lib.coq_eval(REQ, f"{'bad_queries_old' if old else 'bad_queries'} {lits[b]}")
            m = re.search(r"=\s*\[(.*?)\]", out)
            idxs = [int(x.strip().rstrip("%nat")) for x in m.group(1).split(";") if x.strip()] if m else []
            for k in idxs[:6]:
                if k == 999:
                    chk.fail("correspondence", "model-vs-impl:identities",
                             "identities() differs from the model's transcription of the identity generators",
                             {"correspondence": "C18.Run.check_case", "input": specs[i],
                              "observed": [[c["key"], c["identities"]] for c in reps[i].cs]})
                    continue
                j = js[k]
                if (i, j) in explained:
                    continue
                chk.fail("correspondence", "model-vs-impl",
                         "model and implementation select different constructs",
                         {"correspondence": "C18.Run.check_case", "input": {"spec": specs[i], "query": queries[i][j]},
                          "observed": rows2[i]["results"][j]})

    ncons = sum(len(R.cs) for R in reps.values())
    chk.coverage.update({
        "evaluations": nq,
        "distinct_nontrivial": len(distinct),
        "rule": "a query is non-trivial when it selects at least one construct (non-empty key set or a unique construct "
                "found); distinct = distinct canonical (field spec, query) pairs",
        "samples": [queries[i][0] for i in list(reps)[:3] if queries[i]],
        "traces_validated_against_impl": ncorr,
        "disagreements_checked": ncorr,
        "fields": len(reps), "constructs": ncons, "build_errors": build_errors,
        "field_families": {k: sum(1 for i in reps if specs[i]["fam"] == k) for k in {s["fam"] for s in specs}},
        "domains": sum(1 for i in reps if specs[i].get("domain")),
        "query_families": fams, "query_kinds": kinds,
        "queries_raising": nerr, "queries_selecting_something": nonempty,
        "histories_with_documented_expectation": stats["ops_judged"],
        "fields_altered": impure,
        "constructs_with_identity_only_from_bounds_or_after_measure": sum(
            1 for R in reps.values() for c in R.cs
            if any(not any(ch in s for ch in "=:%") for s in c["identities"][1:])),
        "exhaustive": False,
        "historical_refutations": "C18/Refuted.v: witnesses against the code before C18-fix-1..6",
    })
    chk.assumptions += [
        "a construct is abstracted to its own report: identities() in order, type, data axes, size, measure/method/cell/"
        "connectivity, netCDF names, properties (values compared as str), bounds' properties",
        "regular expressions are limited to literal text with optional ^ and $ anchors (re.escape'd)",
        "property values queried by filter_by_property are strings; numeric comparison (Container._equals) is not modelled",
        "a string that is at once a construct key and a construct identity, and identity tuples in which two values match "
        "the same identity (for domain_axes/cell_methods), are excluded: the documentation leaves them open",
        "the 'cached' keyword and the cf-python hooks (_identity_config beyond return_matched) are not exercised",
    ]


def replay(chk, path):
    d = json.load(open(path))
    bad = 0
    for x in d.get("cases", []):
        inp = x.get("input") or {}
        spec = inp.get("spec") if isinstance(inp, dict) and "spec" in inp else None
        if spec is None:
            continue
        qs = [inp["query"]] if "query" in inp else inp.get("queries", [])
        rc, out, err = lib.run_worker("drive/c18.py", {"cases": [{"spec": spec, "queries": qs}]})
        if not out or "results" not in out[0]:
            print("FAIL worker", err[-300:])
            bad += 1
            continue
        R = Rep(out[0]["report"], out[0]["fda"])
        sub = lib.Check("C18", "quick")
        for q, res in zip(qs, out[0]["results"]):
            exp = expect(R, q) if q["kind"] != "ops" else {}
            f = judge(sub, R, q, res, exp, spec, {"ops_judged": 0})
            print(("FAIL " if f else "ok   ") + json.dumps(q)[:200], "->", json.dumps(res)[:200])
            bad += bool(f)
        if not out[0]["pure"]:
            print("FAIL field altered:", out[0]["why"])
            bad += 1
    return 1 if bad else 0
