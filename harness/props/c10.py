"""C10 - writing never damages its inputs or the files they still read from
(DESIGN.md section 4, C10)."""
import json
import os

import lib
from lib import gz, gnat, gbool, gstr, glist

REQ = "From CfdmV Require Import Common.Base C10.Model C10.Fs C10.Ident C10.Run.\nOpen Scope string_scope."
MODEL_FILES = ["Model", "Fs", "Ident", "Run"]
BASES = ["ef0", "ef6", "dsgc", "dsgi", "gath", "ef1", "gath2"]
COPY_VARIANTS = ["copy", "squeeze", "transpose", "insert_dimension", "subspace_all", "subspace_part",
                 "apply_masking", "uncompress", "deepcopy"]
TOUCH_VARIANTS = ["to_memory", "cons_to_memory", "assign", "array", "text", "equals", "inner_to_memory", "inner_to_memory"]
EARLY_FAULTS = ["hdf5_chunks", "fmt", "var_attrs", "file_desc"]
LATE_FAULTS = ["endian", "compress99", "lsd", "datatype"]
N_HARMLESS = 17
# ways of spelling a file name (drive/c10.py spell_of)
VIAS_X = ["direct"] * 4 + ["filelink", "relative", "alias", "alias", "dotdot", "dslash", "scratch", "alias_scratch",
          "envvar", "envvar-braces"]
VIAS_Y = ["direct", "direct", "direct", "alias", "scratch"]
TVIAS = ["direct", "direct", "direct", "filelink", "relative", "alias", "alias", "dotdot", "dslash", "scratch",
         "alias_scratch", "envvar", "envvar-braces", "tilde"]
EXPANDED = ["envvar", "envvar-braces", "tilde"]     # names that cfdm has to expand ($VAR, ${VAR}, ~)
COMPONENT_KINDS = ["interior_ring", "interior_ring", "node_count", "part_node_count", "bounds", "count", "index",
                   "list", "cell_measure", "domain_ancillary", "coordref"]
TRACKED = ("X", "Y", "Z", "E", "EN", "V", "DV", "W", "LX")


# ---- Gallina printers ------------------------------------------------------------
class BadName(Exception):
    pass


def g_names(ns):
    for n in ns:
        if not isinstance(n, int):
            raise BadName(str(n))
    return glist(ns, gz)


def g_path(p):
    return glist(p, gz)


def g_leaf(lf):
    return "Mem" if lf[0] == "mem" else f"(File {g_names(lf[1])})"


def g_arr(a):
    if a[0] == "plain":
        return f"(Plain {g_leaf(a[1])})"
    ancs = glist(a[2], lambda x: f"(mkAnc {g_names(x[0])} {g_leaf(x[1])})")
    return f"(Comp {g_leaf(a[1])} {ancs})"


def g_odat(a):
    return "None" if a is None else f"(Some {g_arr(a)})"


def g_pvar(p):
    return "None" if p is None else f"(Some (mkP {g_names(p['orig'])} {g_odat(p['data'])}))"


def g_cons(c):
    return f"(mkC {g_names(c['orig'])} {g_odat(c['data'])} {g_pvar(c['bounds'])} {g_pvar(c['ring'])})"


def g_field(t):
    cons = glist(t["cons"], lambda kc: f"({gstr(kc[0])}, {g_cons(kc[1])})")
    return f"(mkF {g_names(t['orig'])} {g_odat(t['data'])} {cons})"


def g_sel(s):
    if s[0] == "field":
        return "SelField"
    return "(" + {"cons": "SelCons", "bounds": "SelBounds", "ring": "SelRing"}[s[0]] + f" {gstr(s[1])})"


def g_op(o):
    k = o[0]
    if k == "copy":
        return f"(OCopy {gnat(o[1])})"
    if k == "get_domain":
        return f"(OGetDomain {gnat(o[1])} {glist(o[2], gstr)})"
    if k == "field_source":
        return f"(OFieldSource {gnat(o[1])})"
    if k == "convert":
        return f"(OConvert {gnat(o[1])} {gstr(o[2])} {glist(o[3], gstr)})"
    if k == "new_field":
        return "ONewField"
    if k == "set_data":
        return f"(OSetData {gnat(o[1])} {gnat(o[2])} {g_sel(o[3])})"
    if k == "del_data":
        return f"(ODelData {gnat(o[1])})"
    if k == "del_cons":
        return f"(ODelCons {gnat(o[1])} {gstr(o[2])})"
    if k == "set_cons":
        return f"(OSetCons {gnat(o[1])} {gstr(o[2])} {gnat(o[3])} {gstr(o[4])})"
    if k == "del_bounds":
        return f"(ODelBounds {gnat(o[1])} {gstr(o[2])})"
    if k == "set_bounds":
        return f"(OSetBounds {gnat(o[1])} {gstr(o[2])} {gnat(o[3])} {gstr(o[4])})"
    if k == "set_bounds_data":
        return f"(OSetBoundsData {gnat(o[1])} {gstr(o[2])} {gnat(o[3])} {g_sel(o[4])})"
    if k == "new_cons":
        return f"(ONewCons {gnat(o[1])} {gstr(o[2])})"
    if k == "touch":
        return f"(OTouch {gnat(o[1])})"
    raise ValueError(o)


def g_err(e):
    return "None" if e is None else f"(Some {e})"


def eff_code(b, a):
    return 0 if a == b else (2 if a is None else 1)


def effects(r):
    """per tracked directory entry: 0 untouched, 1 altered or created, 2 absent now"""
    return {nm: eff_code(r["before"][nm], r["after"][nm]) for nm in TRACKED}


def g_effects(r):
    eff = effects(r)
    return glist([(r["tracked_paths"][nm], eff[nm]) for nm in TRACKED], lambda p: f"({g_path(p[0])}, {gz(p[1])})")


def g_node(n):
    return f"(NFile {gz(n[1])} 0%nat)" if n[0] == "file" else f"(NLink {g_path(n[1])})"


def g_fs(r):
    for i, _p in r["spell"]:
        if not isinstance(i, int):
            raise BadName(str(i))
    spell = glist(r["spell"], lambda ip: f"({gz(ip[0])}, {g_path(ip[1])})")
    nodes = glist(r["nodes"], lambda kn: f"({g_path(kn[0])}, {g_node(kn[1])})")
    return f"(mkFS {spell} {nodes})"


def g_rname(given):
    return glist(given, lambda c: f"(RLit {gz(c[1])})" if c[0] == "lit" else f"(RVar {gz(c[1])})" if c[0] == "var" else "RHome")


def g_target(t):
    """the name as given and the absolute name the harness computed from it"""
    if not isinstance(t["name"], int):
        raise BadName(str(t["name"]))
    return f"({g_rname(t['given'])}, mkT {gz(t['name'])} {g_path(t['path'])})"


def g_env(ev):
    return ("(mkE " + glist(ev["vars"], lambda vp: f"({gz(vp[0])}, {g_path(vp[1])})") + " " + g_path(ev["home"]) + ")")


def g_wopts(case, r):
    w = case["write"]
    mode = {"w": "MW", "a": "MA", "r+": "MA"}.get(w["mode"], "MBad")
    f = r["fault"]
    fault = {"none": "FNone", "late": "FLate"}.get(f[0]) or f"({'FEarly1' if f[0] == 'early1' else 'FEarly2'} {f[1]})"
    return f"(mkW {mode} {gbool(w.get('overwrite', True))} {fault})"


def literal(case, r):
    init = glist(r["init"], lambda t: f"({g_field(t['tree'])}, {g_names(t['aggs'][0])}, {g_names(t['aggs'][1])})")
    steps = glist([s for s in r["steps"] if "op" in s],
                  lambda s: f"({g_op(s['op'])}, {gnat(s['reg'])}, {g_field(s['tree'])}, {g_names(s['orig'])}, {g_names(s['files'])})")
    err = r["error"][0] if r["error"] else None
    efsel = glist(r["efsel"], lambda t: f"({gnat(t[0])}, {gstr(t[1])}, {glist(t[2], gstr)})")
    ext = "None" if r["ext"] is None else f"(Some {g_target(r['ext'])})"
    w = (f"({g_fs(r)}, {g_env(r['env'])}, {glist(r['sel'], gnat)}, {efsel}, {g_target(r['target'])}, {g_wopts(case, r)}, {ext}, "
         f"{g_effects(r)}, {g_err(err)})")
    return f"({init}, {steps}, {w})"


def g_props(p):
    return "None" if p is None else "(Some " + glist(p, lambda kv: f"({gz(kv[0])}, {gz(kv[1])})") + ")"


def g_gobs(rows):
    return glist(rows, lambda row: f"({g_props(row[0])}, {g_props(row[1])}, {g_props(row[2])})")


CKIND = {"list": "KList", "count": "KCount", "index": "KIndex", "bounds": "KBounds", "interior_ring": "KRing"}


def g_oobs(rows):
    return glist(rows, lambda kr: "(" + CKIND.get(kr[0], "KOther") + ", " + glist(kr[1], lambda kv: f"({gz(kv[0])}, {gz(kv[1])})") + ")")


def ident_literal(case, r):
    reached = r["fault"][0] in ("none", "late") and not (r["error"] and r["fault"][0] == "none")

    def side(which):
        return glist(list(zip(r["geo"][which], r["others"][which])), lambda go: f"({g_gobs(go[0])}, {g_oobs(go[1])})")

    return (f"({side('before')}, {side('after')}, {gz(r['kname'])}, true, "
            f"{gbool(r['error'] is not None)}, {gbool(reached and case['write']['mode'] == 'w')})")


# ---- generators --------------------------------------------------------------------
def rand_transplant(rng, nregs):
    return {"op": "set_data", "dst": rng.randrange(nregs), "src": rng.randrange(nregs),
            "sel": rng.choice(["field", "field", "cons", "bounds", "ring"]), "j": rng.randrange(6),
            "how": rng.choice(["direct", "direct", "wrapped", "source", "copy"])}


def rand_comp_prop(rng, nregs, i=None):
    return {"op": "comp_prop", "i": rng.randrange(nregs) if i is None else i, "kind": rng.choice(COMPONENT_KINDS),
            "j": rng.randrange(4), "val": rng.randrange(3), "create": rng.random() < 0.3,
            "which": rng.choice(["ncvar", "ncvar", "ncvar_del"]) if rng.random() < 0.3 else "prop",
            "name": rng.choice(["long_name", "long_name", "comment"])}


def rand_op(rng, nregs, transplant_bias=0.0):
    r = rng.random()
    i = rng.randrange(nregs)
    if r < transplant_bias:
        return rand_transplant(rng, nregs)
    r = rng.random()
    if r < 0.27:
        return {"op": "copy", "i": i, "variant": rng.choice(COPY_VARIANTS)}
    if r < 0.32:
        return {"op": "get_domain", "i": i, "variant": rng.choice(["call", "attr"])}
    if r < 0.37:
        return {"op": "field_source", "i": i, "copy": rng.random() < 0.7}
    if r < 0.44:
        return {"op": "convert", "i": i, "j": rng.randrange(6), "full": rng.random() < 0.6}
    if r < 0.49:
        return {"op": "new_field"}
    if r < 0.58:
        return rand_transplant(rng, nregs)
    if r < 0.61:
        return {"op": "del_data", "i": i}
    if r < 0.66:
        return {"op": "del_construct", "i": i, "j": rng.randrange(6)}
    if r < 0.72:
        return {"op": "set_construct", "dst": rng.randrange(nregs), "src": rng.randrange(nregs), "j": rng.randrange(6)}
    if r < 0.75:
        return {"op": "del_bounds", "i": i, "j": rng.randrange(4)}
    if r < 0.79:
        return {"op": "set_bounds", "dst": rng.randrange(nregs), "src": rng.randrange(nregs),
                "j": rng.randrange(4), "j2": rng.randrange(4)}
    if r < 0.83:
        return {"op": "set_bounds_data", "dst": rng.randrange(nregs), "src": rng.randrange(nregs),
                "j": rng.randrange(4), "j2": rng.randrange(4), "sel": rng.choice(["bounds", "cons", "field"]),
                "how": rng.choice(["direct", "wrapped", "source"])}
    if r < 0.89:
        return rand_comp_prop(rng, nregs)
    if r < 0.93:
        return {"op": "make_external", "i": i, "j": rng.randrange(2), "new": rng.random() < 0.4, "val": rng.randrange(3)}
    return {"op": "touch", "i": i, "variant": rng.choice(TOUCH_VARIANTS), "j": rng.randrange(6)}


def grows(o):
    return o["op"] in ("copy", "get_domain", "field_source", "convert", "new_field")


def rand_history(rng, maxlen, bias):
    n = rng.randrange(0, maxlen + 1)
    ops, nregs = [], 2
    for _ in range(n):
        o = rand_op(rng, nregs, bias)
        ops.append(o)
        if grows(o):
            nregs += 1  # an upper bound: the driver reduces indices modulo the real count
    return ops, nregs


def rand_target(rng, w):
    r = rng.random()
    if r < 0.45:
        w["target"], w["tvia"] = "X", rng.choice(TVIAS)
    elif r < 0.57:
        w["target"], w["tvia"] = "Y", rng.choice([v for v in TVIAS if v != "filelink"])
    elif r < 0.80:
        w["target"], w["tvia"] = "Z", rng.choice([v for v in TVIAS if v != "filelink"])
    elif r < 0.86:
        w["target"], w["tvia"] = "E", rng.choice(["direct", "alias", "scratch", "envvar", "tilde"])
    elif r < 0.90:
        w["target"], w["tvia"] = "V", "direct"
    elif r < 0.95:
        w["target"], w["tvia"] = "DV", "deep"    # '..' after a link to a deeper directory: lexically V
    else:
        w["target"], w["tvia"] = "X", "deep"     # physically X, lexically a new file one level up
    return w


def rand_external(rng):
    r = rng.random()
    key = "E" if r < 0.5 else "EN" if r < 0.7 else "X" if r < 0.85 else "Y" if r < 0.95 else "Z"
    return {"key": key, "via": rng.choice(["direct", "direct", "alias", "dotdot", "dslash", "scratch", "alias_scratch",
                                            "envvar", "envvar-braces", "tilde"])}


def rand_write(rng, nregs, last_written=None, p_ext=0.08):
    r = rng.random()
    mode = "w" if r < 0.78 else "a" if r < 0.90 else "r+" if r < 0.96 else "x"
    r = rng.random()
    fault = None if r < 0.74 else rng.choice(EARLY_FAULTS) if r < 0.86 else rng.choice(LATE_FAULTS)
    regs = [nregs - 1 if rng.random() < 0.6 else rng.randrange(nregs)]
    if last_written is not None and rng.random() < 0.5:
        regs = [last_written]
    if rng.random() < 0.15:
        regs.append(rng.randrange(nregs))
    w = {"regs": regs, "mode": mode, "overwrite": rng.random() < 0.8,
         "fault": fault, "as_list": rng.random() < 0.3, "harmless": rng.randrange(N_HARMLESS) if rng.random() < 0.5 else 0}
    if rng.random() < p_ext:
        w["external"] = rand_external(rng)
    return rand_target(rng, w)


def W(regs, target, tvia="direct", mode="w", overwrite=True, fault=None, external=None):
    w = {"regs": regs, "target": target, "tvia": tvia, "mode": mode, "overwrite": overwrite, "fault": fault}
    if external:
        w["external"] = external
    return w


CORPUS = [
    # F10a: data of a lazily-read field placed in a fresh field, written over its source
    {"bases": ["ef0", "ef0"], "read_via": "direct", "fam": "corpus-F10a",
     "ops": [{"op": "new_field"}, {"op": "set_data", "dst": 2, "src": 0, "sel": "field", "how": "direct"}],
     "write": W([2], "X")},
    # F10a through cfdm.Data(d.source())
    {"bases": ["dsgc", "ef0"], "read_via": "direct", "fam": "corpus-F10a",
     "ops": [{"op": "new_field"}, {"op": "set_data", "dst": 2, "src": 0, "sel": "field", "how": "source"}],
     "write": W([2], "X")},
    # F10b: read through a symbolic link, written to the file itself
    {"bases": ["ef0", "ef0"], "read_via": "filelink", "fam": "corpus-F10b",
     "ops": [{"op": "copy", "i": 0, "variant": "copy"}], "write": W([2], "X")},
    # F10c: lazy bounds of X under a coordinate of a field read from Y
    {"bases": ["ef0", "ef0"], "read_via": "direct", "fam": "corpus-F10c",
     "ops": [{"op": "set_bounds_data", "dst": 1, "src": 0, "j": 0, "j2": 0, "sel": "bounds", "how": "direct"}],
     "write": W([1], "X")},
    # F10c: a transplanted ragged array whose compressed data are in memory and whose count variable is not
    {"bases": ["dsgc", "ef0"], "read_via": "direct", "fam": "corpus-F10c",
     "ops": [{"op": "new_field"}, {"op": "set_data", "dst": 2, "src": 0, "sel": "field", "how": "direct"},
             {"op": "touch", "i": 2, "variant": "inner_to_memory"}], "write": W([2], "X")},
    {"bases": ["gath", "dsgi"], "read_via": "direct", "fam": "corpus-F10c",
     "ops": [{"op": "new_field"}, {"op": "set_data", "dst": 2, "src": 0, "sel": "field", "how": "copy"},
             {"op": "touch", "i": 2, "variant": "inner_to_memory"}, {"op": "copy", "i": 2, "variant": "copy"}],
     "write": W([3], "X", "filelink")},
    {"bases": ["dsgi", "dsgi"], "read_via": "direct", "fam": "corpus-F10c",
     "ops": [{"op": "new_field"}, {"op": "set_data", "dst": 2, "src": 1, "sel": "field", "how": "direct"},
             {"op": "touch", "i": 2, "variant": "inner_to_memory"}], "write": W([2], "Y")},
    # the direct case of test_write_filename
    {"bases": ["ef1", "gath"], "read_via": "direct", "fam": "corpus-direct", "ops": [], "write": W([0], "X")},
    # overwrite disabled, bad format at the same time
    {"bases": ["ef6", "dsgi"], "read_via": "direct", "fam": "corpus-options",
     "ops": [], "write": W([1], "X", overwrite=False, fault="fmt")},
    # written elsewhere through a relative spelling of X while reading it
    {"bases": ["gath", "ef0"], "read_via": "relative", "fam": "corpus-direct",
     "ops": [{"op": "copy", "i": 0, "variant": "transpose"}], "write": W([2], "X", "relative")},
    # ---- deepening pass -------------------------------------------------------------
    # seeded change 1: the source reached through a link to the PARENT DIRECTORY
    {"bases": ["ef0", "ef0"], "read_via": "direct", "fam": "corpus-dirlink",
     "ops": [{"op": "copy", "i": 0, "variant": "copy"}], "write": W([2], "X", "alias")},
    {"bases": ["dsgc", "ef0"], "read_via": "alias", "fam": "corpus-dirlink", "ops": [], "write": W([0], "X")},
    {"bases": ["ef6", "ef0"], "read_via": "scratch", "fam": "corpus-dirlink",
     "ops": [{"op": "copy", "i": 0, "variant": "squeeze"}], "write": W([2], "X", "alias_scratch")},
    {"bases": ["ef1", "ef0"], "read_via": "dslash", "fam": "corpus-dirlink", "ops": [], "write": W([0], "X", "dotdot")},
    {"bases": ["ef0", "gath"], "read_via": "direct", "read_via_y": "alias", "fam": "corpus-dirlink",
     "ops": [{"op": "new_field"}, {"op": "set_data", "dst": 2, "src": 1, "sel": "field", "how": "direct"}],
     "write": W([2], "Y", "scratch")},
    # seeded change 2: overwrite=False must also protect the EXTERNAL file
    {"bases": ["ef0", "ef1"], "read_via": "direct", "fam": "corpus-external",
     "ops": [{"op": "make_external", "i": 1, "j": 0, "val": 1}],
     "write": W([1], "Z", overwrite=False, external={"key": "E", "via": "direct"})},
    {"bases": ["ef0", "ef1"], "read_via": "direct", "fam": "corpus-external",
     "ops": [{"op": "make_external", "i": 1, "j": 0, "val": 1}, {"op": "touch", "i": 1, "variant": "cons_to_memory", "j": 5}],
     "write": W([1], "Z", "alias", overwrite=False, external={"key": "E", "via": "alias_scratch"})},
    {"bases": ["ef0", "ef1"], "read_via": "direct", "fam": "corpus-external",
     "ops": [{"op": "make_external", "i": 1, "j": 0, "val": 1}],
     "write": W([1], "Z", external={"key": "EN", "via": "direct"})},
    # fix2-2: the external file is one that the construct itself still reads from
    {"bases": ["ef0", "ef1"], "read_via": "direct", "fam": "corpus-external",
     "ops": [{"op": "new_field"}, {"op": "set_data", "dst": 2, "src": 0, "sel": "field", "how": "direct"},
             {"op": "make_external", "i": 2, "new": True, "val": 1}],
     "write": W([2], "Z", external={"key": "X", "via": "scratch"})},
    # seeded change 3: geometry variables with different property sets
    {"bases": ["ef6", "ef0"], "read_via": "direct", "fam": "corpus-asym",
     "ops": [{"op": "comp_prop", "i": 0, "kind": "interior_ring", "j": 1, "val": 1, "name": "long_name"}],
     "write": W([0], "Z")},
    {"bases": ["ef6", "ef0"], "read_via": "direct", "fam": "corpus-asym",
     "ops": [{"op": "comp_prop", "i": 0, "kind": "node_count", "j": 0, "val": 2, "create": True},
             {"op": "comp_prop", "i": 0, "kind": "interior_ring", "j": 2, "val": 0, "name": "comment"}],
     "write": W([0], "X")},
    {"bases": ["ef6", "ef0"], "read_via": "direct", "fam": "corpus-asym",
     "ops": [{"op": "comp_prop", "i": 0, "kind": "interior_ring", "j": 0, "val": 1},
             {"op": "comp_prop", "i": 0, "kind": "interior_ring", "j": 1, "val": 2}],
     "write": W([0], "Z")},
    # fix2-1: '..' after a link to a deeper directory, overwrite disabled
    {"bases": ["ef0", "ef1"], "read_via": "direct", "fam": "corpus-lexical", "ops": [],
     "write": W([1], "DV", "deep", overwrite=False)},
    {"bases": ["ef0", "ef1"], "read_via": "direct", "fam": "corpus-lexical", "ops": [],
     "write": W([0], "X", "deep")},
    # fix2-3: appending constructs to the file they still read from
    {"bases": ["ef0", "ef6"], "read_via": "direct", "fam": "corpus-append", "ops": [], "write": W([1], "Y", mode="a")},
    {"bases": ["ef0", "dsgc"], "read_via": "direct", "read_via_y": "alias", "fam": "corpus-append", "ops": [],
     "write": W([1], "Y", "scratch", mode="a")},
    {"bases": ["ef1", "ef0"], "read_via": "direct", "fam": "corpus-append", "ops": [], "write": W([0], "X", "filelink", mode="r+")},
    # (seed robustness) a DOMAIN holding an external cell measure: its external file is written too
    {"bases": ["ef6", "ef1"], "read_via": "dslash", "fam": "corpus-external",
     "ops": [{"op": "make_external", "i": 0, "j": 1, "new": True, "val": 2}, {"op": "get_domain", "i": 0, "variant": "call"}],
     "write": dict(W([2], "Z", "envvar", external={"key": "E", "via": "tilde"}), as_list=True)},
    {"bases": ["ef1", "ef0"], "read_via": "direct", "fam": "corpus-external",
     "ops": [{"op": "make_external", "i": 0, "j": 0, "val": 1}, {"op": "get_domain", "i": 0, "variant": "attr"}],
     "write": W([2], "Z", overwrite=False, external={"key": "E", "via": "alias"})},
    {"bases": ["ef1", "ef0"], "read_via": "direct", "fam": "corpus-external",
     "ops": [{"op": "make_external", "i": 0, "j": 0, "val": 1}, {"op": "get_domain", "i": 0, "variant": "call"}],
     "write": W([2], "Z", external={"key": "X", "via": "scratch"})},
    # (seed robustness) the target is a LINK to the external file: by the time "external == target" is
    # tested the link has been replaced by a file of its own; named directly it is refused; append
    {"bases": ["ef0", "ef1"], "read_via": "direct", "fam": "corpus-external",
     "ops": [{"op": "make_external", "i": 1, "j": 0, "val": 2}, {"op": "touch", "i": 1, "variant": "to_memory"}],
     "write": W([1], "X", "filelink", external={"key": "X", "via": "dotdot"})},
    {"bases": ["ef0", "ef1"], "read_via": "direct", "fam": "corpus-external",
     "ops": [{"op": "make_external", "i": 1, "j": 0, "val": 2}],
     "write": W([1], "X", "alias", external={"key": "X", "via": "direct"})},
    {"bases": ["ef0", "ef1"], "read_via": "direct", "fam": "corpus-external",
     "ops": [{"op": "make_external", "i": 1, "j": 0, "val": 2}],
     "write": W([1], "X", "filelink", mode="a", external={"key": "X", "via": "scratch"})},
    # ---- second deepening round ---------------------------------------------------------
    # the list variable of a gathered field has no netCDF name (read from file, brought into memory)
    {"bases": ["gath", "ef0"], "read_via": "direct", "fam": "corpus-gathered",
     "ops": [{"op": "comp_prop", "i": 0, "kind": "list", "j": 0, "which": "ncvar_del"}], "write": W([0], "Z")},
    {"bases": ["gath", "ef0"], "read_via": "direct", "fam": "corpus-gathered",
     "ops": [{"op": "touch", "i": 0, "variant": "to_memory"},
             {"op": "comp_prop", "i": 0, "kind": "list", "j": 0, "which": "ncvar_del"},
             {"op": "copy", "i": 0, "variant": "copy"}], "write": W([2], "Y")},
    # two gathered fields with different list variables of the same name, written together
    {"bases": ["gath", "gath2"], "read_via": "direct", "fam": "corpus-gathered",
     "ops": [{"op": "comp_prop", "i": 0, "kind": "list", "j": 0, "which": "ncvar", "val": 0},
             {"op": "comp_prop", "i": 1, "kind": "list", "j": 0, "which": "ncvar", "val": 0}],
     "write": dict(W([0, 1], "Z"), as_list=True)},
    {"bases": ["gath2", "gath"], "read_via": "alias", "fam": "corpus-gathered",
     "ops": [{"op": "comp_prop", "i": 1, "kind": "list", "j": 0, "which": "ncvar", "val": 1},
             {"op": "comp_prop", "i": 0, "kind": "list", "j": 0, "which": "ncvar", "val": 1},
             {"op": "touch", "i": 1, "variant": "to_memory"}],
     "write": dict(W([1, 0], "Z", "alias"), as_list=True)},
    # names that have to be expanded: overwrite disabled on an existing file ...
    {"bases": ["ef0", "ef1"], "read_via": "direct", "fam": "corpus-expansion", "ops": [],
     "write": W([1], "X", "envvar", overwrite=False)},
    {"bases": ["ef0", "ef1"], "read_via": "direct", "fam": "corpus-expansion", "ops": [],
     "write": W([0], "Y", "envvar-braces", overwrite=False)},
    {"bases": ["ef0", "gath"], "read_via": "direct", "fam": "corpus-expansion", "ops": [],
     "write": W([1], "E", "tilde", overwrite=False)},
    {"bases": ["ef0", "ef1"], "read_via": "direct", "fam": "corpus-expansion",
     "ops": [{"op": "make_external", "i": 1, "j": 0, "val": 1}],
     "write": W([1], "Z", "tilde", overwrite=False, external={"key": "E", "via": "envvar"})},
    # ... the file that the data are in, named with a variable; read through one, written plainly; append
    {"bases": ["ef0", "ef1"], "read_via": "direct", "fam": "corpus-expansion",
     "ops": [{"op": "copy", "i": 0, "variant": "copy"}], "write": W([2], "X", "envvar")},
    {"bases": ["dsgc", "ef1"], "read_via": "envvar-braces", "fam": "corpus-expansion", "ops": [], "write": W([0], "X", "tilde")},
    {"bases": ["ef0", "ef6"], "read_via": "envvar", "read_via_y": "direct", "fam": "corpus-expansion", "ops": [],
     "write": W([0], "X", "envvar-braces", mode="a")},
]


def base_pair(rng, bias=None):
    if bias and rng.random() < 0.7:
        return [rng.choice(bias), rng.choice(BASES)]
    return [rng.choice(BASES), rng.choice(BASES)]


def gen_cases(rng, tier):
    thorough = tier == "thorough"
    k = 4 if thorough else 1
    cases = [dict(c) for c in CORPUS]

    def add(bases, ops, w, fam, via=None):
        cases.append({"bases": bases, "read_via": via or rng.choice(VIAS_X), "read_via_y": rng.choice(VIAS_Y),
                      "ops": ops, "write": w, "fam": fam})

    # (a) transplants: data of X (field / construct / bounds / ring, bare or re-wrapped) moved
    #     into a fresh field or into the field read from Y, a few derivations either side
    for _ in range(300 * k):
        pre, n = rand_history(rng, 3, 0.0)
        dst_new = rng.random() < 0.5
        ops = list(pre)
        if dst_new:
            ops.append({"op": "new_field"})
            n += 1
        kind = rng.random()
        if kind < 0.6:
            t = {"op": "set_data", "dst": (n - 1) if dst_new else 1, "src": rng.choice([0, 0, 0, rng.randrange(n)]),
                 "sel": rng.choice(["field", "field", "cons", "bounds", "ring"]), "j": rng.randrange(6),
                 "how": rng.choice(["direct", "wrapped", "source", "copy"])}
            wreg = t["dst"]
        elif kind < 0.8:
            t = {"op": "set_bounds_data", "dst": 1, "src": 0, "j": rng.randrange(3), "j2": rng.randrange(4),
                 "sel": rng.choice(["bounds", "cons"]), "how": rng.choice(["direct", "wrapped", "source"])}
            wreg = 1
        else:
            t = {"op": "set_construct", "dst": (n - 1) if dst_new else 1, "src": 0, "j": rng.randrange(6)}
            wreg = t["dst"]
        ops.append(t)
        for _k in range(rng.randrange(0, 3)):
            o = rng.choice([{"op": "copy", "i": wreg, "variant": rng.choice(COPY_VARIANTS)},
                            {"op": "touch", "i": wreg, "variant": rng.choice(TOUCH_VARIANTS), "j": rng.randrange(6)},
                            {"op": "field_source", "i": wreg, "copy": True},
                            {"op": "del_construct", "i": wreg, "j": rng.randrange(6)}])
            ops.append(o)
            if grows(o):
                wreg = n
                n += 1
        w = rand_write(rng, n, wreg)
        if rng.random() < 0.7:
            w["mode"], w["fault"], w["overwrite"] = "w", None, True
            w["target"], w["tvia"] = rng.choice([("X", rng.choice(TVIAS)), ("X", rng.choice(TVIAS)), ("Y", "alias"), ("Y", "direct")])
        add(base_pair(rng), ops, w, "transplant")
    # (b) random histories
    for _ in range(650 * k):
        ops, n = rand_history(rng, 8, 0.12)
        add(base_pair(rng), ops, rand_write(rng, n), "history")
    # (c) options: little or no history, the whole option space, every base kind
    for _ in range(300 * k):
        ops, n = rand_history(rng, 1, 0.0)
        w = rand_write(rng, n)
        w["harmless"] = rng.randrange(N_HARMLESS)
        if rng.random() < 0.5:
            w["target"], w["tvia"] = rng.choice(["Y", "Z", "Z"]), rng.choice(["direct", "alias", "scratch"])
            w["regs"] = [0]
        add(base_pair(rng), ops, w, "options", via="direct")
    # (d) spellings: the same file named in two ways (links to the file, to a parent directory, to the
    #     scratch directory, '..', doubled slashes, relative), little history, plain mode-w writes
    for _ in range(250 * k):
        ops, n = rand_history(rng, 2, 0.15)
        reg = rng.choice([0, 0, 0, 1, n - 1])
        w = {"regs": [reg], "mode": "w", "overwrite": rng.random() < 0.85, "fault": None,
             "target": "X" if rng.random() < 0.75 else "Y", "tvia": rng.choice(TVIAS)}
        if w["target"] == "Y" and w["tvia"] == "filelink":
            w["tvia"] = "alias"
        add(base_pair(rng), ops, w, "spelling")
    # (e) external file: a cell measure flagged external (read from a file or made in memory), the
    #     external file existing / new / a file a construct still reads from, overwrite on and off
    for _ in range(300 * k):
        pre, n = rand_history(rng, 2, 0.1)
        reg = rng.choice([1, 1, 0, n - 1])
        ops = list(pre)
        if rng.random() < 0.35:
            ops += [{"op": "new_field"}, {"op": "set_data", "dst": n, "src": rng.choice([0, 1]), "sel": "field",
                                         "how": rng.choice(["direct", "copy", "wrapped"])}]
            reg = n
            n += 1
        ops.append({"op": "make_external", "i": reg, "j": rng.randrange(2), "new": rng.random() < 0.5, "val": rng.randrange(3)})
        if rng.random() < 0.3:
            ops.append({"op": "touch", "i": reg, "variant": rng.choice(["cons_to_memory", "to_memory"]), "j": rng.randrange(8)})
        if rng.random() < 0.15:   # the domain of the field, which holds the external cell measure as well
            ops.append({"op": "get_domain", "i": reg, "variant": rng.choice(["call", "attr"])})
            reg = n
            n += 1
        w = {"regs": [reg], "mode": "w" if rng.random() < 0.9 else "a", "overwrite": rng.random() < 0.5, "fault": None,
             "external": rand_external(rng), "harmless": rng.choice([0, 0, 0, 3, 11])}
        w["target"], w["tvia"] = rng.choice([("Z", "direct"), ("Z", "alias"), ("Z", "scratch"), ("Y", "direct"),
                                             ("V", "direct"), ("X", "direct")])
        add(base_pair(rng, ["ef1"]), ops, w, "external", via=rng.choice(["direct", "alias", "scratch"]))
    # (f) asymmetric components: ONE node count / part node count / interior ring / bounds / count /
    #     index / list / cell measure / domain ancillary / coordinate conversion gets a property or a
    #     netCDF name that its siblings lack, then a write that goes ahead (CF >= 1.8)
    for _ in range(250 * k):
        ops, n = [], 2
        reg = rng.choice([0, 0, 1])
        geom = rng.random() < 0.5
        for _k in range(rng.randrange(1, 4)):
            o = rand_comp_prop(rng, n, reg)
            if geom:
                o["kind"] = rng.choice(["interior_ring", "interior_ring", "node_count", "part_node_count"])
            ops.append(o)
        if rng.random() < 0.3:
            ops.append({"op": "copy", "i": reg, "variant": rng.choice(["copy", "squeeze", "deepcopy"])})
            n += 1
            if rng.random() < 0.5:
                ops.append(rand_comp_prop(rng, n, n - 1))
        regs = [reg] if rng.random() < 0.8 else [reg, n - 1]
        w = {"regs": regs, "mode": "w", "overwrite": True, "fault": None if rng.random() < 0.9 else rng.choice(LATE_FAULTS),
             "harmless": rng.choice([0, 0, 0, 1, 3, 7])}
        w["target"], w["tvia"] = rng.choice([("Z", "direct"), ("Z", "alias"), ("Y" if reg == 0 else "X", "direct"),
                                             ("X" if reg == 0 else "Y", "direct")])
        bp = base_pair(rng, ["ef6", "ef6", "dsgc", "dsgi", "gath", "ef1"])
        if geom:
            bp[reg] = "ef6"
            if rng.random() < 0.8:
                w["target"], w["tvia"] = rng.choice([("Z", "direct"), ("Z", "alias"), ("Y" if reg == 0 else "X", "direct")])
        add(bp, ops, w, "asymmetric", via="direct")
    # (g) gathered fields: the list variable without a netCDF name, or two different list variables
    #     of one name in fields written together; read from file or brought into memory
    for _ in range(150 * k):
        b = [rng.choice(["gath", "gath2"]), rng.choice(["gath", "gath2", "gath2", "ef0"])]
        ops, n = [], 2
        name = rng.randrange(3)
        for reg in (0, 1):
            r = rng.random()
            if r < 0.4:
                ops.append({"op": "comp_prop", "i": reg, "kind": "list", "j": 0, "which": "ncvar_del"})
            elif r < 0.8:
                ops.append({"op": "comp_prop", "i": reg, "kind": "list", "j": 0, "which": "ncvar", "val": name})
            if rng.random() < 0.3:
                ops.append({"op": "touch", "i": reg, "variant": rng.choice(["to_memory", "inner_to_memory"])})
        regs = [0, 1] if rng.random() < 0.5 else [rng.choice([0, 1])]
        if rng.random() < 0.3:
            ops.append({"op": "copy", "i": regs[0], "variant": rng.choice(["copy", "deepcopy", "squeeze"])})
            regs = [n] + regs[1:]
            n += 1
        w = {"regs": regs, "mode": "w", "overwrite": True, "fault": None, "as_list": len(regs) > 1,
             "harmless": rng.choice([0, 0, 1, 2, 3])}
        w["target"], w["tvia"] = rng.choice([("Z", "direct"), ("Z", "alias"), ("Z", "envvar"), ("X", "direct"), ("Y", "scratch")])
        add(b, ops, w, "gathered", via=rng.choice(["direct", "direct", "alias", "envvar"]))
    # (h) names that cfdm must expand ($VAR, ${VAR}, ~): overwrite disabled on an existing file, the
    #     guard for the file the data are in, append, the external file
    for _ in range(200 * k):
        ops, n = rand_history(rng, 1, 0.0)
        kind = rng.random()
        via = rng.choice(EXPANDED)
        if kind < 0.45:      # a construct that does not need the file, overwrite disabled
            tgt = rng.choice(["X", "Y", "E"])
            w = {"regs": [1 if tgt == "X" else 0], "mode": "w", "overwrite": False, "fault": None, "target": tgt, "tvia": via}
        elif kind < 0.7:     # the file the data are in
            w = {"regs": [rng.choice([0, n - 1])], "mode": "w", "overwrite": rng.random() < 0.7, "fault": None,
                 "target": "X", "tvia": via}
        elif kind < 0.85:    # append
            w = {"regs": [rng.randrange(n)], "mode": rng.choice(["a", "r+"]), "overwrite": rng.random() < 0.5,
                 "fault": None, "target": rng.choice(["X", "Y"]), "tvia": via}
        else:                # the external file
            ops.append({"op": "make_external", "i": 1, "j": 0, "new": rng.random() < 0.5, "val": rng.randrange(3)})
            w = {"regs": [1], "mode": "w", "overwrite": rng.random() < 0.5, "fault": None, "target": "Z",
                 "tvia": rng.choice(TVIAS[:3] + EXPANDED), "external": {"key": rng.choice(["E", "E", "EN", "X"]), "via": via}}
        add(base_pair(rng, ["ef1", "ef0"]), ops, w, "expansion",
            via=rng.choice(["direct", "direct", "envvar", "envvar-braces", "alias"]))
    for i, c in enumerate(cases):
        c["id"] = i
        if c["ops"] and c["ops"][-1]["op"] == "get_domain":
            c["ops"][-1] = dict(c["ops"][-1], last=True)
    return cases


# ---- the property oracle on the implementation ----------------------------------------
def is_regular(state):
    return isinstance(state, list) and len(state) == 3 and isinstance(state[0], int)


def real_keys(r, names):
    return {r["real_of"].get(str(n), "?") for n in names if isinstance(n, int)}


def classify_destroyed(case, r, k, key):
    t, e = r["target"], r["ext"]
    if e is not None and key == e["real_key"] and key != t["real_key"]:
        return "external"
    if not t["modelable"]:
        return "lexical"
    orig = r["written_aggs"][k][0]
    if t["name"] in orig:
        return "direct"
    if t["real_key"] in real_keys(r, orig):
        w = case["write"]
        return "symlink" if "filelink" in (w.get("tvia"), r["read_via"].split("/")[0]) or w["target"] == "LX" else "dirlink"
    return "transplant"


def oracle(chk, case, r):
    """Returns True when the property oracle rejected the case."""
    w = case["write"]
    bad = False
    inp = {"case": case}
    eff = effects(r)
    t, e = r["target"], r["ext"]
    tkey = t["real_key"]
    ekey = e["real_key"] if e else None
    mode_w = w["mode"] == "w"
    obs = {"before": r["before"], "after": r["after"], "error": r["error"], "target": t, "external": e}
    if r["inputs_changed"]:
        bad = True
        parts = sorted({p for ch in r["inputs_changed"] for p in ch["parts"]})
        chk.fail("property", "inputs-changed:" + "+".join(parts)[:60],
                 f"a construct was changed by cfdm.write ({w}): {r['inputs_changed'][0]}"[:500],
                 {"input": inp, "observed": r["inputs_changed"][:3]})
    if r["geo"]["before"] != r["geo"]["after"]:
        bad = True
        chk.fail("property", "inputs-changed:geometry-variable-properties",
                 "the node count / part node count / interior ring variables of a written construct have "
                 "different properties after cfdm.write",
                 {"input": inp, "expected": r["geo"]["before"], "observed": r["geo"]["after"]})
    if r["others"]["before"] != r["others"]["after"]:
        bad = True
        diff = [(a, b) for oa, ob in zip(r["others"]["before"], r["others"]["after"]) for a, b in zip(oa, ob) if a != b]
        chk.fail("property", "inputs-changed:component-netcdf-names",
                 "a list / count / index / bounds / interior ring variable of a written construct has another netCDF "
                 f"variable name or other properties after cfdm.write: kinds {sorted({a[0] for a, _b in diff})}",
                 {"input": inp, "expected": r["others"]["before"], "observed": r["others"]["after"]})
    if r.get("values_bad"):
        bad = True
        hit = [key for needed in r["needed"] for key in sorted(real_keys(r, needed)) if eff.get(key, 0) != 0]
        chk.fail("property", "data-unreadable-after-write:" + ("append" if not mode_w else
                                                               classify_destroyed(case, r, 0, hit[0] if hit else tkey)),
                 f"after cfdm.write the data of a construct can no longer be read as before: {r['values_bad'][0]}"[:500],
                 {"input": inp, "observed": r["values_bad"][:3], "error": r["error"]})
    if mode_w:
        for k, needed in enumerate(r["needed"]):
            for key in sorted(real_keys(r, needed)):
                if eff.get(key, 0) != 0:
                    bad = True
                    chk.fail("property", "needed-file-destroyed:" + classify_destroyed(case, r, k, key),
                             f"write(mode='w') to {t['raw']} (external {e and e['raw']}) altered file {key} from which "
                             f"the written construct still has unread data (error: {r['error']})",
                             {"input": inp, "expected": "ValueError before the file is touched", "observed": obs})
                    break
    if r.get("append_lost"):
        bad = True
        chk.fail("property", "append-damaged-existing-variables",
                 f"append changed variables that were in the file: {r['append_lost']}",
                 {"input": inp, "observed": r["append_lost"]})
    if mode_w and not w.get("overwrite", True):
        # every file that exists before the call is byte-identical afterwards, whatever its role
        for key in TRACKED:
            if is_regular(r["before"][key]) and eff[key] != 0:
                bad = True
                role = ("lexical" if not t["modelable"] else "target" if key == tkey else
                        "external" if key == ekey else "other")
                chk.fail("property", "no-overwrite-violated:" + role,
                         f"overwrite=False: existing file {key} ({role}) was altered",
                         {"input": inp, "expected": "byte-identical", "observed": obs})
        if is_regular(r["before"].get(tkey)) and r["error"] is None:
            bad = True
            chk.fail("property", "no-overwrite-violated:target", "overwrite=False on an existing file did not raise",
                     {"input": inp, "observed": obs})
    if r["error"] is not None and r["fault"][0] != "late" and w["mode"] in ("w", "x"):
        # a refusal / option error leaves every file alone; when an external file was named the
        # target may already have been written before the external file was refused
        touched = [key for key in TRACKED if eff[key] != 0 and not (e is not None and key in (tkey, "LX", t["lexical_key"]))]
        if touched:
            bad = True
            chk.fail("property", "refused-after-touching",
                     f"the write was refused ({r['error']}) but {touched} had already been altered",
                     {"input": inp, "observed": obs})
    for k, needed in enumerate(r["needed"]):
        if sorted(map(str, needed)) != sorted(map(str, r["written_aggs"][k][1])):
            bad = True
            chk.fail("property", "get_filenames-incomplete",
                     f"get_filenames() = {r['written_aggs'][k][1]} but the construct's arrays are in {needed}",
                     {"input": inp, "expected": needed, "observed": r["written_aggs"][k][1]})
    # the guard refuses exactly the requests that name (however spelt) a consulted file
    if mode_w and e is None and r["fault"][0] == "none" and (w.get("overwrite", True) or not is_regular(r["before"].get(tkey))):
        consulted = set()
        for o_, f_ in r["written_aggs"]:
            consulted.update(x for x in o_ + f_ if isinstance(x, int))
        expect_refuse = tkey in real_keys(r, consulted) or t["name"] in consulted
        if (r["error"] is not None) != expect_refuse and not bad and (t["modelable"] or expect_refuse):
            bad = True
            chk.fail("property", "spurious-refusal" if r["error"] is not None else "guard-did-not-refuse",
                     f"write to {t['raw']} of constructs recorded in {sorted(consulted)}: error {r['error']}",
                     {"input": inp, "expected": "refused" if expect_refuse else "written", "observed": r["error"]})
    return bad


def nontrivial(case, r):
    applied = [s for s in r["steps"] if "op" in s]
    w = case["write"]
    lazy = any(r["needed"]) or any(a[0] for a in r["written_aggs"])
    return (bool(applied) and lazy or w["mode"] != "w" or not w.get("overwrite", True) or bool(w.get("fault"))
            or w.get("tvia", "direct") != "direct" or bool(w.get("external")))


def run_cases(chk, cases):
    nw = 16
    shards = [cases[i::nw] for i in range(nw)]
    root = os.path.join(chk.scratch, "w")
    res = lib.run_workers_parallel(
        "drive/c10.py", [{"scratch": os.path.join(root, str(k)), "cases": sh} for k, sh in enumerate(shards) if sh],
        timeout=3000)
    rows = {}
    for k, (rc, out, err) in enumerate(res):
        for row in out:
            rows[row.get("id")] = row
        if rc != 0:
            chk.fail("correspondence", "worker-failed", f"C10 worker {k} exited with {rc}: {err[-400:]}",
                     {"correspondence": "drive/c10.py"})
    return rows


def bump(d, k):
    d[k] = d.get(k, 0) + 1


def run(chk, model_ok):
    cases = gen_cases(chk.rng, chk.tier)
    rows = run_cases(chk, cases)
    done, lits, lit_cases, ilits, ilit_cases = [], [], [], [], []
    stats = {"crash": 0, "driver_error": 0, "refused": 0, "written": 0, "failed_late": 0, "failed_early": 0,
             "skipped_ops": 0, "applied_ops": 0, "not_modelable_spelling": 0, "external_file_written": 0,
             "geometry_variables_asymmetric": 0, "conform_conflict": 0}
    fam, opk, modes, targets, faults, hist_len, bases, exts, comp_kinds = {}, {}, {}, {}, {}, {}, {}, {}, {}
    for c in cases:
        r = rows.get(c["id"])
        if r is None:
            chk.fail("correspondence", "no-result", f"case {c['id']} produced no result", {"correspondence": "drive/c10.py", "input": c})
            continue
        if "crash" in r:
            stats["crash"] += 1
            chk.fail("property", "worker-crash:" + ("append" if c["write"]["mode"] in ("a", "r+") else c["write"]["mode"]),
                     f"the interpreter died (signal {r['crash']}) during the case", {"input": {"case": c}})
            continue
        if "driver_error" in r:
            stats["driver_error"] += 1
            chk.fail("correspondence", "driver-error", r["driver_error"][:400], {"correspondence": "drive/c10.py", "input": c})
            continue
        done.append((c, r))
        explained = oracle(chk, c, r)
        bump(fam, c["fam"])
        w = c["write"]
        bump(modes, w["mode"])
        bump(targets, f"{w['target']}:{w.get('tvia', 'direct')}<-{r['read_via']}")
        bump(faults, r["fault"][0])
        if r["ext"] is not None:
            bump(exts, f"{w['external']['key']}:{w['external'].get('via')}:overwrite={w.get('overwrite', True)}")
            stats["external_file_written"] += bool(r.get("ext_written_by_control"))
        for b in c["bases"]:
            bump(bases, b)
        applied = [s for s in r["steps"] if "op" in s]
        stats["applied_ops"] += len(applied)
        stats["skipped_ops"] += len(r["steps"]) - len(applied)
        bump(hist_len, len(applied))
        for s in applied:
            bump(opk, s["o"]["op"] if s["op"][0] == "touch" and s["o"]["op"] != "touch" else s["op"][0])
            if s["o"]["op"] == "comp_prop":
                bump(comp_kinds, s["o"].get("kind"))
        for g in r["geo"]["before"]:
            for col in range(3):
                vals = [json.dumps(row[col]) for row in g if row[col] is not None]
                if len(set(vals)) > 1:
                    stats["geometry_variables_asymmetric"] += 1
                    break
        if r["error"] is None:
            stats["written"] += 1
        elif r["fault"][0] == "late":
            stats["failed_late"] += 1
            if r["error"] and "inconsistent propert" in r["error"][2]:
                stats["conform_conflict"] += 1
        elif r["fault"][0] != "none":
            stats["failed_early"] += 1
        else:
            stats["refused"] += 1
        ilits.append(ident_literal(c, r))
        ilit_cases.append((c, r, explained))
        if not (r["target"]["modelable"] and (r["ext"] is None or r["ext"]["modelable"])):
            stats["not_modelable_spelling"] += 1
            continue
        try:
            lits.append(literal(c, r))
            lit_cases.append((c, r, explained))
        except BadName as e:
            chk.fail("correspondence", "unexpected-file-name", f"a construct names a file outside the case: {e}",
                     {"correspondence": "drive/c10.py", "input": c})

    ncorr = 0
    if model_ok and lits:
        bad = lib.coq_bad_indices("C10", REQ, "check_case", lits, chunk=100)
        ncorr = len(lits)
        for i in bad[:40]:
            c, r, explained = lit_cases[i]
            if explained:
                continue
            try:
                diag = lib.coq_eval(REQ, f"diag_case {lits[i]}").split("=")[-1].split(":")[0].strip()
            except Exception as e:  # noqa
                diag = "?"
            chk.fail("correspondence", "model-vs-impl",
                     f"model and implementation disagree (diagnosis {diag}: 1 initial aggregates, 10+k / 500+k step k or "
                     "its reported file names, 1000 error class, 1001 file effects)",
                     {"correspondence": "C10.Run.check_case", "input": {"case": c},
                      "observed": {"steps": [{k: v for k, v in s.items() if k != "tree"} for s in r["steps"]],
                                   "fault": r["fault"], "error": r["error"], "effects": effects(r),
                                   "target": r["target"], "ext": r["ext"], "efsel": r["efsel"],
                                   "aggs": r["written_aggs"], "needed": r["needed"]}})
        bad = lib.coq_bad_indices("C10", REQ, "check_ident", ilits, chunk=400)
        for i in bad[:40]:
            c, r, explained = ilit_cases[i]
            if explained:
                continue
            chk.fail("correspondence", "model-vs-impl:inputs",
                     "the writer's treatment of its inputs differs from the model (geometry variable properties "
                     "after the write, or an inconsistency that the writer did not refuse)",
                     {"correspondence": "C10.Run.check_ident", "input": {"case": c},
                      "observed": {"geo": r["geo"], "error": r["error"], "fault": r["fault"]}})

    distinct = {lib.canon([c["bases"], c.get("read_via"), c.get("read_via_y"),
                           [s.get("op") for s in r["steps"] if "op" in s], c["write"]])
                for c, r in done if nontrivial(c, r)}
    samples = [done[i][0] for i in (0, len(done) // 2, len(done) - 1)] if done else []
    chk.coverage.update({
        "evaluations": len(done),
        "distinct_nontrivial": len(distinct),
        "rule": "a case = two generated base files (6 kinds: plain, geometry with interior ring, DSG contiguous / indexed "
                "ragged, gathered, many-construct with cell measure / domain ancillaries / coordinate references) in a "
                "directory tree with symbolic links to a file, to its parent directory, to a deeper directory and to the "
                "scratch directory itself, read lazily under one of 9 spellings; a derivation history of 0-8 operations "
                "(including properties / netCDF names given to ONE component of a kind and cell measures flagged external); "
                "then one cfdm.write of the result over one of the files under any spelling (or another file, a new file) "
                "with mode / overwrite / external file / option faults drawn at random; non-trivial = at least one "
                "operation applied and the written construct still records or needs a file, or the write is not a plain "
                "mode-w overwrite of a directly spelt name; distinct = canonical JSON of (bases, read spellings, resolved "
                "operations, write)",
        "samples": samples,
        "traces_validated_against_impl": ncorr,
        "disagreements_checked": ncorr + len(ilits) if model_ok else 0,
        "families": fam, "operations_applied": opk, "modes": modes, "target_spelling_by_read_spelling": targets,
        "external_requests": exts, "asymmetric_component_kinds": comp_kinds,
        "fault_class_observed": faults, "history_length": {str(k): v for k, v in sorted(hist_len.items())},
        "base_kinds": bases, "outcomes": stats,
        "exhaustive": False,
        "historical_refutations": "C10/Refuted.v: guard before C10-fix-1 refuted by a transplant history (F10a) and by a "
                                  "symbolic link (F10b); get_filenames() before the fix shown incomplete (F10c); real paths "
                                  "compared only for final-component links, the external file checked against the derived "
                                  "fields only, overwrite not forwarded to the external write, copy deferred after "
                                  "conform_geometry_variables: each refuted by a witness",
    })
    chk.assumptions += [
        "a file is identified by its canonical path (what os.path.realpath gives); symbolic links may sit at any component "
        "of a name and their targets are canonical paths (chains are resolved by the harness); hard links are outside the "
        "model (replacing one name of a hard-linked file leaves the other intact); a '..' that follows a link to a deeper "
        "directory is resolved physically by the operating system and is left to the property oracle (no correspondence)",
        "'fails part-way' means a Python exception (bad option value, unwritable value, unknown format); a crash of the process "
        "or of the machine mid-write is outside the model",
        "append mode is content-preserving rather than refused: the check requires that every variable that was in the file is "
        "unchanged and that every lazy array of the inputs still reads the same values",
        "the writer's handling of its inputs is proved for the model's program (checks, copy, then every in-place step; "
        "Ident.v) and tied to the code per run by the observed geometry-variable properties and by a structural fingerprint "
        "of every construct held by the program before and after each write (properties and netCDF names of every "
        "component, dtypes, shapes, compression type and ancillary variables, laziness and file names)",
        "every derivation may bring any array into memory (refinement relation of Model.v); which ones do is observed, not modelled",
        "which external fields the writer derives is predicted by the harness (cell measures flagged external with data and a "
        "netCDF variable name) and confirmed by a control write to fresh files",
    ]


def replay(chk, path):
    d = json.load(open(path))
    cases = []
    for x in d.get("cases", []):
        c = (x.get("input") or {}).get("case")
        if c:
            c = dict(c)
            c["id"] = len(cases)
            cases.append(c)
    rows = run_cases(chk, cases)
    nbad = 0
    for c in cases:
        r = rows.get(c["id"], {})
        if "crash" in r or "driver_error" in r or not r:
            print("FAIL", json.dumps(c)[:200], r)
            nbad += 1
            continue
        n0 = len(chk.failures)
        oracle(chk, c, r)
        ok = len(chk.failures) == n0
        print(("ok   " if ok else "FAIL ") + json.dumps(c["write"]), "error:", r["error"], "effects:", effects(r))
        for f in chk.failures[n0:]:
            print("     ", f.signature, "-", f.what[:200])
        nbad += not ok
    return 1 if nbad else 0
