"""C10 - writing never damages its inputs or the files they still read from
(DESIGN.md section 4, C10)."""
import json
import os

import lib
from lib import gz, gnat, gbool, gstr, glist

REQ = "From CfdmV Require Import Common.Base C10.Model C10.Run.\nOpen Scope string_scope."
BASES = ["ef0", "ef6", "dsgc", "dsgi", "gath", "ef1"]
NAME_ID = {"X": 1, "Y": 2, "LX": 3, "Z": 4, "Xrel": 1}
COPY_VARIANTS = ["copy", "squeeze", "transpose", "insert_dimension", "subspace_all", "subspace_part",
                 "apply_masking", "uncompress", "deepcopy"]
TOUCH_VARIANTS = ["to_memory", "cons_to_memory", "assign", "array", "text", "equals", "inner_to_memory", "inner_to_memory"]
EARLY_FAULTS = ["hdf5_chunks", "fmt", "var_attrs", "file_desc"]
LATE_FAULTS = ["endian", "compress99", "lsd", "datatype"]
N_HARMLESS = 17


# ---- Gallina printers ------------------------------------------------------------
class BadName(Exception):
    pass


def g_names(ns):
    for n in ns:
        if not isinstance(n, int):
            raise BadName(str(n))
    return glist(ns, gz)


def g_leaf(lf):
    return "Mem" if lf[0] == "mem" else f"(File {g_names(lf[1])})"


def g_arr(a):
    if a[0] == "plain":
        return f"(Plain {g_leaf(a[1])})"
    ancs = glist(a[2], lambda x: f"(mkAnc {g_names(x[0])} {g_leaf(x[1])})")
    return f"(Comp {g_leaf(a[1])} {ancs})"


def g_odat(a):
    return "None" if a is None else f"(Some {g_arr(a)})"


def g_pvar(p):
    return "None" if p is None else f"(Some (mkP {g_names(p['orig'])} {g_odat(p['data'])}))"


def g_cons(c):
    return f"(mkC {g_names(c['orig'])} {g_odat(c['data'])} {g_pvar(c['bounds'])} {g_pvar(c['ring'])})"


def g_field(t):
    cons = glist(t["cons"], lambda kc: f"({gstr(kc[0])}, {g_cons(kc[1])})")
    return f"(mkF {g_names(t['orig'])} {g_odat(t['data'])} {cons})"


def g_sel(s):
    if s[0] == "field":
        return "SelField"
    return "(" + {"cons": "SelCons", "bounds": "SelBounds", "ring": "SelRing"}[s[0]] + f" {gstr(s[1])})"


def g_op(o):
    k = o[0]
    if k == "copy":
        return f"(OCopy {gnat(o[1])})"
    if k == "get_domain":
        return f"(OGetDomain {gnat(o[1])} {glist(o[2], gstr)})"
    if k == "field_source":
        return f"(OFieldSource {gnat(o[1])})"
    if k == "convert":
        return f"(OConvert {gnat(o[1])} {gstr(o[2])} {glist(o[3], gstr)})"
    if k == "new_field":
        return "ONewField"
    if k == "set_data":
        return f"(OSetData {gnat(o[1])} {gnat(o[2])} {g_sel(o[3])})"
    if k == "del_data":
        return f"(ODelData {gnat(o[1])})"
    if k == "del_cons":
        return f"(ODelCons {gnat(o[1])} {gstr(o[2])})"
    if k == "set_cons":
        return f"(OSetCons {gnat(o[1])} {gstr(o[2])} {gnat(o[3])} {gstr(o[4])})"
    if k == "del_bounds":
        return f"(ODelBounds {gnat(o[1])} {gstr(o[2])})"
    if k == "set_bounds":
        return f"(OSetBounds {gnat(o[1])} {gstr(o[2])} {gnat(o[3])} {gstr(o[4])})"
    if k == "set_bounds_data":
        return f"(OSetBoundsData {gnat(o[1])} {gstr(o[2])} {gnat(o[3])} {g_sel(o[4])})"
    if k == "touch":
        return f"(OTouch {gnat(o[1])})"
    raise ValueError(o)


def g_err(e):
    return "None" if e is None else f"(Some {e})"


def effects(r):
    out = []
    for nm in ("X", "Y", "LX", "Z"):
        b, a = r["before"][nm], r["after"][nm]
        code = 0 if a == b else (2 if a is None else 1)
        out.append((NAME_ID[nm], code))
    return out


def g_fs(r):
    regs = [(NAME_ID[nm], 100 + NAME_ID[nm]) for nm in ("X", "Y", "Z")
            if r["before"][nm] is not None and not r["links_before"][nm]]
    links = [(3, 1)] if r["links_before"]["LX"] else []
    return ("(mkFS " + glist(regs, lambda p: f"({gz(p[0])}, ({gz(p[1])}, 0%nat))") + " "
            + glist(links, lambda p: f"({gz(p[0])}, {gz(p[1])})") + ")")


def g_wopts(case, r):
    w = case["write"]
    mode = {"w": "MW", "a": "MA", "r+": "MA"}.get(w["mode"], "MBad")
    f = r["fault"]
    fault = {"none": "FNone", "late": "FLate"}.get(f[0]) or f"({'FEarly1' if f[0] == 'early1' else 'FEarly2'} {f[1]})"
    return f"(mkW {mode} {gbool(w.get('overwrite', True))} {fault})"


def literal(case, r):
    init = glist(r["init"], lambda t: f"({g_field(t['tree'])}, {g_names(t['aggs'][0])}, {g_names(t['aggs'][1])})")
    steps = glist([s for s in r["steps"] if "op" in s],
                  lambda s: f"({g_op(s['op'])}, {gnat(s['reg'])}, {g_field(s['tree'])}, {g_names(s['orig'])}, {g_names(s['files'])})")
    effs = glist(effects(r), lambda p: f"({gz(p[0])}, {gz(p[1])})")
    err = r["error"][0] if r["error"] else None
    w = (f"({g_fs(r)}, {glist(r['sel'], gnat)}, {gz(NAME_ID[case['write']['target']])}, "
         f"{g_wopts(case, r)}, {effs}, {g_err(err)})")
    return f"({init}, {steps}, {w})"


# ---- generators --------------------------------------------------------------------
def rand_op(rng, nregs, transplant_bias=0.0):
    r = rng.random()
    i = rng.randrange(nregs)
    if r < transplant_bias:
        return {"op": "set_data", "dst": rng.randrange(nregs), "src": rng.randrange(nregs),
                "sel": rng.choice(["field", "field", "cons", "bounds", "ring"]), "j": rng.randrange(6),
                "how": rng.choice(["direct", "direct", "wrapped", "source", "copy"])}
    r = rng.random()
    if r < 0.30:
        return {"op": "copy", "i": i, "variant": rng.choice(COPY_VARIANTS)}
    if r < 0.36:
        return {"op": "get_domain", "i": i, "variant": rng.choice(["call", "attr"])}
    if r < 0.42:
        return {"op": "field_source", "i": i, "copy": rng.random() < 0.7}
    if r < 0.50:
        return {"op": "convert", "i": i, "j": rng.randrange(6), "full": rng.random() < 0.6}
    if r < 0.56:
        return {"op": "new_field"}
    if r < 0.66:
        return {"op": "set_data", "dst": rng.randrange(nregs), "src": rng.randrange(nregs),
                "sel": rng.choice(["field", "field", "cons", "bounds", "ring"]), "j": rng.randrange(6),
                "how": rng.choice(["direct", "direct", "wrapped", "source", "copy"])}
    if r < 0.69:
        return {"op": "del_data", "i": i}
    if r < 0.75:
        return {"op": "del_construct", "i": i, "j": rng.randrange(6)}
    if r < 0.81:
        return {"op": "set_construct", "dst": rng.randrange(nregs), "src": rng.randrange(nregs), "j": rng.randrange(6)}
    if r < 0.84:
        return {"op": "del_bounds", "i": i, "j": rng.randrange(4)}
    if r < 0.88:
        return {"op": "set_bounds", "dst": rng.randrange(nregs), "src": rng.randrange(nregs),
                "j": rng.randrange(4), "j2": rng.randrange(4)}
    if r < 0.92:
        return {"op": "set_bounds_data", "dst": rng.randrange(nregs), "src": rng.randrange(nregs),
                "j": rng.randrange(4), "j2": rng.randrange(4), "sel": rng.choice(["bounds", "cons", "field"]),
                "how": rng.choice(["direct", "wrapped", "source"])}
    return {"op": "touch", "i": i, "variant": rng.choice(TOUCH_VARIANTS), "j": rng.randrange(6)}


def grows(o):
    return o["op"] in ("copy", "get_domain", "field_source", "convert", "new_field")


def rand_history(rng, maxlen, bias):
    n = rng.randrange(0, maxlen + 1)
    ops, nregs = [], 2
    for _ in range(n):
        o = rand_op(rng, nregs, bias)
        ops.append(o)
        if grows(o):
            nregs += 1  # an upper bound: the driver reduces indices modulo the real count
    return ops, nregs


def rand_write(rng, nregs, last_written=None):
    r = rng.random()
    target = "X" if r < 0.45 else "Y" if r < 0.58 else "LX" if r < 0.73 else "Xrel" if r < 0.80 else "Z"
    r = rng.random()
    mode = "w" if r < 0.78 else "a" if r < 0.90 else "r+" if r < 0.96 else "x"
    r = rng.random()
    fault = None if r < 0.74 else rng.choice(EARLY_FAULTS) if r < 0.86 else rng.choice(LATE_FAULTS)
    regs = [nregs - 1 if rng.random() < 0.6 else rng.randrange(nregs)]
    if last_written is not None and rng.random() < 0.5:
        regs = [last_written]
    if rng.random() < 0.15:
        regs.append(rng.randrange(nregs))
    return {"regs": regs, "target": target, "mode": mode, "overwrite": rng.random() < 0.8,
            "fault": fault, "as_list": rng.random() < 0.3, "harmless": rng.randrange(N_HARMLESS) if rng.random() < 0.5 else 0}


def written_reg(ops):
    """the register the last operation wrote (as the driver will see it), if it can be told statically"""
    return None


CORPUS = [
    # F10a: data of a lazily-read field placed in a fresh field, written over its source
    {"bases": ["ef0", "ef0"], "read_via": "direct", "fam": "corpus-F10a",
     "ops": [{"op": "new_field"}, {"op": "set_data", "dst": 2, "src": 0, "sel": "field", "how": "direct"}],
     "write": {"regs": [2], "target": "X", "mode": "w", "overwrite": True, "fault": None}},
    # F10a through cfdm.Data(d.source())
    {"bases": ["dsgc", "ef0"], "read_via": "direct", "fam": "corpus-F10a",
     "ops": [{"op": "new_field"}, {"op": "set_data", "dst": 2, "src": 0, "sel": "field", "how": "source"}],
     "write": {"regs": [2], "target": "X", "mode": "w", "overwrite": True, "fault": None}},
    # F10b: read through a symbolic link, written to the file itself
    {"bases": ["ef0", "ef0"], "read_via": "symlink", "fam": "corpus-F10b",
     "ops": [{"op": "copy", "i": 0, "variant": "copy"}],
     "write": {"regs": [2], "target": "X", "mode": "w", "overwrite": True, "fault": None}},
    # F10c: lazy bounds of X under a coordinate of a field read from Y
    {"bases": ["ef0", "ef0"], "read_via": "direct", "fam": "corpus-F10c",
     "ops": [{"op": "set_bounds_data", "dst": 1, "src": 0, "j": 0, "j2": 0, "sel": "bounds", "how": "direct"}],
     "write": {"regs": [1], "target": "X", "mode": "w", "overwrite": True, "fault": None}},
    # F10c: a transplanted ragged array whose compressed data are in memory and whose count variable is not
    {"bases": ["dsgc", "ef0"], "read_via": "direct", "fam": "corpus-F10c",
     "ops": [{"op": "new_field"}, {"op": "set_data", "dst": 2, "src": 0, "sel": "field", "how": "direct"},
             {"op": "touch", "i": 2, "variant": "inner_to_memory"}],
     "write": {"regs": [2], "target": "X", "mode": "w", "overwrite": True, "fault": None}},
    {"bases": ["gath", "dsgi"], "read_via": "direct", "fam": "corpus-F10c",
     "ops": [{"op": "new_field"}, {"op": "set_data", "dst": 2, "src": 0, "sel": "field", "how": "copy"},
             {"op": "touch", "i": 2, "variant": "inner_to_memory"}, {"op": "copy", "i": 2, "variant": "copy"}],
     "write": {"regs": [3], "target": "LX", "mode": "w", "overwrite": True, "fault": None}},
    {"bases": ["dsgi", "dsgi"], "read_via": "direct", "fam": "corpus-F10c",
     "ops": [{"op": "new_field"}, {"op": "set_data", "dst": 2, "src": 1, "sel": "field", "how": "direct"},
             {"op": "touch", "i": 2, "variant": "inner_to_memory"}],
     "write": {"regs": [2], "target": "Y", "mode": "w", "overwrite": True, "fault": None}},
    # the direct case of test_write_filename
    {"bases": ["ef1", "gath"], "read_via": "direct", "fam": "corpus-direct",
     "ops": [], "write": {"regs": [0], "target": "X", "mode": "w", "overwrite": True, "fault": None}},
    # overwrite disabled, bad format at the same time
    {"bases": ["ef6", "dsgi"], "read_via": "direct", "fam": "corpus-options",
     "ops": [], "write": {"regs": [1], "target": "X", "mode": "w", "overwrite": False, "fault": "fmt"}},
    # written elsewhere through a relative spelling of X while reading it
    {"bases": ["gath", "ef0"], "read_via": "relative", "fam": "corpus-direct",
     "ops": [{"op": "copy", "i": 0, "variant": "transpose"}],
     "write": {"regs": [2], "target": "Xrel", "mode": "w", "overwrite": True, "fault": None}},
]


def gen_cases(rng, tier):
    thorough = tier == "thorough"
    cases = [dict(c) for c in CORPUS]
    # (a) transplants: data of X (field / construct / bounds / ring, bare or re-wrapped) moved
    #     into a fresh field or into the field read from Y, a few derivations either side
    for _ in range(1800 if thorough else 500):
        pre, n = rand_history(rng, 3, 0.0)
        dst_new = rng.random() < 0.5
        ops = list(pre)
        if dst_new:
            ops.append({"op": "new_field"})
            n += 1
        kind = rng.random()
        if kind < 0.6:
            t = {"op": "set_data", "dst": (n - 1) if dst_new else 1, "src": rng.choice([0, 0, 0, rng.randrange(n)]),
                 "sel": rng.choice(["field", "field", "cons", "bounds", "ring"]), "j": rng.randrange(6),
                 "how": rng.choice(["direct", "wrapped", "source", "copy"])}
            wreg = t["dst"]
        elif kind < 0.8:
            t = {"op": "set_bounds_data", "dst": 1, "src": 0, "j": rng.randrange(3), "j2": rng.randrange(4),
                 "sel": rng.choice(["bounds", "cons"]), "how": rng.choice(["direct", "wrapped", "source"])}
            wreg = 1
        else:
            t = {"op": "set_construct", "dst": (n - 1) if dst_new else 1, "src": 0, "j": rng.randrange(6)}
            wreg = t["dst"]
        ops.append(t)
        for _k in range(rng.randrange(0, 3)):
            o = rng.choice([{"op": "copy", "i": wreg, "variant": rng.choice(COPY_VARIANTS)},
                            {"op": "touch", "i": wreg, "variant": rng.choice(TOUCH_VARIANTS), "j": rng.randrange(6)},
                            {"op": "field_source", "i": wreg, "copy": True},
                            {"op": "del_construct", "i": wreg, "j": rng.randrange(6)}])
            ops.append(o)
            if grows(o):
                wreg = n
                n += 1
        w = rand_write(rng, n, wreg)
        if rng.random() < 0.7:
            w["mode"], w["fault"], w["overwrite"] = "w", None, True
            w["target"] = rng.choice(["X", "X", "LX", "Xrel", "Y"])
        cases.append({"bases": [rng.choice(BASES), rng.choice(BASES)],
                      "read_via": rng.choice(["direct", "direct", "direct", "symlink", "relative"]),
                      "ops": ops, "write": w, "fam": "transplant"})
    # (b) random histories
    for _ in range(4400 if thorough else 1100):
        ops, n = rand_history(rng, 8, 0.12)
        cases.append({"bases": [rng.choice(BASES), rng.choice(BASES)],
                      "read_via": rng.choice(["direct", "direct", "direct", "symlink", "relative"]),
                      "ops": ops, "write": rand_write(rng, n), "fam": "history"})
    # (c) options: little or no history, the whole option space, every base kind
    for _ in range(1800 if thorough else 500):
        ops, n = rand_history(rng, 1, 0.0)
        w = rand_write(rng, n)
        w["harmless"] = rng.randrange(N_HARMLESS)
        if rng.random() < 0.5:
            w["target"] = rng.choice(["Y", "Z", "Z"])  # a write that is allowed to go ahead
            w["regs"] = [0]
        cases.append({"bases": [rng.choice(BASES), rng.choice(BASES)], "read_via": "direct",
                      "ops": ops, "write": w, "fam": "options"})
    for i, c in enumerate(cases):
        c["id"] = i
        if c["ops"] and c["ops"][-1]["op"] == "get_domain":
            c["ops"][-1] = dict(c["ops"][-1], last=True)
    return cases


# ---- the property oracle on the implementation ----------------------------------------
def real_id(n):
    return 1 if n == 3 else n


def classify_destroyed(case, r, k):
    tid = NAME_ID[case["write"]["target"]]
    orig = set(r["written_aggs"][k][0])
    if tid in orig:
        return "direct"
    if real_id(tid) in {real_id(n) for n in orig if isinstance(n, int)}:
        return "symlink"
    return "transplant"


def oracle(chk, case, r):
    """Returns True when the property oracle rejected the case."""
    w = case["write"]
    bad = False
    inp = {"case": case}
    eff = dict(effects(r))
    tid = NAME_ID[w["target"]]
    mode_w = w["mode"] == "w"
    if r["inputs_changed"]:
        bad = True
        parts = sorted({p for ch in r["inputs_changed"] for p in ch["parts"]})
        chk.fail("property", "inputs-changed:" + "+".join(parts)[:60],
                 f"a construct was changed by cfdm.write ({w}): {r['inputs_changed'][0]}"[:500],
                 {"input": inp, "observed": r["inputs_changed"][:3]})
    if r.get("values_bad"):
        bad = True
        chk.fail("property", "data-unreadable-after-write:" + ("append" if not mode_w else classify_destroyed(case, r, 0)),
                 f"after cfdm.write the data of a construct can no longer be read as before: {r['values_bad'][0]}"[:500],
                 {"input": inp, "observed": r["values_bad"][:3], "error": r["error"]})
    if mode_w:
        for k, needed in enumerate(r["needed"]):
            for n in needed:
                if isinstance(n, int) and eff.get(real_id(n), 0) != 0:
                    bad = True
                    chk.fail("property", "needed-file-destroyed:" + classify_destroyed(case, r, k),
                             f"write(mode='w') to {w['target']} altered file {n} from which the written construct "
                             f"still has unread data (error: {r['error']})",
                             {"input": inp, "expected": "ValueError before the file is touched",
                              "observed": {"before": r["before"], "after": r["after"], "error": r["error"]}})
                    break
    if r.get("append_lost"):
        bad = True
        chk.fail("property", "append-damaged-existing-variables",
                 f"append changed variables that were in the file: {r['append_lost']}",
                 {"input": inp, "observed": r["append_lost"]})
    if mode_w and not w.get("overwrite", True) and r["before"][{"Xrel": "X"}.get(w["target"], w["target"])] is not None:
        if r["error"] is None or any(v != 0 for v in eff.values()):
            bad = True
            chk.fail("property", "no-overwrite-violated",
                     "overwrite=False on an existing file did not leave it intact / did not raise",
                     {"input": inp, "observed": {"before": r["before"], "after": r["after"], "error": r["error"]}})
    if r["error"] is not None and r["fault"][0] != "late" and w["mode"] in ("w", "x"):
        if any(v != 0 for v in eff.values()):
            bad = True
            chk.fail("property", "refused-after-touching",
                     f"the write was refused ({r['error']}) but a file had already been altered",
                     {"input": inp, "observed": {"before": r["before"], "after": r["after"]}})
    for k, needed in enumerate(r["needed"]):
        if sorted(map(str, needed)) != sorted(map(str, r["written_aggs"][k][1])):
            bad = True
            chk.fail("property", "get_filenames-incomplete",
                     f"get_filenames() = {r['written_aggs'][k][1]} but the construct's arrays are in {needed}",
                     {"input": inp, "expected": needed, "observed": r["written_aggs"][k][1]})
    # the guard refuses exactly the requests that name a consulted file
    if mode_w and r["fault"][0] == "none" and (w.get("overwrite", True) or r["before"][{"Xrel": "X"}.get(w["target"], w["target"])] is None):
        consulted = set()
        for o_, f_ in r["written_aggs"]:
            consulted.update(x for x in o_ + f_ if isinstance(x, int))
        expect_refuse = real_id(tid) in {real_id(n) for n in consulted}
        if (r["error"] is not None) != expect_refuse and not bad:
            bad = True
            chk.fail("property", "spurious-refusal" if r["error"] is not None else "guard-did-not-refuse",
                     f"write to {w['target']} of constructs recorded in {sorted(consulted)}: error {r['error']}",
                     {"input": inp, "expected": "refused" if expect_refuse else "written", "observed": r["error"]})
    return bad


def nontrivial(case, r):
    applied = [s for s in r["steps"] if "op" in s]
    w = case["write"]
    lazy = any(r["needed"]) or any(a[0] for a in r["written_aggs"])
    return bool(applied) and lazy or w["mode"] != "w" or not w.get("overwrite", True) or bool(w.get("fault"))


def run_cases(chk, cases):
    nw = 16
    shards = [cases[i::nw] for i in range(nw)]
    root = os.path.join(chk.scratch, "w")
    res = lib.run_workers_parallel(
        "drive/c10.py", [{"scratch": os.path.join(root, str(k)), "cases": sh} for k, sh in enumerate(shards) if sh],
        timeout=3000)
    rows = {}
    for k, (rc, out, err) in enumerate(res):
        for row in out:
            rows[row.get("id")] = row
        if rc != 0:
            chk.fail("correspondence", "worker-failed", f"C10 worker {k} exited with {rc}: {err[-400:]}",
                     {"correspondence": "drive/c10.py"})
    return rows


def run(chk, model_ok):
    cases = gen_cases(chk.rng, chk.tier)
    rows = run_cases(chk, cases)
    done, lits, lit_cases = [], [], []
    stats = {"crash": 0, "driver_error": 0, "refused": 0, "written": 0, "failed_late": 0, "failed_early": 0,
             "skipped_ops": 0, "applied_ops": 0}
    fam, opk, modes, targets, faults, hist_len, bases = {}, {}, {}, {}, {}, {}, {}
    for c in cases:
        r = rows.get(c["id"])
        if r is None:
            chk.fail("correspondence", "no-result", f"case {c['id']} produced no result", {"correspondence": "drive/c10.py", "input": c})
            continue
        if "crash" in r:
            stats["crash"] += 1
            chk.fail("property", "worker-crash:" + ("append" if c["write"]["mode"] in ("a", "r+") else c["write"]["mode"]),
                     f"the interpreter died (signal {r['crash']}) during the case", {"input": {"case": c}})
            continue
        if "driver_error" in r:
            stats["driver_error"] += 1
            chk.fail("correspondence", "driver-error", r["driver_error"][:400], {"correspondence": "drive/c10.py", "input": c})
            continue
        done.append((c, r))
        explained = oracle(chk, c, r)
        fam[c["fam"]] = fam.get(c["fam"], 0) + 1
        w = c["write"]
        modes[w["mode"]] = modes.get(w["mode"], 0) + 1
        targets[w["target"] + "/" + r["read_via"]] = targets.get(w["target"] + "/" + r["read_via"], 0) + 1
        faults[r["fault"][0]] = faults.get(r["fault"][0], 0) + 1
        for b in c["bases"]:
            bases[b] = bases.get(b, 0) + 1
        applied = [s for s in r["steps"] if "op" in s]
        stats["applied_ops"] += len(applied)
        stats["skipped_ops"] += len(r["steps"]) - len(applied)
        hist_len[len(applied)] = hist_len.get(len(applied), 0) + 1
        for s in applied:
            opk[s["op"][0]] = opk.get(s["op"][0], 0) + 1
        if r["error"] is None:
            stats["written"] += 1
        elif r["fault"][0] == "late":
            stats["failed_late"] += 1
        elif r["fault"][0] != "none":
            stats["failed_early"] += 1
        else:
            stats["refused"] += 1
        try:
            lits.append(literal(c, r))
            lit_cases.append((c, r, explained))
        except BadName as e:
            chk.fail("correspondence", "unexpected-file-name", f"a construct names a file outside the case: {e}",
                     {"correspondence": "drive/c10.py", "input": c})

    ncorr = 0
    if model_ok and lits:
        bad = lib.coq_bad_indices("C10", REQ, "check_case", lits, chunk=120)
        ncorr = len(lits)
        for i in bad[:40]:
            c, r, explained = lit_cases[i]
            if explained:
                continue
            try:
                diag = lib.coq_eval(REQ, f"diag_case {lits[i]}").split("=")[-1].split(":")[0].strip()
            except Exception as e:  # noqa
                diag = "?"
            chk.fail("correspondence", "model-vs-impl",
                     f"model and implementation disagree (diagnosis {diag}: 1 initial aggregates, 10+k / 500+k step k or "
                     "its reported file names, 1000 error class, 1001 file effects)",
                     {"correspondence": "C10.Run.check_case", "input": {"case": c},
                      "observed": {"steps": [{k: v for k, v in s.items() if k != "tree"} for s in r["steps"]],
                                   "fault": r["fault"], "error": r["error"], "effects": effects(r),
                                   "aggs": r["written_aggs"], "needed": r["needed"]}})

    distinct = {lib.canon([c["bases"], c["read_via"], [s.get("op") for s in r["steps"] if "op" in s], c["write"]])
                for c, r in done if nontrivial(c, r)}
    samples = [done[i][0] for i in (0, len(done) // 2, len(done) - 1)] if done else []
    chk.coverage.update({
        "evaluations": len(done),
        "distinct_nontrivial": len(distinct),
        "rule": "a case = two generated base files (6 kinds: plain, geometry with interior ring, DSG contiguous / indexed "
                "ragged, gathered, many-construct) read lazily (directly, through a symbolic link or by a relative name), "
                "a derivation history of 0-8 operations applied to the constructs, then one cfdm.write of the result over "
                "one of the files (or a link to it, a relative spelling, another file, a new file) with mode / overwrite / "
                "option faults drawn at random; non-trivial = at least one operation applied and the written construct "
                "still records or needs a file, or the write is not a plain mode-w overwrite; distinct = canonical JSON of "
                "(bases, read spelling, resolved operations, write)",
        "samples": samples,
        "traces_validated_against_impl": ncorr,
        "disagreements_checked": ncorr,
        "families": fam, "operations_applied": opk, "modes": modes, "target_by_read_spelling": targets,
        "fault_class_observed": faults, "history_length": {str(k): v for k, v in sorted(hist_len.items())},
        "base_kinds": bases, "outcomes": stats,
        "exhaustive": False,
        "historical_refutations": "C10/Refuted.v: guard before C10-fix-1 refuted by a transplant history (F10a) and by a "
                                  "symbolic link (F10b); get_filenames() before the fix shown incomplete (F10c)",
    })
    chk.assumptions += [
        "a file is identified by what os.path.realpath gives; symbolic links point at regular files (Spec.wf_fs); hard links "
        "and links to directories are outside the model (replacing one name of a hard-linked file leaves the other intact)",
        "'fails part-way' means a Python exception (bad option value, unwritable value, unknown format); a crash of the process "
        "or of the machine mid-write is outside the model",
        "append mode is content-preserving rather than refused: the check requires that every variable that was in the file is "
        "unchanged and that every lazy array of the inputs still reads the same values",
        "the writer's handling of its inputs (working on a copy) is checked on the implementation by a structural fingerprint "
        "of every construct held by the program before and after each write (properties, netCDF names, dtypes, shapes, "
        "compression type and ancillary variables, laziness and file names), not proved in the model",
        "every derivation may bring any array into memory (refinement relation of Model.v); which ones do is observed, not modelled",
    ]


def replay(chk, path):
    d = json.load(open(path))
    cases = []
    for x in d.get("cases", []):
        c = (x.get("input") or {}).get("case")
        if c:
            c = dict(c)
            c["id"] = len(cases)
            cases.append(c)
    rows = run_cases(chk, cases)
    nbad = 0
    for c in cases:
        r = rows.get(c["id"], {})
        if "crash" in r or "driver_error" in r or not r:
            print("FAIL", json.dumps(c)[:200], r)
            nbad += 1
            continue
        n0 = len(chk.failures)
        oracle(chk, c, r)
        ok = len(chk.failures) == n0
        print(("ok   " if ok else "FAIL ") + json.dumps(c["write"]), "error:", r["error"], "effects:", effects(r))
        for f in chk.failures[n0:]:
            print("     ", f.signature, "-", f.what[:200])
        nbad += not ok
    return 1 if nbad else 0
