"""C20 - global settings are restored (DESIGN.md section 4, C20)."""
import itertools
import json

import lib
from lib import gz, gstr, gbool, gnat

REQ = "From CfdmV Require Import Common.Base C20.Model C20.Run.\nOpen Scope string_scope."
LEVELS = ["DISABLE", "WARNING", "INFO", "DETAIL", "DEBUG"]
VERBOSE = [None, ["int", -1], ["int", 0], ["int", 1], ["int", 2], ["int", 3],
           ["int", 7], ["int", -5], ["str", "info"], ["str", "DeTaIl"], ["str", "DISABLE"],
           ["str", "debug"], ["str", "bad"], ["bool", True], ["bool", False]]


# ---- Gallina printers ------------------------------------------------------
def g_val(v):
    if v is None:
        return "None"
    if v[0] == "num":
        return f"(Some (NNum {gz(v[1])}))"
    if v[0] == "name":
        return f"(Some (NName {gstr(v[1])}))"
    return "(Some NBad)"


def g_val1(v):
    if v[0] == "num":
        return f"(NNum {gz(v[1])})"
    if v[0] == "name":
        return f"(NName {gstr(v[1])})"
    return "NBad"


def g_verbose(v):
    if v is None:
        return "VNone"
    if v[0] == "int":
        return f"(VInt {gz(v[1])})"
    if v[0] == "str":
        return f"(VStr {gstr(v[1])})"
    return f"(VBool {gbool(v[1])})"


def g_call(t):
    b = "Ret" if t["b"]["end"] == "ret" else "Raise"
    for sub, catch in reversed(t["b"]["items"]):
        b = f"(Then {g_call(sub)} {gbool(catch)} {b})"
    return f"(Call {g_verbose(t['v'])} {b})"


KEY = {"atol": "KAtol", "rtol": "KRtol", "level": "KLevel"}


def g_stmt(st):
    k = st[0]
    if k == "set":
        return f"(SSet {KEY[st[1]]} {g_val1(st[2])})"
    if k == "with":
        return f"(SWith {KEY[st[1]]} {g_val1(st[2])} {g_block(st[3])})"
    if k == "config":
        return f"(SWithConfig {g_val(st[1])} {g_val(st[2])} {g_val(st[3])} {g_block(st[4])})"
    if k == "call":
        return f"(SCall {g_call(st[1])})"
    return "SRaise"


def g_block(b):
    out = "BNil"
    for st in reversed(b):
        out = f"(BCons {g_stmt(st)} {out})"
    return out


def g_full(e):
    return f"({gstr(e[0])}, {gz(e[1])}, {gz(e[2])}, {gnat(e[3])}, {gz(e[4])}, {gz(e[5])})"


# ---- generators --------------------------------------------------------------
def rand_val(rng, key):
    r = rng.random()
    if key == "level":
        if r < 0.45:
            return ["name", rng.choice(LEVELS + ["info", "Debug", "disable"])]
        if r < 0.8:
            return ["num", rng.choice([-1, 0, 1, 2, 3])]
        if r < 0.9:
            return ["num", rng.choice([7, -3, 99])]
        return ["bad"]
    if r < 0.85:
        return ["num", rng.choice([0, 1, 5, 1000, 2000, 123456])]
    return ["bad"]


def rand_call(rng, depth):
    items = []
    if depth > 0:
        for _ in range(rng.choice([0, 1, 1, 2])):
            items.append([rand_call(rng, depth - 1), rng.random() < 0.5])
    return {"v": rng.choice(VERBOSE), "b": {"items": items, "end": rng.choice(["ret", "ret", "raise"])}}


def rand_block(rng, depth, allow_set):
    n = rng.choice([1, 1, 2, 3])
    out = []
    for _ in range(n):
        r = rng.random()
        if r < 0.35:
            out.append(["call", rand_call(rng, min(depth, 2))])
        elif r < 0.6 and depth > 0:
            key = rng.choice(["atol", "rtol", "level", "level"])
            out.append(["with", key, rand_val(rng, key), rand_block(rng, depth - 1, allow_set)])
        elif r < 0.78 and depth > 0:
            out.append(["config",
                        rand_val(rng, "atol") if rng.random() < 0.6 else None,
                        rand_val(rng, "rtol") if rng.random() < 0.6 else None,
                        rand_val(rng, "level") if rng.random() < 0.6 else None,
                        rand_block(rng, depth - 1, allow_set)])
        elif r < 0.9 and allow_set:
            key = rng.choice(["atol", "rtol", "level"])
            out.append(["set", key, rand_val(rng, key)])
        elif r < 0.95:
            out.append(["raise"])
        else:
            out.append(["call", rand_call(rng, 1)])
    return out


def bracketed(b):
    for st in b:
        if st[0] == "set":
            return False
        if st[0] == "with" and not bracketed(st[3]):
            return False
        if st[0] == "config" and not bracketed(st[4]):
            return False
    return True


def must_restore(b):
    """The whole observable state must be as before: every top-level statement is a
    configuration block (restores everything whatever its body does - C20_config_restores_all)
    or is bracketed (C20_context_restores)."""
    return all(st[0] == "config" or bracketed([st]) for st in b)


def prelude(rng):
    r = rng.random()
    if r < 0.3:
        return []
    pre = [["set", "level", ["name", rng.choice(LEVELS)]]]
    if rng.random() < 0.5:
        pre.append(["set", "level", ["name", rng.choice(LEVELS)]])
    if rng.random() < 0.3:
        pre.append(["set", "atol", ["num", 7]])
    return pre


def exhaustive_calls(depth):
    """All call trees over a reduced verbose alphabet up to the given depth."""
    vs = [None, ["int", 0], ["int", 3], ["int", -1], ["str", "bad"], ["bool", False]]
    leafs = [{"v": v, "b": {"items": [], "end": e}} for v in vs for e in ("ret", "raise")]
    if depth == 0:
        return leafs
    subs = exhaustive_calls(depth - 1)
    out = list(leafs)
    for v in vs:
        for sub in subs:
            for catch in (False, True):
                for e in ("ret", "raise"):
                    out.append({"v": v, "b": {"items": [[sub, catch]], "end": e}})
    return out


LEVEL_INT = {"DISABLE": 0, "WARNING": 1, "INFO": 2, "DETAIL": 3, "DEBUG": -1}


def py_norm(v):
    """What the documentation says a verbose value means: None -> "none"; an integer code in
    -1..3 (booleans: True -> 3, False -> 0; names in any case) -> that code; anything else -> "invalid"."""
    if v is None:
        return "none"
    if v[0] == "bool":
        return 3 if v[1] else 0
    if v[0] == "int":
        return v[1] if v[1] in (-1, 0, 1, 2, 3) else "invalid"
    return LEVEL_INT.get(v[1].upper(), "invalid")


def hands_down(tree, z):
    """every nested call is handed the verbosity z (in any spelling), none, or an invalid one
    (which is rejected before anything happens)"""
    for sub, _ in tree["b"]["items"]:
        n = py_norm(sub["v"])
        if n not in ("none", "invalid", z):
            return False
        if not hands_down(sub, z):
            return False
    return True


SPELL = {-1: [["int", -1], ["str", "debug"], ["str", "DEBUG"]], 0: [["int", 0], ["bool", False], ["str", "Disable"]],
         1: [["int", 1], ["str", "warning"]], 2: [["int", 2], ["str", "INFO"]],
         3: [["int", 3], ["bool", True], ["str", "detail"]]}


def uniform_call(rng, z, depth, top=True):
    """a call tree in which the top-level verbosity z is handed down unchanged, or not at all"""
    items = []
    if depth > 0:
        for _ in range(rng.choice([1, 1, 2, 3] if top else [0, 1, 1, 2])):
            items.append([uniform_call(rng, z, depth - 1, False), rng.random() < 0.5])
    if top:
        v = rng.choice(SPELL[z])
    else:
        r = rng.random()
        v = None if r < 0.45 else (rng.choice(SPELL[z]) if r < 0.93 else ["str", "bad"])
    return {"v": v, "b": {"items": items, "end": rng.choice(["ret", "ret", "raise"])}}


EXC_KINDS = ["Exception", "Exception", "Exception", "BaseException", "KeyboardInterrupt", "SystemExit", "GeneratorExit"]


def g_probes(tr):
    return "[" + "; ".join(f"({gstr(p[0])}, {gz(p[1])}, {gz(p[2])})" for p in tr) + "]"


def eff(e):
    """effective observable state (Model.obs) of a full state row"""
    return [e[0], e[1], 0 if e[0] == "DISABLE" else e[2], e[4], e[5]]


def nontrivial(c):
    s = json.dumps(c["b"])
    return any(k in s for k in ('"int"', '"str"', '"bool"', '"with"', '"config"', '"set"'))


# ---- the check -----------------------------------------------------------------
def run(chk, model_ok):
    rng = chk.rng
    thorough = chk.tier == "thorough"
    cases = []
    # (a) exhaustive decorated call trees from every level
    depth = 2 if thorough else 1
    trees = exhaustive_calls(depth)
    if not thorough:
        # depth 2 sampled
        d2 = exhaustive_calls(2)
        trees = trees + rng.sample(d2, 600)
    else:
        # depth 3 sampled: a random depth-2 tree under each wrapper shape
        d2 = trees
        vs = [None, ["int", 0], ["int", 3], ["int", -1], ["str", "bad"], ["bool", False]]
        d3 = [{"v": rng.choice(vs), "b": {"items": [[rng.choice(d2), rng.random() < 0.5]] +
                                                  ([[rng.choice(d2), rng.random() < 0.5]] if rng.random() < 0.3 else []),
                                        "end": rng.choice(["ret", "raise"])}} for _ in range(4000)]
        trees = trees + d3
    for lvl in LEVELS:
        for t in trees:
            cases.append({"pre": [["set", "level", ["name", lvl]]], "b": [["call", t]], "fam": "calltree"})
    # (b) random blocks (context managers interleaved with calls and setters)
    nblocks = 20000 if thorough else 1500
    for _ in range(nblocks):
        allow_set = rng.random() < 0.4
        cases.append({"pre": prelude(rng), "b": rand_block(rng, 4 if thorough and rng.random() < 0.3 else 3, allow_set), "fam": "block"})
    # (b2) uniform call trees: the verbosity of the outermost call handed down unchanged (any
    #      spelling) or not at all, to depth 3 - what cfdm's own functions do
    for _ in range(6000 if thorough else 900):
        z = rng.choice([-1, 0, 1, 2, 3])
        cases.append({"pre": [["set", "level", ["name", rng.choice(LEVELS)]]],
                      "b": [["call", uniform_call(rng, z, rng.choice([1, 2, 2, 3]))]], "fam": "uniform"})
    # the class of the exception that leaves a block or a call: the finally clauses must not care
    for c in cases:
        c["exc"] = rng.choice(EXC_KINDS)
    # corpus first
    corpus = [
        {"pre": [], "b": [["call", {"v": ["str", "bad"], "b": {"items": [], "end": "ret"}}],
                          ], "fam": "corpus-F20a"},
        # a call left by an exception that is not an Exception (second-round seed C20-s4)
        {"pre": [], "b": [["call", {"v": ["int", 3], "b": {"items": [], "end": "raise"}}]], "fam": "corpus-base-exception",
         "exc": "KeyboardInterrupt"},
        {"pre": [], "b": [["call", {"v": ["int", 2], "b": {"items": [[{"v": ["int", 2], "b": {"items": [[{"v": None, "b": {"items": [], "end": "raise"}}, False]], "end": "ret"}}, False]], "end": "ret"}}]],
         "fam": "corpus-base-exception", "exc": "GeneratorExit"},
        # the override must survive the return of a nested call (second-round seed C20-s5)
        {"pre": [], "b": [["call", {"v": ["int", 3], "b": {"items": [[{"v": None, "b": {"items": [], "end": "ret"}}, False],
                                                                   [{"v": ["int", 3], "b": {"items": [], "end": "ret"}}, False]], "end": "ret"}}]],
         "fam": "corpus-override-persists"},
        {"pre": [], "b": [["call", {"v": None, "b": {"items": [[{"v": ["int", 3], "b": {"items": [], "end": "ret"}}, False]], "end": "ret"}}]], "fam": "corpus-F20b"},
        {"pre": [["set", "level", ["name", "DISABLE"]]], "b": [["call", {"v": ["int", 0], "b": {"items": [], "end": "ret"}}]], "fam": "corpus-F20c"},
    ]
    cases = corpus + cases

    # run the implementation in worker processes
    nw = 8
    shards = [cases[i::nw] for i in range(nw)]
    res = lib.run_workers_parallel("drive/c20.py", [{"mode": "blocks", "cases": sh} for sh in shards])
    rows = [None] * len(cases)
    for w, (rc, out, err) in enumerate(res):
        if rc != 0 or len(out) != len(shards[w]):
            chk.fail("correspondence", "worker-crash", f"C20 worker {w} failed rc={rc}: {err[-500:]}",
                     {"correspondence": "drive/c20.py"})
            continue
        for j, row in enumerate(out):
            rows[w + j * nw] = row
    done = [(c, r) for c, r in zip(cases, rows) if r is not None]

    # property oracle on the implementation
    for c, r in done:
        if r["exc"] and r["exc"].startswith("UNEXPECTED"):
            chk.fail("property", "unexpected-exception",
                     f"block raised {r['exc']}", {"input": c, "observed": r})
        if must_restore(c["b"]):
            if eff(r["e0"]) != eff(r["e1"]) or r["e1"][3] != 0:
                sig = classify(c, r)
                chk.fail("property", sig,
                         f"state not restored: before {r['e0']} after {r['e1']}",
                         {"input": c, "before": r["e0"], "after": r["e1"]})

    # what is in force DURING a call (C20_override_persists): for a single decorated call with a
    # valid explicit verbosity that is handed down unchanged or not at all, every probe taken
    # inside it - at the start of each body, after each nested call - shows the same logging state
    nprobe = 0
    for c, r in done:
        if len(c["b"]) == 1 and c["b"][0][0] == "call":
            t = c["b"][0][1]
            z = py_norm(t["v"])
            if z in ("none", "invalid") or not hands_down(t, z) or not r.get("tr"):
                continue
            nprobe += 1
            first = r["tr"][0]
            exp_root = {-1: 10, 1: 30, 2: 20, 3: 15}.get(z)
            ok = all(p == first for p in r["tr"])
            if ok and z != 0 and (first[1] != 0 or first[2] != exp_root):
                ok = False
            if ok and z == 0 and first[1] != 50:
                ok = False
            if not ok:
                chk.fail("property", "override-not-in-force-throughout-the-call",
                         f"verbose={t['v']} (level code {z}) from {r['e0'][0]}: the logging state seen inside the call is "
                         f"not the one the verbosity asks for at every point: {r['tr'][:8]}",
                         {"input": c, "observed": r})

    # correspondence with the model
    ncorr = 0
    if model_ok:
        lits = [f"({g_block(c['pre'])}, {g_block(c['b'])}, {g_full(r['e0'])}, {g_full(r['e1'])}, {gbool(r['exc'] is not None)})"
                for c, r in done]
        bad = lib.coq_bad_indices("C20", REQ, "check_case", lits, chunk=400)
        ncorr = len(lits)
        # the probes taken inside single decorated calls against Trace.trace_call
        tdone = [(c, r) for c, r in done if len(c["b"]) == 1 and c["b"][0][0] == "call"]
        tlits = [f"({g_block(c['pre'])}, {g_call(c['b'][0][1])}, {g_full(r['e0'])}, {g_probes(r['tr'])})" for c, r in tdone]
        tbad = lib.coq_bad_indices("C20", REQ, "check_trace", tlits, chunk=400)
        ncorr += len(tlits)
        for i in tbad[:50]:
            c, r = tdone[i]
            chk.fail("correspondence", "model-vs-impl:trace",
                     "model and implementation disagree on the logging state seen inside a decorated call",
                     {"correspondence": "C20.Run.check_trace", "input": c, "observed": r})
        for i in bad[:50]:
            c, r = done[i]
            # a disagreement on a case the property oracle already rejected is explained by it
            if must_restore(c["b"]) and (eff(r["e0"]) != eff(r["e1"]) or r["e1"][3] != 0):
                continue
            chk.fail("correspondence", "model-vs-impl",
                     "model and implementation disagree on the final state/outcome of a block",
                     {"correspondence": "C20.Run.check_case", "input": c, "observed": r})

    # (c) every really decorated cfdm function, by reflection
    rc, out, err = lib.run_worker("drive/c20.py", {
        "mode": "reflect", "levels": ["WARNING", "DISABLE", "DEBUG"] if not thorough else LEVELS,
        "verbose": [None, ["int", 0], ["int", 3], ["int", -1], ["str", "bad"], ["bool", True], ["int", 7]]})
    nreflect = len(out)
    fnames = sorted({r["fn"] for r in out})
    if rc != 0 or not out:
        chk.fail("correspondence", "worker-crash", f"reflection worker failed: {err[-800:]}",
                 {"correspondence": "drive/c20.py reflect"})
    for r in out:
        if eff(r["before"]) != eff(r["after"]) or r["after"][3] != 0:
            cls = classify_v(r["v"], r["level"])
            chk.fail("property", "disable-verbose0" if cls == "disable-verbose0" else "decorated-function-leaks:" + cls,
                     f"{r['fn']}(verbose={r['v']}) at level {r['level']}: before {r['before']} after {r['after']}",
                     {"input": r})

    # (d) tolerances passed to an equality test are local: pairs differing by 0.5 in one element,
    #     reached through different nestings of equals (field data, coordinate bounds, domain
    #     ancillary, Constructs, compressed arrays with and without ignore_compression)
    rc, out, err = lib.run_worker("drive/c20.py", {"mode": "equals"})
    out = [r for r in out if "skip" not in r]
    if rc != 0 or len(out) < 40:
        chk.fail("correspondence", "worker-crash", f"equals worker failed: {err[-800:]}",
                 {"correspondence": "drive/c20.py equals"})
    for r in out:
        tag = f"{r['pair']} {r['kw']}"
        if "exc" in r:
            chk.fail("property", "equals-raises", f"{tag}: equals raised {r['exc']}", {"input": r})
            continue
        exp_local = r["loc"] == 1000
        exp_global = r["glob"] == 1000
        if r["before"] != r["mid"] or r["mid"] != r["after"]:
            chk.fail("property", "equals-changes-globals", f"{tag}: equals changed the global settings: {r}", {"input": r})
        if r["r_local"] != exp_local or r["r_local_rev"] != exp_local:
            chk.fail("property", "equals-reads-global-tolerance",
                     f"{tag}: equals(atol={r['loc']}, rtol={r['loc']}) with global {r['glob']} gave {r['r_local']}/{r['r_local_rev']}, expected {exp_local}",
                     {"input": r})
        if r["r_global"] != exp_global:
            chk.fail("property", "equals-ignores-global-tolerance",
                     f"{tag}: equals() with global tolerance {r['glob']} gave {r['r_global']}", {"input": r})
        if not r["r_self"]:
            chk.fail("property", "equals-own-copy", f"{tag}: not equal to its own copy with zero tolerances", {"input": r})

    distinct = {lib.canon([c["pre"], c["b"]]) for c, r in done if nontrivial(c)}
    fam = {}
    for c, r in done:
        fam[c["fam"]] = fam.get(c["fam"], 0) + 1
    chk.coverage.update({
        "evaluations": len(done) + nreflect + len(out),
        "distinct_nontrivial": len(distinct),
        "rule": "uniform call trees (the outermost verbosity handed down in any spelling, or not at all) to depth 3 with probes inside every body; every raise uses one of five exception classes (two of them not Exception subclasses); call trees: exhaustive over 6 verbose classes x {return, raise} x {caught, uncaught} to depth "
                f"{depth} (+ sampled depth 2 in quick) from each of the 5 levels; blocks: seeded random nesting of with-blocks, "
                "configuration blocks, decorated calls, setters and raises to depth 3; a case is non-trivial when its "
                "block contains at least one verbose override, context manager or setter; distinct = distinct canonical JSON",
        "samples": [done[0][0], done[len(done) // 2][0], done[-1][0]],
        "traces_validated_against_impl": ncorr,
        "disagreements_checked": ncorr,
        "families": fam,
        "raised_cases": sum(1 for c, r in done if r["exc"]),
        "bracketed_cases": sum(1 for c, r in done if bracketed(c["b"])),
        "must_restore_cases": sum(1 for c, r in done if must_restore(c["b"])),
        "calls_probed_for_override_in_force": nprobe,
        "probes_taken": sum(len(r.get("tr") or []) for c, r in done),
        "exception_classes": {k: sum(1 for c, r in done if c.get("exc") == k) for k in sorted(set(EXC_KINDS))},
        "nesting_counters_observable": (done[0][1].get("counters") if done else None),
        "equals_pairs": len(out),
        "decorated_functions_found": fnames,
        "reflection_calls": nreflect,
        "exhaustive": False,
        "historical_refutations": "C20/Refuted.v: three witnesses against the decorator as it was at the pinned commit (F20a, F20b, F20c)",
    })
    chk.assumptions += [
        "observable state = (log_level(), logging.root.manager.disable, root logger level unless globally DISABLEd, atol(), rtol()) - Model.obs",
        "initial states are those reachable through cfdm.log_level/atol/rtol (Model.consistent); logging reconfigured behind cfdm's back is out of scope",
        "bodies of decorated functions do not themselves call the setters outside a with-block",
        "thread-safety of the counter is not modelled (the code says so itself)",
    ]


def classify_v(v, level):
    if v is None:
        return "none"
    if v[0] == "str" and v[1].upper() not in LEVELS or (v[0] == "int" and v[1] not in (-1, 0, 1, 2, 3)):
        return "invalid-verbose"
    if level == "DISABLE" and (v == ["int", 0] or v == ["bool", False]):
        return "disable-verbose0"
    return "valid-verbose"


def norm0(v):
    return v is not None and (v == ["int", 0] or v == ["bool", False]
                              or (v[0] == "str" and v[1].upper() == "DISABLE"))


def has_top_v0(b):
    for st in b:
        if st[0] == "call" and norm0(st[1]["v"]):
            return True
        if st[0] == "with" and has_top_v0(st[3]):
            return True
        if st[0] == "config" and has_top_v0(st[4]):
            return True
    return False


def classify(c, r):
    """Signature of a restoration failure (for known_findings matching)."""
    s = json.dumps(c["b"])
    e0, e1 = r["e0"], r["e1"]
    if (has_top_v0(c["b"]) and e1[0] == "DISABLE" and e1[1] == 0 and e1[3] == 0
            and e0[0] == "DISABLE" and e0[4:] == e1[4:]):
        return "disable-verbose0"  # F20c
    if r["e1"][3] != 0:
        return "counter-leak"
    if '"call"' in s and '"with"' not in s and '"config"' not in s:
        return "verbose-override-not-undone"
    return "context-manager-not-restored"


def replay(chk, path):
    d = json.load(open(path))
    cases = [x["input"] for x in d.get("cases", []) if "input" in x and "b" in x.get("input", {})]
    rc, out, err = lib.run_worker("drive/c20.py", {"mode": "blocks", "cases": cases})
    bad = 0
    for c, r in zip(cases, out):
        ok = not must_restore(c["b"]) or (eff(r["e0"]) == eff(r["e1"]) and r["e1"][3] == 0)
        print(("ok   " if ok else "FAIL ") + json.dumps(c["b"])[:200], r["e0"], "->", r["e1"])
        bad += not ok
    return 1 if bad else 0
