"""C07 - masking and unpacking of file data follow the netCDF conventions (DESIGN.md section 4, C07)."""
import json
import os
import sys

import numpy as np

import lib
from lib import gz, gbool, gopt, glist, gstr

REQ = "From CfdmV Require Import Common.Base C07.Model C07.Spec C07.Run."
DEPENDS = []
MODEL_FILES = ["Model", "Spec", "Run"]

INTS = ["i1", "i2", "i4", "i8", "u1", "u2", "u4", "u8"]
FLOATS = ["f4", "f8"]
DTYPES = INTS + FLOATS
BITS = {"i1": 8, "i2": 16, "i4": 32, "i8": 64, "u1": 8, "u2": 16, "u4": 32, "u8": 64}
F_FILL = int(9.969209968386869e36)          # 15 * 2**119, exact in f4 and f8
DEFAULT_FILL = {"i1": -127, "u1": 255, "i2": -32767, "u2": 65535, "i4": -2147483647, "u4": 4294967295,
                "i8": -9223372036854775806, "u8": 18446744073709551614, "f4": F_FILL, "f8": F_FILL}
MASK_ATTRS = ["missing_value", "valid_min", "valid_max", "valid_range"]
CONFIGS = [(b, m, u) for b in ("netCDF4", "h5netcdf") for m in (True, False) for u in (True, False)]
FBIG = 2 ** 20                                # bound of ordinary float test values


def isint(dt):
    return dt in BITS


def rng_of(dt):
    if dt[0] == "i":
        return -(2 ** (BITS[dt] - 1)), 2 ** (BITS[dt] - 1) - 1
    if dt[0] == "u":
        return 0, 2 ** BITS[dt] - 1
    return -FBIG, FBIG


def in_range(dt, v):
    if v in ("nan", "inf", "-inf"):
        return not isint(dt)
    if isinstance(v, float) and not v.is_integer():
        return not isint(dt)
    if isint(dt):
        lo, hi = rng_of(dt)
        return lo <= v <= hi
    return True


def safe_cast(dt, a):
    """The netCDF4 safe-cast rule on exactly representable values."""
    if a["t"] == "str":
        return False
    return all(in_range(dt, v) for v in a["v"])


# ---------------------------------------------------------------- generators
def other_type(rng, dt):
    """An attribute type different from the variable's."""
    if isint(dt):
        return rng.choice(["i8", "i4", "f8", "f4", "u2", "i2", "u8"])
    return rng.choice(["f8", "f4", "i4", "i2", "i8"])


def fit(t, v):
    """Can the value be stored exactly in an attribute of type t?"""
    if v in ("nan", "inf", "-inf"):
        return t in FLOATS
    if isinstance(v, float):
        return t in FLOATS
    if t in BITS:
        lo, hi = rng_of(t)
        return lo <= v <= hi
    if t == "f4":
        return abs(v) <= 2 ** 24 or v == F_FILL
    return abs(v) <= 2 ** 53 or v == F_FILL


def gen_case(rng, dt, fam="field", subset=None, malformed=False, shape=None):
    lo, hi = rng_of(dt)
    dfill = DEFAULT_FILL[dt]
    small = [v for v in range(-3, 8) if lo <= v <= hi]
    limits = [lo, lo + 1, hi - 1, hi] if isint(dt) else [-FBIG, FBIG]
    pool = small + limits + [dfill]
    if subset is None:
        p = rng.choice([0.15, 0.3, 0.5])
        subset = {a for a in ("_FillValue", "missing_value", "valid_min", "valid_max", "valid_range",
                              "scale_factor", "add_offset", "_Unsigned") if rng.random() < p}
        if rng.random() < 0.25:
            subset -= {"scale_factor", "add_offset", "_Unsigned"}
    attrs = {}
    fill = None
    special = []

    def pick_in():
        r = rng.random()
        if r < 0.5:
            return rng.choice(small)
        if r < 0.75:
            return rng.choice(limits)
        if r < 0.85:
            return dfill
        return rng.randint(max(lo, -1000), min(hi, 1000))

    if "_FillValue" in subset:
        fill = pick_in()
        if not isint(dt) and rng.random() < 0.15:
            fill = "nan"
        special.append(fill)

    def attr_value(name, n):
        """n values and a type for a masking attribute."""
        r = rng.random()
        t = dt if r < 0.55 else other_type(rng, dt)
        vals = []
        for _ in range(n):
            q = rng.random()
            if q < 0.7:
                v = pick_in()
            elif q < 0.8 and t in FLOATS:
                v = "nan"
            elif q < 0.9 and t in BITS and isint(dt):
                tlo, thi = rng_of(t)
                v = rng.choice([tlo, thi, hi + 1 if hi + 1 <= thi else thi, lo - 1 if lo - 1 >= tlo else tlo])
            elif q < 0.95 and t in FLOATS and isint(dt) and abs(hi) < 2 ** 24:
                v = rng.choice([hi + 1, lo - 1])
            else:
                v = pick_in()
            if not fit(t, v):
                v = rng.choice(small)
                if not fit(t, v):
                    v = 1
            vals.append(v)
        return t, vals

    if "missing_value" in subset:
        n = 1 if rng.random() < 0.7 else rng.choice([2, 2, 3])
        t, vals = attr_value("missing_value", n)
        attrs["missing_value"] = {"t": t, "v": vals, "vec": n > 1}
        special += vals
    for name in ("valid_min", "valid_max"):
        if name in subset:
            t, vals = attr_value(name, 1)
            attrs[name] = {"t": t, "v": vals, "vec": False}
            special += vals
    if "valid_range" in subset:
        n = 2
        if malformed and rng.random() < 0.5:
            n = rng.choice([1, 3])
        t, vals = attr_value("valid_range", n)
        if n == 2 and rng.random() < 0.8 and all(isinstance(v, int) for v in vals):
            vals = sorted(vals)
        attrs["valid_range"] = {"t": t, "v": vals, "vec": n > 1}
        special += vals
    inexact = False
    for name in ("scale_factor", "add_offset"):
        if name in subset:
            r = rng.random()
            t = "f4" if r < 0.35 else ("f8" if r < 0.7 else rng.choice(["i2", "i4", "f8", "i1", "u1", "i8", dt]))
            ident = 1 if name == "scale_factor" else 0
            q = rng.random()
            if q < 0.25:
                v = ident
            elif q < 0.3 and t in FLOATS:
                v = "nan"
            elif q < 0.4 and t in FLOATS:
                v = rng.choice([0.5, 0.25, 0.1, 1.5])
                inexact = True
            else:
                v = rng.choice([2, 3, 10, -1, 0, 4, 5, -2] if name == "scale_factor" else [1, 3, -2, 100, 7, -1])
            if not fit(t, v):
                v = ident
            vec = False
            vals = [v]
            if malformed and rng.random() < 0.4:
                vals = [v, 2]
                vec = True
            attrs[name] = {"t": t, "v": vals, "vec": vec}
    if malformed:
        for name in list(attrs):
            if name != "valid_range" and not attrs[name].get("vec") and rng.random() < 0.25:
                # (numeric-looking text is kept for the masking attributes only: as a packing attribute it passes
                # float() and then fails in the arithmetic of cfdm and netCDF4-python alike)
                attrs[name] = {"t": "str", "v": rng.choice(["abc", "12", "x"] if name in MASK_ATTRS else ["abc", "x"])}
    if "_Unsigned" in subset:
        attrs["_Unsigned"] = {"t": "str", "v": rng.choice(["true", "true", "true", "True", "false", "TRUE"])}
    # shape and data
    r = rng.random()
    if shape is None:
        shape = [rng.randint(7, 10)] if r < 0.8 else ([2, 4] if (r < 0.93 or fam == "aux") else [])
    n = int(np.prod(shape)) if shape else 1
    spec_in = []
    for v in special:
        if isinstance(v, int):
            for w in (v, v - 1, v + 1):
                if lo <= w <= hi:
                    spec_in.append(w)
            if isint(dt):
                w = v % (2 ** BITS[dt])          # the value whose unsigned view is v
                if w > hi:
                    w -= 2 ** BITS[dt]
                if lo <= w <= hi:
                    spec_in.append(w)
    data = []
    for _ in range(n):
        q = rng.random()
        if q < 0.45 and spec_in:
            data.append(rng.choice(spec_in))
        elif q < 0.55:
            data.append(dfill)
        elif q < 0.65 and not isint(dt):
            data.append("nan")
        elif q < 0.75:
            data.append(rng.choice(limits))
        else:
            data.append(rng.choice(small) if rng.random() < 0.7 else rng.randint(max(lo, -1000), min(hi, 1000)))
    idx = None
    if shape:
        idx = []
        for m in shape:
            q = rng.random()
            if q < 0.5:
                a = rng.randint(0, m - 1)
                idx.append(["slice", a, rng.randint(a + 1, m), rng.choice([None, 1, 2])])
            elif q < 0.7:
                idx.append(["slice", None, None, -1 if rng.random() < 0.5 else -2])
            else:
                idx.append(["list", sorted(rng.sample(range(m), rng.randint(1, min(3, m))))])
    return {"dt": dt, "shape": shape, "data": data, "fill": fill, "attrs": attrs, "idx": idx,
            "kind": "aux" if fam == "aux" else "field", "fam": fam, "inexact": inexact, "malformed": malformed,
            "endian": pick_endian(rng), "bendian": pick_endian(rng)}


ENDIANS = ["native", "big", "big", "little", "native"]


def pick_endian(rng):
    """Stored byte order of a variable (createVariable(endian=)); "bendian" is that of its bounds."""
    return rng.choice(ENDIANS)


def g_bo(c):
    """Gallina byte order of the stored variable (this harness runs on a little-endian machine)."""
    e = c.get("endian", "native")
    if e == "native":
        e = sys.byteorder
    return "BE" if e == "big" else "LE"


CORPUS = [
    # F07a: missing_value = NaN
    {"dt": "f8", "shape": [4], "data": [1, "nan", 3, F_FILL], "fill": None,
     "attrs": {"missing_value": {"t": "f8", "v": ["nan"], "vec": False}}, "idx": [["slice", 1, 3, None]],
     "kind": "field", "fam": "corpus-F07a", "inexact": False, "malformed": False},
    # F07b: vector missing_value
    {"dt": "i2", "shape": [6], "data": [1, 2, 3, 4, 5, -32767], "fill": None,
     "attrs": {"missing_value": {"t": "i2", "v": [2, 4], "vec": True}}, "idx": [["slice", 0, 4, 2]],
     "kind": "field", "fam": "corpus-F07b", "inexact": False, "malformed": False},
    # F07c: _Unsigned on a float variable
    {"dt": "f4", "shape": [3], "data": [1, 2, 3], "fill": None,
     "attrs": {"_Unsigned": {"t": "str", "v": "true"}}, "idx": [["slice", 0, 2, None]],
     "kind": "field", "fam": "corpus-F07c", "inexact": False, "malformed": False},
    # F07e: vector scale_factor
    {"dt": "i2", "shape": [3], "data": [1, 2, 3], "fill": None,
     "attrs": {"scale_factor": {"t": "f8", "v": [2, 3], "vec": True}}, "idx": [["slice", 0, 2, None]],
     "kind": "field", "fam": "corpus-F07e", "inexact": False, "malformed": True},
    # round 3 seed: the _Unsigned view type lost the byte order of the data (big-endian variable)
    {"dt": "i2", "shape": [5], "data": [1, 258, -2, -7, 300], "fill": None, "endian": "big", "bendian": "big",
     "attrs": {"_Unsigned": {"t": "str", "v": "true"}, "valid_max": {"t": "i2", "v": [-3], "vec": False}},
     "idx": [["slice", 1, 4, None]], "kind": "field", "fam": "corpus-big-endian-unsigned", "inexact": False, "malformed": False},
    {"dt": "i4", "shape": [4], "data": [1, 65536, -2, 16777216], "fill": None, "endian": "big", "bendian": "little",
     "attrs": {"_Unsigned": {"t": "str", "v": "true"}, "scale_factor": {"t": "f8", "v": [2], "vec": False}},
     "idx": [["list", [0, 3]]], "kind": "aux", "fam": "corpus-big-endian-unsigned", "inexact": False, "malformed": False},
    # a zero-dimensional big-endian variable: the netCDF4 library returns its value in native byte order, and the fill and
    # valid values were viewed with the byte order of the data after being created with that of the variable (fix3-2)
    {"dt": "i8", "shape": [], "data": [-9223372036854775806], "fill": None, "endian": "big", "bendian": "big",
     "attrs": {"_Unsigned": {"t": "str", "v": "True"}}, "idx": None, "kind": "field", "fam": "corpus-scalar-big-endian-unsigned",
     "inexact": False, "malformed": False},
    {"dt": "i2", "shape": [], "data": [-2], "fill": 5, "endian": "big", "bendian": "big",
     "attrs": {"_Unsigned": {"t": "str", "v": "true"}, "valid_max": {"t": "i2", "v": [-3], "vec": False}}, "idx": None,
     "kind": "field", "fam": "corpus-scalar-big-endian-unsigned", "inexact": False, "malformed": False},
    {"dt": "i4", "shape": [], "data": [7], "fill": None, "endian": "big", "bendian": "big",
     "attrs": {"_Unsigned": {"t": "str", "v": "true"}, "missing_value": {"t": "i4", "v": [7], "vec": False},
               "scale_factor": {"t": "f8", "v": [2], "vec": False}}, "idx": None,
     "kind": "field", "fam": "corpus-scalar-big-endian-unsigned", "inexact": False, "malformed": False},
    # identity packing under _Unsigned cast the view back to the signed type (fix3-1); int32 data with scale_factor = 1s wrapped
    {"dt": "i2", "shape": [4], "data": [1, -2, -7, 258], "fill": None, "endian": "native", "bendian": "native",
     "attrs": {"_Unsigned": {"t": "str", "v": "true"}, "scale_factor": {"t": "i2", "v": [1], "vec": False}},
     "idx": [["slice", 1, 3, None]], "kind": "field", "fam": "corpus-identity-packing", "inexact": False, "malformed": False},
    {"dt": "i4", "shape": [3], "data": [1, 70000, -70000], "fill": None, "endian": "big", "bendian": "big",
     "attrs": {"add_offset": {"t": "i2", "v": [0], "vec": False}},
     "idx": [["slice", 1, 3, None]], "kind": "field", "fam": "corpus-identity-packing", "inexact": False, "malformed": False},
    # vector missing_value on an auxiliary coordinate
    {"dt": "i4", "shape": [5], "data": [1, 2, 3, 4, -2147483647], "fill": 3,
     "attrs": {"missing_value": {"t": "i4", "v": [2, 4], "vec": True}}, "idx": [["slice", 0, 4, 2]],
     "kind": "aux", "fam": "corpus-F07b-aux", "inexact": False, "malformed": False},
]


# ---------------------------------------------------------------- constructs with children, strings
MULTI = ("pair", "geom", "dsg", "string")
CKINDS = ["dim", "aux", "domanc", "cellm", "fanc"]


def gen_var(rng, dt, n, cols=None, attrs="random", nw=None):
    """One variable of a construct: attributes and data from gen_case, then the trailing
    nw rows are never written, so the library pre-fills them (_FillValue, else the default
    fill value of the variable's OWN type)."""
    shape = [n] if cols is None else [n, cols]
    sub = set() if attrs == "none" else None
    c = gen_case(rng, dt, fam="pair", subset=sub, shape=shape)
    if attrs == "masking":
        for k in ("scale_factor", "add_offset", "_Unsigned"):
            c["attrs"].pop(k, None)
    data = list(c["data"])
    if nw is None:
        nw = rng.choice([0, 1, 1, 2])
    per = 1 if cols is None else cols
    fillv = c["fill"] if c["fill"] is not None else DEFAULT_FILL[dt]
    for k in range((n - nw) * per, n * per):
        data[k] = fillv
    return {"dt": dt, "shape": shape, "n": n, "nw": nw, "attrs": c["attrs"], "fill": c["fill"], "data": data,
            "inexact": c["inexact"] and bool(c["attrs"]), "endian": pick_endian(rng)}


def gen_pair(rng, k):
    ckind = CKINDS[k % len(CKINDS)]
    pdt = rng.choice(DTYPES)
    n = rng.randint(3, 6)
    parent = gen_var(rng, pdt, n, attrs=rng.choice(["none", "none", "masking", "random"]))
    child = None
    if ckind in ("dim", "aux", "domanc"):
        cdt = rng.choice([d for d in DTYPES if DEFAULT_FILL[d] != DEFAULT_FILL[pdt]] if rng.random() < 0.8 else DTYPES)
        child = gen_var(rng, cdt, n, cols=2, attrs=rng.choice(["none", "none", "none", "masking", "random"]),
                        nw=rng.choice([1, 1, 2, 0]))
    return {"kind": "pair", "ckind": ckind, "fam": "pair-" + ckind, "parent": parent, "child": child}


def plain_var(dt, values, holes, endian="native"):
    data = [DEFAULT_FILL[dt] if k in holes else v for k, v in enumerate(values)]
    return {"dt": dt, "shape": [len(values)], "n": len(values), "nw": 0, "attrs": {}, "fill": None, "data": data, "inexact": False,
            "endian": endian}


def gen_geom(rng):
    X = [20, 10, 0, 5, 10, 15, 10, 20, 10, 0, 50, 40, 30]
    Y = [0, 15, 0, 5, 10, 5, 5, 20, 35, 20, 0, 15, 0]
    def holes(m):
        return set(rng.sample(range(m), rng.choice([0, 1, 1, 2])))
    return {"kind": "geom", "fam": "geom",
            "ir": plain_var(rng.choice(INTS), [0, 1, 0, 0], holes(4), pick_endian(rng)),
            "x": plain_var(rng.choice(DTYPES), X, holes(13), pick_endian(rng)),
            "y": plain_var(rng.choice(DTYPES), Y, holes(13), pick_endian(rng)),
            "lon": plain_var(rng.choice(DTYPES), [10, 40], holes(2), pick_endian(rng)),
            "lat": plain_var(rng.choice(DTYPES), [25, 7], holes(2), pick_endian(rng)),
            "count_endian": pick_endian(rng),
            # a node coordinate variable without a representative coordinate variable
            "z": plain_var(rng.choice(DTYPES), [1, 2, 4, 2, 3, 4, 5, 5, 1, 4, 3, 2, 1], holes(13), pick_endian(rng))
                 if rng.random() < 0.5 else None}


def gen_dsg(rng):
    n = 5
    return {"kind": "dsg", "fam": "dsg", "count_dt": rng.choice(["i4", "i2", "u1", "i8", "u4"]), "count_endian": pick_endian(rng),
            "data_var": gen_var(rng, rng.choice(DTYPES), n, attrs=rng.choice(["none", "masking"]), nw=rng.choice([1, 2])),
            "time": gen_var(rng, rng.choice(DTYPES), n, attrs="none", nw=rng.choice([0, 1, 2])),
            "lat": gen_var(rng, rng.choice(DTYPES), 2, attrs="none", nw=rng.choice([0, 1]))}


WORDS = ["abc", "xy", "zzz", "z", "a", "qrs", "ab"]


def gen_string(rng, k):
    dt = "S1" if k % 2 == 0 else "str"
    n = rng.randint(3, 5)
    data = [rng.choice(WORDS + [""]) for _ in range(n)]
    for j in range(n - rng.choice([0, 1, 1]), n):
        data[j] = None                                   # never written
    fill = mv = None
    r = rng.random()
    if r < 0.25:
        fill = "z" if dt == "S1" else rng.choice(["abc", "zzz", "none"])
    elif r < 0.5:
        mv = rng.choice(["abc", "xy", "z"])
    return {"kind": "string", "fam": "string-" + dt, "dt": dt, "strlen": 3, "data": data, "fill": fill, "missing_value": mv}


def as_case(var, i):
    """A variable of a multi-variable case in the shape of a single-variable case."""
    return {"i": i, "dt": var["dt"], "attrs": var["attrs"], "fill": var["fill"], "data": var["data"], "shape": var["shape"],
            "inexact": var["inexact"], "malformed": False, "kind": "field", "fam": "pair", "endian": var.get("endian", "native")}


def pair_names(c):
    i, ck = c["i"], c["ckind"]
    pn = {"dim": f"p{i}", "aux": f"a{i}", "domanc": f"da{i}", "cellm": f"m{i}", "fanc": f"fa{i}"}[ck]
    return pn, pn + "|bounds", pn + "_bnds"


def inherits(parent, child):
    return any(k in parent["attrs"] and k not in child["attrs"] for k in MASK_ATTRS)


def _v(dt, shape, data, nw=0, attrs=None, fill=None):
    return {"dt": dt, "shape": shape, "n": shape[0], "nw": nw, "attrs": attrs or {}, "fill": fill, "data": data, "inexact": False}


CORPUS_MULTI = [
    # seeded change: the default fill value recorded for the bounds taken from the parent variable
    {"kind": "pair", "ckind": "dim", "fam": "corpus-bounds-own-default",
     "parent": _v("i4", [4], [1, 2, 3, 4]),
     "child": _v("f8", [4, 2], [0, 1, 1, 2, 2, 3, F_FILL, F_FILL], nw=1)},
    {"kind": "pair", "ckind": "aux", "fam": "corpus-bounds-own-default",
     "parent": _v("f4", [3], [1, 2, F_FILL], nw=1),
     "child": _v("i2", [3, 2], [0, 1, 1, 2, -32767, -32767], nw=1)},
    {"kind": "pair", "ckind": "domanc", "fam": "corpus-bounds-own-default",
     "parent": _v("i2", [3], [5, 6, -32767], nw=1),
     "child": _v("u1", [3, 2], [1, 2, 3, 4, 255, 255], nw=1)},
    # bounds take missing_value over from the parent in apply_masking, not in the masked read (open)
    {"kind": "pair", "ckind": "aux", "fam": "corpus-bounds-inherit",
     "parent": _v("i4", [3], [1, 2, 3], attrs={"missing_value": {"t": "i4", "v": [2], "vec": False}}),
     "child": _v("f8", [3, 2], [0, 1, 1, 2, 2, 3])},
    # F07g / F07h on a construct and on its bounds (fix2-3)
    {"kind": "pair", "ckind": "aux", "fam": "corpus-F07g-F07h",
     "parent": _v("i2", [3], [1, 2, 3], attrs={"valid_min": {"t": "i4", "v": [70000], "vec": False}}),
     "child": _v("i2", [3, 2], [1, 1, 2, 2, 3, 3], attrs={"valid_range": {"t": "i2", "v": [2, 4], "vec": True},
                                                         "valid_min": {"t": "i2", "v": [3], "vec": False}})},
    # a vlen string variable in the dataset made read(mask=False) raise (fix2-1)
    {"kind": "string", "fam": "corpus-string-mask-off", "dt": "str", "strlen": 3, "data": ["abc", "xy", "", None],
     "fill": None, "missing_value": None},
    {"kind": "string", "fam": "corpus-string-mask-off", "dt": "S1", "strlen": 3, "data": ["abc", "xy", "", None],
     "fill": None, "missing_value": None},
]


def build_cases(chk):
    rng = chk.rng
    T = chk.tier == "thorough"
    cases = [dict(c) for c in CORPUS]
    scale = float(os.environ.get("C07_SCALE", "1"))
    n_field = int((2000 if T else 360) * scale)
    n_aux = int((300 if T else 60) * scale)
    n_mal = int((200 if T else 40) * scale)
    for k in range(n_field):
        cases.append(gen_case(rng, DTYPES[k % len(DTYPES)]))
    for k in range(n_aux):
        cases.append(gen_case(rng, DTYPES[k % len(DTYPES)], fam="aux"))
    # every subset of the eight attributes
    names = ["_FillValue", "missing_value", "valid_min", "valid_max", "valid_range", "scale_factor", "add_offset", "_Unsigned"]
    for n, dt in enumerate(DTYPES if T else [rng.choice(INTS), rng.choice(FLOATS)]):
        for bits in range(n % 2 if T else 0, 256, (2 if T else (1 if n == 0 else 4)) if scale >= 1 else 8):
            sub = {nm for j, nm in enumerate(names) if bits >> j & 1}
            cases.append(gen_case(rng, dt, fam="all-subsets", subset=sub))
    for k in range(n_mal):
        cases.append(gen_case(rng, DTYPES[k % len(DTYPES)], fam="malformed", malformed=True))
    n_pair = int((700 if T else 150) * scale)
    n_geom = int((80 if T else 16) * scale)
    n_dsg = int((80 if T else 16) * scale)
    n_str = int((160 if T else 40) * scale)
    cases += [dict(c) for c in CORPUS_MULTI]
    for k in range(n_pair):
        cases.append(gen_pair(rng, k))
    for k in range(n_geom):
        cases.append(gen_geom(rng))
    for k in range(n_dsg):
        cases.append(gen_dsg(rng))
    for k in range(n_str):
        cases.append(gen_string(rng, k))
    for i, c in enumerate(cases):
        c["i"] = i
    return cases


# ---------------------------------------------------------------- running
def run_cases(cases, scratch, nworkers=14, per_file=20):
    # malformed cases go in small files of their own: one bad variable can fail a whole read
    groups = []
    def alone(c):
        return c["fam"].startswith("corpus") or vector_pack(c) or str_attr(c)
    single = [c for c in cases if c["kind"] not in MULTI]
    normal = [c for c in single if not alone(c)]
    for k in range(0, len(normal), per_file):
        groups.append(normal[k:k + per_file])
    for c in single:
        if alone(c):
            groups.append([c])
    for kind, size in (("pair", 10), ("geom", 4), ("dsg", 4), ("string", 3)):
        these = [c for c in cases if c["kind"] == kind and not c["fam"].startswith("corpus")]
        for k in range(0, len(these), size):
            groups.append(these[k:k + size])
        groups += [[c] for c in cases if c["kind"] == kind and c["fam"].startswith("corpus")]
    groups = [{"gid": n, "cases": g} for n, g in enumerate(groups)]
    shards = [groups[k::nworkers] for k in range(nworkers)]
    shards = [s for s in shards if s]
    res = lib.run_workers_parallel(
        "drive/c07.py", [{"scratch": scratch, "groups": s, "configs": CONFIGS} for s in shards], timeout=3000)
    rows = [None] * len(cases)
    crashed = []
    for s, (rc, out, err) in zip(shards, res):
        for r in out:
            rows[r["i"]] = r
        if rc != 0:
            crashed.append((rc, err[-400:]))
    return rows, crashed


# ---------------------------------------------------------------- features of a case (classification)
def unsigned_on(c):
    a = c["attrs"].get("_Unsigned")
    return a is not None and a["v"] in ("true", "True")


def packing(c):
    """Does unpacking change the presented values or type?"""
    if "scale_factor" in c["attrs"] or "add_offset" in c["attrs"]:
        return True
    return unsigned_on(c) and c["dt"][0] == "i"


def unsafe_attr(c):
    return any(k in c["attrs"] and not safe_cast(c["dt"], c["attrs"][k]) for k in MASK_ATTRS)


def default_fill_under_view(c):
    """_Unsigned view of a signed variable without _FillValue: cfdm compares the data with the default
    fill value's bit pattern (both viewed as unsigned); netCDF4-python compares the viewed data with the
    signed default, which never matches."""
    return unsigned_on(c) and c["dt"][0] == "i" and c["fill"] is None


def scalar_nonnative_view(c):
    """A zero-dimensional signed-integer variable of two or more bytes stored in non-native byte order and viewed as
    unsigned: the netCDF4 library returns its value in native byte order (fix3-2)."""
    e = c.get("endian", "native")
    return (c.get("shape") == [] and e not in ("native", sys.byteorder) and unsigned_on(c) and c["dt"] in ("i2", "i4", "i8"))


def range_and_minmax(c):
    return "valid_range" in c["attrs"] and ("valid_min" in c["attrs"] or "valid_max" in c["attrs"])


def bad_range_len(c):
    a = c["attrs"].get("valid_range")
    return a is not None and (a["t"] == "str" or len(a["v"]) != 2)


def vector_pack(c):
    return any(k in c["attrs"] and c["attrs"][k].get("vec") for k in ("scale_factor", "add_offset"))


def str_attr(c):
    return any(a["t"] == "str" for k, a in c["attrs"].items() if k != "_Unsigned")


def identity_pack(c):
    """scale_factor == 1 / add_offset == 0 only: cfdm casts to the attribute's type (CF 8.1),
    netCDF4-python leaves the packed type when only one of the two attributes is present."""
    s, o = c["attrs"].get("scale_factor"), c["attrs"].get("add_offset")
    if s is not None and o is None:
        return s["t"] != "str" and s["v"][0] == 1
    if o is not None and s is None:
        return o["t"] != "str" and o["v"][0] == 0
    return False


def ref_agrees(c, o, ref, u):
    """cfdm's masked read against netCDF4-python's, up to the two documented deviations."""
    if o is None or "err" in o:
        return False
    if same(o, ref):
        return True
    if o["shape"] != ref["shape"]:
        return False
    scalar_missing = o["shape"] == [] and o["flat"] == [None]     # the masked constant has no type of its own
    if o["dtype"] != ref["dtype"] and not (u == 1 and identity_pack(c)) and not scalar_missing:
        return False           # identity packing: the unpacked type is the attribute's type (CF 8.1)
    # identity packing: cfdm presents the type the arithmetic would give, netCDF4-python the packed (viewed)
    # type; the VALUES must be the same numbers
    cmp_values = o["dtype"] == ref["dtype"] or (u == 1 and identity_pack(c) and not c.get("inexact"))
    dv = u == 1 and default_fill_under_view(c)
    dfl = DEFAULT_FILL[c["dt"]]
    for x, y, raw in zip(o["flat"], ref["flat"], c["data"]):
        if dv and x is None and raw == dfl:
            continue
        if (x is None) != (y is None):
            return False
        if cmp_values and x != y:
            if o["dtype"] != ref["dtype"] and o["dtype"] in FLOATS and isinstance(y, int) and x is not None:
                # presented in a float type: the value as that type holds it
                if enc(np.array(y).astype(o["dtype"])) == x:
                    continue
            return False
    return True


def enc(v):
    v = float(v)
    if v != v:
        return "nan"
    return int(v) if v.is_integer() else v


def np_select(obs, idx):
    a = np.array(obs["flat"], dtype=object).reshape(obs["shape"])
    poss = []
    for n, i in zip(obs["shape"], idx):
        if i[0] == "slice":
            poss.append(list(range(*slice(i[1], i[2], i[3]).indices(n))))
        else:
            poss.append(list(i[1]))
    b = a[np.ix_(*poss)]
    return {"dtype": obs["dtype"], "shape": list(b.shape), "flat": b.ravel().tolist()}


def same(a, b):
    if a is None or b is None or "err" in a or "err" in b:
        return False
    if a["shape"] == [] and b["shape"] == [] and a["flat"] == [None] and b["flat"] == [None]:
        return True      # a missing scalar is numpy's masked constant, which has no data type of its own
    return a["dtype"] == b["dtype"] and a["shape"] == b["shape"] and a["flat"] == b["flat"]


def brief(o):
    if o is None:
        return None
    if "err" in o:
        return {"err": o["err"], "msg": o.get("msg")}
    return {"dtype": o["dtype"], "flat": o["flat"]}


# ---------------------------------------------------------------- Gallina printers
def g_num(v):
    if v == "nan":
        return "NaN"
    return f"(Fin {gz(v)})"


def g_attr(a):
    if a is None:
        return "None"
    if a["t"] == "str":
        return f"(Some (AStr {gstr(a['v'])}))"
    return f"(Some (ANum {a['t'].upper()} {glist(a['v'], g_num)}))"


def modelable_value(v):
    return v == "nan" or (isinstance(v, int) and not isinstance(v, bool))


def modelable(c):
    if c["inexact"]:
        return False
    for v in c["data"] + ([c["fill"]] if c["fill"] is not None else []):
        if not modelable_value(v):
            return False
    for k, a in c["attrs"].items():
        if a["t"] == "str":
            if not all(32 <= ord(ch) < 127 for ch in a["v"]):
                return False
            continue
        if not all(modelable_value(v) for v in a["v"]):
            return False
        if not a["v"]:
            return False
    return True


def g_case_attrs(c):
    A = c["attrs"]
    fill = None if c["fill"] is None else {"t": c["dt"], "v": [c["fill"]]}
    u = A.get("_Unsigned")
    return ("(mkAttrs " + " ".join([
        g_attr(A.get("missing_value")), g_attr(fill), g_attr(A.get("valid_range")), g_attr(A.get("valid_min")),
        g_attr(A.get("valid_max")), g_attr(A.get("scale_factor")), g_attr(A.get("add_offset")),
        gopt(u["v"] if u else None, gstr)]) + ")")


def g_obs(o):
    if o is None or "err" in o:
        e = (o or {}).get("err", "OtherErr")
        if e not in ("ValueErr", "IndexErr", "TypeErr", "KeyErr"):
            e = "OtherErr"
        return f"(Err {e})"
    if o["dtype"] not in DTYPES:
        return "(Err OtherErr)"
    vals = []
    for v in o["flat"]:
        if v is None:
            vals.append("(@None onum)")
        elif v == "nan":
            vals.append("(Some ONaN)")
        elif modelable_value(v):
            vals.append(f"(Some (OFin {gz(v)}))")
        else:
            vals.append("(Some OUnk)")
    return f"(Ok ({o['dtype'].upper()}, [{'; '.join(vals)}]))"


# ---------------------------------------------------------------- the check
def run(chk, model_ok):
    cases = build_cases(chk)
    rows, crashed = run_cases(cases, chk.scratch)
    judge(chk, model_ok, cases, rows, crashed)


def judge(chk, model_ok, cases, rows, crashed):
    """Property oracle, correspondence and coverage for observed cases."""
    for rc, err in crashed:
        chk.fail("correspondence", "worker-crash", f"C07 worker died rc={rc}: {err}", {"correspondence": "drive/c07.py"})
    stats = {"families": {}, "dtypes": {}, "attr_present": {}, "ref_errors": 0, "ref_compared": 0,
             "apply_compared": 0, "sub_compared": 0, "backend_pairs": 0, "masked_elements": 0, "elements": 0,
             "unsafe_attr_cases": 0, "vector_missing_cases": 0, "nan_cases": 0, "unsigned_cases": 0, "packed_cases": 0}
    stats["endian"] = {}
    stats["big_endian_unsigned_view_cases"] = 0
    explained = set()
    lits_read, map_read = [], []
    lits_app, map_app = [], []
    nontrivial = set()

    def fail(c, sig, what, expected, observed, cfg=None):
        # a property failure explains a model disagreement on the same observation only
        explained.add((c["i"], cfg, "apply" if sig.startswith("apply-masking") else "read"))
        chk.fail("property", sig, what, {"input": {k: v for k, v in c.items() if k != "i"}, "config": cfg,
                                         "expected": expected, "observed": observed})

    lits_child, map_child = [], []
    for k in ("pair_children", "prefilled_elements", "child_dtype_differs", "inherit_cases", "multi_keys_compared",
              "string_cases", "string_with_attrs"):
        stats[k] = 0

    def string_spec(c):
        """(raw values, mask) of a char / string variable, from the NUG: an element is missing iff it equals the
        fill value (the _FillValue attribute, else the default: NUL characters / the empty string) or the
        missing_value; a never-written element holds the fill value."""
        if c["dt"] == "S1":
            fillstr = ((c["fill"] or "\x00") * c["strlen"]).rstrip("\x00")
        else:
            fillstr = c["fill"] if c["fill"] is not None else ""
        raw = [fillstr if x is None else x for x in c["data"]]
        return raw, [x == fillstr or (c["missing_value"] is not None and x == c["missing_value"]) for x in raw]

    def judge_multi(c, r):
        stats["families"][c["fam"]] = stats["families"].get(c["fam"], 0) + 1
        nontrivial.add(lib.canon({k: v for k, v in c.items() if k not in ("i", "fam")}))
        cf, refs = r["cf"], r.get("refs", {})
        variables = {}
        if c["kind"] == "pair":
            pn, bn, bnc = pair_names(c)
            variables[pn] = (as_case(c["parent"], c["i"]), "parent", pn)
            stats["dtypes"][c["parent"]["dt"]] = stats["dtypes"].get(c["parent"]["dt"], 0) + 1
            for var in (c["parent"], c["child"]):
                if var:
                    en = var.get("endian", "native")
                    stats["endian"][en] = stats["endian"].get(en, 0) + 1
                    if en == "big" and unsigned_on(var) and var["dt"] in ("i2", "i4", "i8"):
                        stats["big_endian_unsigned_view_cases"] += 1
            stats["prefilled_elements"] += c["parent"]["nw"]
            if c["child"]:
                variables[bn] = (as_case(c["child"], c["i"]), "child", bnc)
                stats["pair_children"] += 1
                stats["prefilled_elements"] += 2 * c["child"]["nw"]
                stats["child_dtype_differs"] += c["child"]["dt"] != c["parent"]["dt"]
                stats["inherit_cases"] += inherits(c["parent"], c["child"])
        if c["kind"] == "string":
            stats["string_cases"] += 1
            stats["string_with_attrs"] += c["fill"] is not None or c["missing_value"] is not None
            sraw, smask = string_spec(c)
            rr = refs.get(f"c{c['i']}", {}).get("raw")
            if rr is None or "err" in rr or rr["flat"] != sraw:
                chk.fail("correspondence", "harness-error", f"string case not written as intended: {brief(rr)} vs {sraw}",
                         {"correspondence": "drive/c07.py", "input": c})
                return
        has_sattr = c["kind"] == "string" and (c["fill"] is not None or c["missing_value"] is not None)
        desc = json.dumps({k: v for k, v in c.items() if k not in ("i",)})[:900]

        def classify_apply(name, u):
            if has_sattr:
                return "apply-masking-string-attribute"
            if name.endswith("|interior_ring"):
                return "apply-masking-interior-ring-not-masked"
            V = variables.get(name)
            if V is None:
                return "apply-masking-differs-from-masked-read"
            case, role, _ = V
            if u and packing(case):
                return "apply-masking-on-unpacked-data"
            if role == "child" and inherits(c["parent"], c["child"]):
                return "apply-masking-bounds-inherit-parent-attributes"
            return "apply-masking-differs-from-masked-read"

        for (b, m, u) in CONFIGS:
            key = f"{b}|{int(m)}|{int(u)}"
            o = cf.get(key, {})
            bad = o.get("read_failed") or o.get("failed")
            if bad or "all" not in o:
                sig = "read-raises"
                if not m and c["kind"] == "string":
                    sig = "mask-off-read-raises-for-string-variable"
                elif not m and c["kind"] == "geom":
                    sig = "mask-off-read-raises-for-geometry"
                fail(c, sig, f"read(mask={m}, unpack={u}, {b}) (+ apply_masking) of {desc} raises {(bad or {}).get('msg')}",
                     "arrays", brief(bad), key)
                continue
            A = o["all"]
            for name, w in A.items():
                if "err" in w:
                    fail(c, "read-raises", f"{desc}: {name}.array raises {w.get('msg')} ({key})", "an array", brief(w), key + "|" + name)
                    continue
                stats["elements"] += len(w["flat"])
                stats["masked_elements"] += sum(1 for v in w["flat"] if v is None)
                # (the padding of ragged arrays - geometry nodes, DSG rows - is masked whatever the mask setting)
                if not m and c["kind"] in ("pair", "string") and any(v is None for v in w["flat"]):
                    fail(c, "mask-off-read-is-masked", f"{desc}: read(mask=False) {name} has masked elements", None, brief(w), key + "|" + name)
            # the reference library / the raw values, variable by variable
            for name, (V, role, ncname) in variables.items():
                w = A.get(name)
                if w is None or "err" in w:
                    if w is None:
                        fail(c, "construct-missing", f"{desc}: no construct {name} ({key})", name, sorted(A), key + "|" + name)
                    continue
                ref = refs.get(ncname, {})
                if m:
                    rr = ref.get("ref" if u else "ref_mask_only")
                    if rr is not None and "err" not in rr and not (vector_pack(V) or str_attr(V)):
                        stats["ref_compared"] += 1
                        if not ref_agrees(V, w, rr, int(u)):
                            fail(c, "identity-packing-changes-values" if (u and identity_pack(V)) else "read-differs-from-netCDF4-library",
                                 f"read(mask=True, unpack={u}, {b}) of {name} in {desc}: cfdm presents "
                                 f"{brief(w)}, netCDF4-python presents {brief(rr)}", brief(rr), brief(w), key + "|" + name)
                elif not u and not same(w, ref.get("raw")):
                    fail(c, "mask-off-unpack-off-not-raw", f"{desc}: {name} read(mask=False, unpack=False, {b}) {brief(w)} but the file holds "
                         f"{brief(ref.get('raw'))}", brief(ref.get("raw")), brief(w), key + "|" + name)
            if c["kind"] == "string":
                w = A["<field>"]
                if "err" not in w:
                    e = [None if (mk and m) else x for x, mk in zip(sraw, smask)]
                    if w["flat"] != e:
                        sig = "string-fill-or-missing-value-not-honoured" if has_sattr else "string-read-differs"
                        fail(c, sig, f"read(mask={m}, {b}) of {desc}: cfdm presents {w['flat']}, the conventions give {e}", e, w["flat"], key)
            # O6: apply_masking after the mask=False read, for EVERY construct, its bounds and interior ring
            if not m:
                wmall = cf.get(f"{b}|1|{int(u)}", {}).get("all")
                if wmall is not None:
                    for fld in ("applied", "applied_inplace", "applied_solo"):
                        got_all = o.get(fld, {})
                        for name, e in wmall.items():
                            if "err" in e or (fld == "applied_solo" and name not in got_all):
                                continue
                            stats["apply_compared"] += 1
                            stats["multi_keys_compared"] += 1
                            got = got_all.get(name)
                            if not same(got, e):
                                fail(c, classify_apply(name, u), f"{desc}: read(mask=False, unpack={u}, {b}) then apply_masking() [{fld}] "
                                     f"presents {name} as {brief(got)}, read(mask=True) as {brief(e)}", brief(e), brief(got), key + "|" + name)
                    for name, e in o.get("applied", {}).items():
                        if "err" not in e and not same(o.get("applied_again", {}).get(name), e):
                            fail(c, "returned-array-aliases-internal-state", f"{desc}: {name} after apply_masking() reads {brief(e)}, and after "
                                 f"overwriting that returned array in place {brief(o.get('applied_again', {}).get(name))}", brief(e),
                                 brief(o.get("applied_again", {}).get(name)), key + "|" + name)
                    for name, e in A.items():
                        if "err" not in e and not same(o.get("after", {}).get(name), e):
                            fail(c, "apply-masking-changed-original", f"{desc}: {name} of the mask=False field changed after apply_masking() / "
                                 f"after overwriting the returned arrays: {brief(e)} -> {brief(o.get('after', {}).get(name))}", brief(e),
                                 brief(o.get("after", {}).get(name)), key + "|" + name)
            # O2: backends agree
            if b == "netCDF4":
                o2 = cf.get(f"h5netcdf|{int(m)}|{int(u)}", {})
                stats["backend_pairs"] += 1
                for fld in ("all", "applied"):
                    for name, e in o.get(fld, {}).items():
                        if "err" not in e and not same(e, o2.get(fld, {}).get(name)):
                            fail(c, "string-fill-or-missing-value-not-honoured" if has_sattr else "backends-differ",
                                 f"{desc} mask={m} unpack={u} {fld} {name}: netCDF4 {brief(e)} vs h5netcdf "
                                 f"{brief(o2.get(fld, {}).get(name))}", brief(e), brief(o2.get(fld, {}).get(name)), key + "|" + name)
            # correspondence literals (netCDF4 backend)
            if b == "netCDF4" and c["kind"] == "pair":
                for name, (V, role, ncname) in variables.items():
                    w = A.get(name)
                    if w is None or "err" in w or not modelable(V):
                        continue
                    lits_read.append(f"({g_bo(V)}, {V['dt'].upper()}, {g_case_attrs(V)}, {gbool(m)}, {gbool(u)}, {glist(V['data'], g_num)}, {g_obs(w)})")
                    map_read.append((c, key + "|" + name, w))
                    if m or (u and packing(V)):
                        continue
                    oa = o.get("applied", {}).get(name)
                    if role == "parent":
                        lits_app.append(f"({V['dt'].upper()}, {g_case_attrs(V)}, {gbool(u)}, {glist(V['data'], g_num)}, {g_obs(oa)})")
                        map_app.append((c, key + "|" + name, oa))
                    else:
                        Pc = variables[pair_names(c)[0]][0]
                        wm = cf.get(f"{b}|1|{int(u)}", {}).get("all", {}).get(name)
                        if modelable(Pc) and wm is not None:
                            lits_child.append(f"({g_bo(V)}, {V['dt'].upper()}, {g_case_attrs(V)}, {g_case_attrs(Pc)}, {gbool(u)}, "
                                              f"{glist(V['data'], g_num)}, {g_obs(wm)}, {g_obs(oa)})")
                            map_child.append((c, key + "|" + name, oa))

    for c, r in zip(cases, rows):
        if r is None:
            continue
        if "harness_err" in r:
            chk.fail("correspondence", "harness-error", r["harness_err"], {"correspondence": "drive/c07.py", "input": c})
            continue
        if c["kind"] in MULTI:
            judge_multi(c, r)
            continue
        stats["families"][c["fam"]] = stats["families"].get(c["fam"], 0) + 1
        stats["dtypes"][c["dt"]] = stats["dtypes"].get(c["dt"], 0) + 1
        en = c.get("endian", "native")
        stats["endian"][en] = stats["endian"].get(en, 0) + 1
        if en == "big" and unsigned_on(c) and c["dt"] in ("i2", "i4", "i8"):
            stats["big_endian_unsigned_view_cases"] += 1
        for k in c["attrs"]:
            stats["attr_present"][k] = stats["attr_present"].get(k, 0) + 1
        if c["fill"] is not None:
            stats["attr_present"]["_FillValue"] = stats["attr_present"].get("_FillValue", 0) + 1
        if any(k in c["attrs"] and not safe_cast(c["dt"], c["attrs"][k]) for k in MASK_ATTRS):
            stats["unsafe_attr_cases"] += 1
        if c["attrs"].get("missing_value", {}).get("vec"):
            stats["vector_missing_cases"] += 1
        if "nan" in c["data"]:
            stats["nan_cases"] += 1
        if unsigned_on(c):
            stats["unsigned_cases"] += 1
        if packing(c):
            stats["packed_cases"] += 1
        if c["attrs"] or c["fill"] is not None:
            nontrivial.add(lib.canon({k: v for k, v in c.items() if k not in ("i", "fam")}))
        desc = f"{c['dt']} variable, attributes {json.dumps(c['attrs'])}, _FillValue {c['fill']}, data {c['data']}"
        cf = r["cf"]
        odd = vector_pack(c) or str_attr(c)
        # ---- O1: the reference library (mask and unpack both on / mask only)
        for (m, u, refkey) in ((1, 1, "ref"), (1, 0, "ref_mask_only")):
            ref = r.get(refkey)
            if ref is None or "err" in ref:
                stats["ref_errors"] += 1
                continue
            if odd:
                continue
            if u == 1 and scalar_nonnative_view(c):
                continue      # netCDF4-python has this defect itself (values viewed byte-swapped): Spec / model / backends judge
            for b in ("netCDF4", "h5netcdf"):
                o = cf.get(f"{b}|{m}|{u}", {}).get("whole")
                stats["ref_compared"] += 1
                ok = ref_agrees(c, o, ref, u)
                if not ok:
                    sig = "read-differs-from-netCDF4-library"
                    if u == 1 and scalar_nonnative_view(c):
                        sig = "unsigned-view-of-scalar-in-non-native-byte-order"
                    elif u == 1 and identity_pack(c):
                        sig = "identity-packing-changes-values"
                    elif unsigned_on(c) and not isint(c["dt"]):
                        sig = "unsigned-attribute-on-non-integer"
                    elif c["attrs"].get("missing_value", {}).get("vec") and o is not None and o.get("err") == "ValueErr":
                        sig = "vector-missing-value-array-raises"
                    fail(c, sig, f"read(mask=True, unpack={bool(u)}, {b}) of {desc}: cfdm presents {brief(o)}, "
                         f"netCDF4-python presents {brief(ref)}", brief(ref), brief(o), f"{b}|{m}|{u}")
        # ---- per configuration checks
        for (b, m, u) in CONFIGS:
            key = f"{b}|{int(m)}|{int(u)}"
            o = cf.get(key, {})
            w = o.get("whole")
            if w is None:
                continue
            if "err" in w:
                if str_attr(c) and "err" in (r.get("ref") or {"err": 1}) and u:
                    continue      # text-valued attribute that the reference library cannot read either
                if (c["i"], key, "read") not in explained:
                    sig = "read-raises"
                    if vector_pack(c):
                        sig = "vector-scale-offset-read-raises"
                    elif c["attrs"].get("missing_value", {}).get("vec") and w.get("err") == "ValueErr":
                        sig = "vector-missing-value-array-raises"
                    elif str_attr(c):
                        sig = "string-valued-attribute-raises"
                    fail(c, sig, f"read(mask={m}, unpack={u}, {b}) of {desc} raises {w.get('msg')}", "an array", brief(w), key)
                continue
            stats["elements"] += len(w["flat"])
            stats["masked_elements"] += sum(1 for v in w["flat"] if v is None)
            # O3: masking off -> nothing masked; both off -> the raw values
            if not m:
                if any(v is None for v in w["flat"]):
                    fail(c, "mask-off-read-is-masked", f"read(mask=False) of {desc} has masked elements", None, brief(w), key)
                if not u and not same(w, r.get("raw")):
                    fail(c, "mask-off-unpack-off-not-raw", f"read(mask=False, unpack=False, {b}) of {desc}: {brief(w)} "
                         f"but the file holds {brief(r.get('raw'))}", brief(r.get("raw")), brief(w), key)
                wm = cf.get(f"{b}|1|{int(u)}", {}).get("whole")
                if wm is not None and "err" not in wm:
                    if (wm["dtype"] != w["dtype"] and wm["flat"] != [None]) or any(x is not None and x != y for x, y in zip(wm["flat"], w["flat"])):
                        fail(c, "masked-read-values-differ-from-unmasked", f"{desc}: masked read {brief(wm)} vs unmasked {brief(w)}",
                             brief(w), brief(wm), key)
            # the data type declared before the data are read is the type of the data once read
            decl = o.get("decl")
            if decl is not None and w["dtype"] in DTYPES and not (w["shape"] == [] and w["flat"] == [None]) and decl != w["dtype"]:
                fail(c, "declared-dtype-differs-from-read", f"{desc}: read(mask={m}, unpack={u}, {b}): Data.dtype is {decl} before the data "
                     f"are read, the array is {w['dtype']}", w["dtype"], decl, key)
            # O4: subspace
            for sk in ("sub", "subd"):
                if sk in o:
                    stats["sub_compared"] += 1
                    e = np_select(w, c["idx"])
                    if not same(o[sk], e):
                        fail(c, "subspace-differs-from-whole", f"{desc}: [{c['idx']}] gives {brief(o[sk])}, the whole array "
                             f"subspaced gives {brief(e)}", brief(e), brief(o[sk]), key)
            # O5: Data.mask
            mk = o.get("mask")
            if mk is not None and ("err" in mk or mk["flat"] != [v is None for v in w["flat"]]):
                fail(c, "data-mask-differs", f"{desc}: Data.mask {brief(mk)} vs array {brief(w)}", None, brief(mk), key)
            # bounds of an auxiliary coordinate hold the same values twice
            if c["kind"] == "aux" and "bwhole" in o:
                bw = o["bwhole"]
                e = [v for v in w["flat"] for _ in (0, 1)]
                if "err" in bw or bw["flat"] != e or bw["dtype"] != w["dtype"]:
                    fail(c, "bounds-read-differs-from-parent", f"{desc}: bounds {brief(bw)} vs coordinate {brief(w)}", e, brief(bw), key)
            # O2: backends agree
            if b == "netCDF4":
                o2 = cf.get(f"h5netcdf|{int(m)}|{int(u)}", {})
                stats["backend_pairs"] += 1
                for fld in ("whole", "sub", "applied"):
                    if fld in o and "err" not in o[fld] and not same(o[fld], o2.get(fld)):
                        fail(c, "unsigned-view-of-scalar-in-non-native-byte-order" if (u and scalar_nonnative_view(c)) else "backends-differ", f"{desc} mask={m} unpack={u} {fld}: netCDF4 {brief(o[fld])} vs h5netcdf {brief(o2.get(fld))}",
                             brief(o[fld]), brief(o2.get(fld)), key)
            # O6: apply_masking after a mask=False read reproduces the masked read
            if not m and "applied" in o:
                wm = cf.get(f"{b}|1|{int(u)}", {}).get("whole")
                if wm is not None and "err" not in wm:
                    for fld in ("applied", "applied_inplace", "bapplied"):
                        if fld not in o:
                            continue
                        stats["apply_compared"] += 1
                        e = wm if fld != "bapplied" else {"dtype": wm["dtype"], "shape": wm["shape"] + [2],
                                                          "flat": [v for v in wm["flat"] for _ in (0, 1)]}
                        if not same(o[fld], e):
                            if u and packing(c):
                                sig = "apply-masking-on-unpacked-data"
                            elif range_and_minmax(c):
                                sig = "apply-masking-valid-range-with-valid-min-max"
                            elif bad_range_len(c):
                                sig = "apply-masking-valid-range-not-two-values"
                            elif unsafe_attr(c):
                                sig = "apply-masking-unsafe-attribute"
                            elif str_attr(c):
                                sig = "apply-masking-string-attribute"
                            elif "nan" in c["attrs"].get("missing_value", {}).get("v", []) or c["fill"] == "nan":
                                sig = "apply-masking-nan-fill"
                            elif c["attrs"].get("missing_value", {}).get("vec"):
                                sig = "apply-masking-vector-missing-value"
                            else:
                                sig = "apply-masking-differs-from-masked-read"
                            fail(c, sig, f"{desc}: read(mask=False, unpack={u}, {b}).apply_masking() [{fld}] gives {brief(o[fld])}, "
                                 f"read(mask=True) gives {brief(e)}", brief(e), brief(o[fld]), key)
                    if "applied_again" in o and "err" not in o["applied"] and not same(o["applied_again"], o["applied"]):
                        fail(c, "returned-array-aliases-internal-state", f"{desc}: apply_masking().array reads {brief(o['applied'])}, and after "
                             f"overwriting that returned array in place {brief(o['applied_again'])}", brief(o["applied"]), brief(o["applied_again"]), key)
                    if o.get("unchanged") is False:
                        fail(c, "apply-masking-changed-original", f"{desc}: apply_masking() changed the field it was called on", None, None, key)
            # literals for the correspondence (netCDF4 backend; h5netcdf is tied to it by O2 and, for errors, below)
            if modelable(c) and (b == "netCDF4" or "err" in w):
                wl = w
                if "err" not in w and w["shape"] == [] and w["flat"] == [None]:
                    w0 = cf.get(f"{b}|0|{int(u)}", {}).get("whole")
                    if w0 is not None and "err" not in w0:
                        wl = dict(w, dtype=w0["dtype"])     # the masked constant has no data type of its own
                lits_read.append(f"({g_bo(c)}, {c['dt'].upper()}, {g_case_attrs(c)}, {gbool(m)}, {gbool(u)}, {glist(c['data'], g_num)}, {g_obs(wl)})")
                map_read.append((c, key, w))
                if not m and "applied" in o and not (u and packing(c)) and not str_attr(c):
                    oa = o["applied"]
                    if "err" not in oa and oa["shape"] == [] and oa["flat"] == [None]:
                        oa = dict(oa, dtype=w["dtype"])
                    lits_app.append(f"({c['dt'].upper()}, {g_case_attrs(c)}, {gbool(u)}, {glist(c['data'], g_num)}, {g_obs(oa)})")
                    map_app.append((c, key, o["applied"]))
    ncorr = 0
    if model_ok:
        for (lits, mp, fn) in ((lits_read, map_read, "check_read"), (lits_app, map_app, "check_apply"),
                               (lits_child, map_child, "check_child")):
            if not lits:
                continue
            bad = lib.coq_bad_indices("C07", REQ, fn, lits, chunk=250)
            ncorr += len(lits)
            shown = 0
            for i in bad:
                c, key, w = mp[i]
                if (c["i"], key, "apply" if fn != "check_read" else "read") in explained:
                    continue
                if fn == "check_child" and (c["i"], key.replace("|0|", "|1|"), "read") in explained:
                    continue
                shown += 1
                if shown > 40:
                    break
                chk.fail("correspondence", f"model-vs-impl:{fn}",
                         f"model and implementation disagree ({fn}, {key}) on "
                         + (f"{c['dt']} attrs {json.dumps(c['attrs'])} fill {c['fill']} data {c['data']}" if c["kind"] not in MULTI
                            else json.dumps({k: v for k, v in c.items() if k != 'i'})[:900])
                         + f": implementation gives {brief(w)}",
                         {"correspondence": f"C07.Run.{fn}", "input": {k: v for k, v in c.items() if k != 'i'}, "config": key,
                          "observed": brief(w)})
    stats["model_cases_read"] = len(lits_read)
    stats["model_cases_apply"] = len(lits_app)
    stats["model_cases_child"] = len(lits_child)
    chk.coverage.update({
        "evaluations": len(cases) * len(CONFIGS),
        "distinct_nontrivial": len(nontrivial),
        "rule": "one evaluation = one hand-encoded netCDF variable read in one of the 8 configurations backend x mask x unpack "
                "(whole array, a subspace, Data.mask, and apply_masking after mask=False). Variables: dtypes i1..u8, f4, f8; random "
                "and exhaustive subsets of {_FillValue, missing_value, valid_min, valid_max, valid_range, scale_factor, add_offset, "
                "_Unsigned}; attribute values of the variable's type or another type, in range / at type limits / out of range "
                "(not safely castable) / NaN / vectors; data drawn from the attribute values and their neighbours, the default fill "
                "value, type limits, NaN; 1-d, 2-d and scalar variables; data variables and auxiliary coordinates with bounds; a "
                "malformed stream (string-valued attributes, valid_range of 1 or 3 values, vector scale_factor/add_offset). "
                "Every variable (data variable, coordinate, bounds, domain ancillary, cell measure, field ancillary, geometry node / "
                "ring / count variables, DSG count variable) is stored with a byte order drawn from native / little / big "
                "(createVariable(endian=)), independently for a coordinate and its bounds, crossed with all the above. "
                "Constructs with children (pair-*: dimension / auxiliary coordinate / domain ancillary with bounds, cell measure, field "
                "ancillary; parent and child of different data types, each with its own attributes, trailing rows never written so that "
                "the library pre-fills them), polygon geometries (node coordinates, interior ring, a node coordinate without "
                "representative coordinate, chosen data types and pre-filled elements), contiguous ragged arrays (count variable of "
                "several integer types) and char (S1) / string variables with _FillValue / missing_value: for every construct, its "
                "bounds and its interior ring the masked read is compared with read(mask=False) then Field.apply_masking() (copy, "
                "in place, construct by construct), with both backends; every returned array is overwritten in place after it was "
                "recorded and read again. "
                "Non-trivial = at least one of the eight attributes present; distinct by canonical JSON of the variable",
        "samples": [{k: v for k, v in cases[j].items() if k in ("dt", "attrs", "fill", "data", "kind", "ckind", "parent", "child", "missing_value")}
                    for j in sorted({min(7, len(cases) - 1), len(cases) // 3, len(cases) - 60 if len(cases) > 60 else 0, len(cases) - 1})],
        "traces_validated_against_impl": ncorr,
        "disagreements_checked": ncorr,
        "counters": stats,
        "exhaustive": False,
    })
    chk.assumptions += [
        "the reference semantics is netCDF4-python's auto mask-and-scale on the same file (set_auto_maskandscale(True), and "
        "set_auto_mask(True) alone for unpack=False); where it raises itself under numpy 2 (_Unsigned with a negative fill "
        "value) the proved Spec/model is the only oracle",
        "documented deviation accepted: with only scale_factor == 1 (or only add_offset == 0) cfdm presents the data type that the "
        "unpacking arithmetic would give (CF 8.1) where netCDF4-python leaves the packed (viewed) type; the values are compared as "
        "numbers and the mask must agree",
        "a zero-dimensional _Unsigned integer variable stored in non-native byte order is not compared with netCDF4-python, which "
        "views the fill / missing / valid values of such a variable byte-swapped itself; the proved Spec (through the model "
        "correspondence) and the agreement of the two backends judge it",
        "the harness runs on a little-endian machine: 'native' is little-endian in the Gallina literals (sys.byteorder is consulted)",
        "integers are exact in Z; float variables and attributes are restricted in the model to integers of magnitude <= 2^24 "
        "(f4) / 2^53 (f8), the default fill value 15*2^119 and NaN; elements whose unpacked value leaves that range, and "
        "non-integer scale factors, are compared with netCDF4-python only",
        "_FillValue has the variable's own type and is scalar (the netCDF library enforces it); variables are created with fill "
        "mode on",
        "char (S1) and string variables are outside the Coq model; the harness judges them against this reading of the NUG: cfdm "
        "presents a char variable as strings (trailing NULs stripped); an element is missing iff it equals the fill value (the "
        "_FillValue attribute - for a char variable one character repeated over the string length - else the default: NUL "
        "characters / the empty string, which is what a never-written element holds) or the missing_value; netCDF4-python itself "
        "never masks string variables and masks char variables character by character (a row is missing iff all its characters are)",
        "the padding of ragged arrays (geometry node coordinates, interior rings, DSG rows) is masked whatever the mask setting; "
        "'mask off => nothing masked' is judged on non-ragged arrays only",
        "bounds whose parent has a masking attribute that they lack are outside the guard of C07_apply_masking_bounds_reproduces "
        "(open finding apply-masking-bounds-inherit-parent-attributes)",
        "numpy element-wise arithmetic, comparison, casting and type promotion are trusted (modelled by their documented semantics)",
    ]


def replay(chk, path):
    """Re-run the inputs of a replay file through the same oracle and correspondence;
    exit code 1 iff a failure of the recorded signature (or, for a correspondence
    replay, any failure) is reproduced."""
    d = json.load(open(path))
    seen, cases = set(), []
    for x in d.get("cases", []):
        c = x.get("input")
        if not c or ("dt" not in c and c.get("kind") not in MULTI):
            continue
        key = lib.canon(c)
        if key in seen:
            continue
        seen.add(key)
        c = dict(c)
        c["i"] = len(cases)
        cases.append(c)
    if not cases:
        print("no replayable input in", path)
        return 1
    rows, crashed = run_cases(cases, chk.scratch, nworkers=min(4, len(cases)))
    judge(chk, all(lib.vo_ok(f"theories/C07/{n}.v") for n in MODEL_FILES), cases, rows, crashed)
    hits = [f for f in chk.failures if f.signature == d.get("signature") or d.get("kind") != "property"]
    for f in chk.failures[:12]:
        print(f"({f.kind}) {f.signature}: {f.what}"[:700])
    print(f"replayed {len(cases)} input(s): {len(chk.failures)} failure(s), {len(hits)} matching '{d.get('signature')}'")
    return 1 if hits else 0
