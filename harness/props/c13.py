"""C13 - structurally non-compliant datasets are read, and reported (DESIGN.md section 4, C13).

Fault enumeration tied to the Coq model C13/Model.v:
  bases     = cfdm.example_field(n) (n = 0..7, DSG-compressed forms of 3 and 4) written by cfdm and
              varied with netCDF4-python (second data variable, extra cell measure / ancillary /
              char coordinate, extended grid_mapping, climatology, cell-method intervals, external measure);
  faults    = every (variable, reference attribute, name token) x {missing name, variable with foreign
              dimensions, removed} plus malformed cell_methods / formula_terms / grid_mapping /
              cell_measures strings, plus a seeded stream of double faults and random strings;
  oracle    = no exception, no descriptor left open, every field of the unfaulted read still returned
              with the same data and the same constructs apart from the one owning the token, the
              problem present in dataset_compliance(), all data readable;
  model tie = the raw content of every faulted file (read with netCDF4-python) is printed as a Gallina
              dataset and C13.Run.check_case compares the model's reading with what cfdm returned.
"""
import json
import os
import re

import lib
from lib import gstr, gbool, glist, gopt

REQ = "From CfdmV Require Import Common.Base C13.Model C13.Run.\nOpen Scope string_scope."

LIST_ATTRS = ("bounds", "climatology", "coordinates", "ancillary_variables", "geometry",
              "node_coordinates", "node_count", "part_node_count", "interior_ring", "nodes")
MAP_ATTRS = ("cell_measures", "formula_terms", "grid_mapping")
DIM_ATTRS = ("compress", "sample_dimension", "instance_dimension")
MISSING = "nope_missing"
FOREIGN = ("zz_foreign1", "zz_foreign2")

MALFORMED = {
    "cell_methods": [
        "time: mean (interval: 0.1 nope_missing", "time: mean (", "time: mean (interval:",
        "time: mean (interval: 1 hour", "(", "time:", "time: mean within", "time: mean where",
        "time: mean over", "time: mean (interval: abc hours)", "time: mean (interval: 1 hour interval: 2 hours)",
        ")", "time: mean )", "mean", ": mean", "time: mean (comment:", "time: mean (interval: 1 hour comment:",
        "time: mean (comment: x", "time: mean (x", "area: mean (interval: [1 degree)",
    ],
    "formula_terms": ["a: b: B", "a:", "a b", "a: x y", ":", "a: nope.dot", "a: b orog", " a: b"],
    "grid_mapping": ["crs:", "crs: x: y", "a b", "crs: x crs2:", "crs.1", "crs: x crs"],
    "cell_measures": ["area:", "area", "area: a b", "area cell_measure", ": x", "area: a volume:"],
    "ancillary_variables": [" "],
    "coordinates": [" "],
}


# ---------------------------------------------------------------- bases
def base_specs(tier):
    specs = [{"id": f"e{i}", "example": i} for i in range(8)]
    specs += [
        {"id": "e3c", "example": 3, "compress": "contiguous"},
        {"id": "e3i", "example": 3, "compress": "indexed"},
        {"id": "e4ic", "example": 4, "compress": "indexed_contiguous"},
        {"id": "e1v", "example": 1, "variants": ["char_aux", "extra_measure", "extra_ancillary", "second_field"]},
        {"id": "e1g", "example": 1, "variants": ["extended_grid_mapping", "interval_methods"]},
        {"id": "e1m", "example": 1, "variants": ["extra_measure", "extra_ancillary"]},
        {"id": "e2c", "example": 2, "variants": ["climatology"]},
        {"id": "e0x", "example": 0, "variants": ["external_measure", "extra_measure"]},
        {"id": "e7v", "example": 7, "variants": ["second_field", "extended_grid_mapping"]},
        {"id": "e0v", "example": 0, "variants": ["second_field", "char_aux", "interval_methods"]},
    ]
    return specs


# ---------------------------------------------------------------- fault sites
def name_tokens(attr, value):
    """[(token index, name, role)] for the name tokens of a reference attribute."""
    toks = value.split()
    out = []
    if attr in LIST_ATTRS or attr in DIM_ATTRS:
        return [(i, t, "name") for i, t in enumerate(toks)]
    if attr in MAP_ATTRS:
        for i, t in enumerate(toks):
            if t.endswith(":"):
                if attr == "grid_mapping":
                    out.append((i, t[:-1], "key"))
            else:
                out.append((i, t, "name"))
        return out
    return out


def replace_token(value, i, new, role):
    toks = value.split()
    if new is None:
        del toks[i]
    else:
        toks[i] = new + (":" if role == "key" else "")
    return " ".join(toks)


def enumerate_faults(base, rng, tier):
    """All single faults of one base (dicts with cid, base, edits, foreign, meta)."""
    out = []
    raw = base["raw"]
    n = 0
    for var in raw["vars"]:
        for attr, value in var["attrs"].items():
            if value is None:
                continue
            if attr in LIST_ATTRS or attr in MAP_ATTRS or attr in DIM_ATTRS:
                for (i, name, role) in name_tokens(attr, value):
                    for kind in ("missing", "foreign", "removed"):
                        if kind == "missing":
                            news = [MISSING]
                        elif kind == "foreign":
                            if attr in DIM_ATTRS:
                                news = ["zz_fdim"]
                            else:
                                news = list(FOREIGN) if tier == "thorough" else [FOREIGN[(n + i) % 2]]
                        else:
                            news = [None]
                        for new in news:
                            nv = replace_token(value, i, new, role)
                            if kind == "removed" and role == "key":
                                continue
                            out.append({
                                "base": base["id"], "foreign": kind == "foreign",
                                "edits": [[var["name"], attr, nv if nv.strip() else None]],
                                "meta": {"var": var["name"], "attr": attr, "kind": kind, "tok": i,
                                         "old": name, "new": new, "role": role, "value": nv, "orig": value}})
                            n += 1
            if attr in MALFORMED or attr == "cell_methods":
                for s in MALFORMED.get(attr, []):
                    out.append({
                        "base": base["id"], "foreign": False, "edits": [[var["name"], attr, s]],
                        "meta": {"var": var["name"], "attr": attr, "kind": "malformed", "tok": None,
                                 "old": None, "new": None, "role": None, "value": s, "orig": value}})
    return out


def attr_class(meta):
    return f"{meta['attr']}:{meta['kind']}"


# ---------------------------------------------------------------- oracle
def cons_key(c):
    return (c["type"], str(c["ncvar"]))


def strip_bounds(c):
    d = dict(c)
    d["bounds"] = None
    d.pop("clim", None)
    d.pop("geometry", None)
    return d


def oracle(case, base, row):
    """List of (signature, what, detail) property failures for one faulted read."""
    meta = case["meta"]
    cls = attr_class(meta)
    fails = []
    rd = row.get("read")
    if rd is None:
        return [("harness:" + cls, "the faulted file could not be produced: " + str(row.get("error")), {})]
    if rd.get("open_fds"):
        fails.append(("file-left-open", f"{rd['open_fds']} descriptor(s) on the dataset still open after "
                      f"cfdm.read {'raised ' + str(rd['exc']) if rd['exc'] else 'returned'}", {}))
    if rd["exc"] is not None:
        fails.append((f"read-raises:{cls}", f"cfdm.read raised {rd['exc']}: {rd['msg']} at {rd.get('where')}", {}))
        return fails
    bfields = {f["ncvar"]: f for f in base["read"]["fields"]}
    rfields = {f["ncvar"]: f for f in rd["fields"]}
    old = meta["old"]
    attr = meta["attr"]
    v = meta["var"]
    dim_fault = attr in DIM_ATTRS
    for n, bf in bfields.items():
        rf = rfields.get(n)
        if rf is None:
            fails.append((f"field-lost:{cls}", f"no field for data variable {n} is returned", {}))
            continue
        if dim_fault or attr == "geometry":
            # the compression / geometry itself cannot be mapped: only presence and report are required
            pass
        else:
            if rf["data"] != bf["data"] or rf["data_axes"] != bf["data_axes"]:
                fails.append((f"field-data-changed:{cls}", f"data of {n}: {bf['data']} {bf['data_axes']} -> "
                              f"{rf['data']} {rf['data_axes']}", {}))
            rcons = {}
            for c in rf["constructs"]:
                rcons.setdefault(cons_key(c), []).append(c)
            base_has_owner = False
            for bc in bf["constructs"]:
                affected, bounds_only = construct_affected(bc, meta, bf)
                base_has_owner = base_has_owner or affected or bounds_only
                if affected:
                    continue
                cands = rcons.get(cons_key(bc), [])
                if bounds_only:
                    ok = any(strip_bounds(c) == strip_bounds(bc) for c in cands)
                else:
                    ok = bc in cands
                if not ok:
                    fails.append((f"unaffected-construct-changed:{cls}:{bc['type']}",
                                  f"field {n}: construct {bc['type']}:{bc['ncvar']} (axes {bc['axes']}, bounds "
                                  f"{bc['bounds'] and bc['bounds'][0]}) is "
                                  f"{'missing' if not cands else 'different: ' + json.dumps(cands[0])[:200]}", {}))
            # coordinate references / cell methods: those not touching the token must survive
            for bcr in bf["coordinate_references"]:
                if cr_affected(bcr, meta, bf):
                    continue
                if not any(cr_same(bcr, rcr, meta) for rcr in rf["coordinate_references"]):
                    fails.append((f"unaffected-construct-changed:{cls}:coordinate_reference",
                                  f"field {n}: coordinate reference {bcr} is missing or different: "
                                  f"{rf['coordinate_references']}", {}))
            if attr != "cell_methods" and not (attr == "coordinates" and
                                               any(("scalar:" + str(old)) in " ".join(cm["axes"]) for cm in bf["cell_methods"])):
                if rf["cell_methods"] != bf["cell_methods"]:
                    fails.append((f"unaffected-construct-changed:{cls}:cell_method",
                                  f"field {n}: cell methods {bf['cell_methods']} -> {rf['cell_methods']}", {}))
        for c in rf["constructs"]:
            for d in (c["data"], c["bounds"] and c["bounds"][1]):
                if d and str(d[1]).startswith("ERR"):
                    fails.append((f"data-unreadable:{cls}", f"field {n}: data of {c['type']}:{c['ncvar']} "
                                  f"cannot be read: {d[1]}", {}))
        if rf["data"] and str(rf["data"][1]).startswith("ERR"):
            fails.append((f"data-unreadable:{cls}", f"field {n}: field data cannot be read: {rf['data'][1]}", {}))
        # the report
        if report_expected(meta) and field_concerned(bf, meta):
            if not report_mentions(rf["report"], meta):
                fails.append((f"not-reported:{cls}", f"field {n}: dataset_compliance() does not mention the broken "
                              f"{v}:{attr} = {meta['value']!r}; report = {rf['report'][:4]}", {}))
    return fails


def field_concerned(bf, meta):
    """Does the base field contain the variable carrying the attribute (as itself or as a construct)?"""
    v = meta["var"]
    if bf["ncvar"] == v:
        return True
    for c in bf["constructs"]:
        if c["ncvar"] == v or (c["bounds"] and c["bounds"][0] == v):
            return True
    return False


def report_expected(meta):
    k = meta["kind"]
    if k in ("missing", "foreign"):
        return True
    if k == "malformed":
        return meta["value"].strip() != ""
    # removed: the rest is malformed only when a key lost its only value
    if meta["attr"] in MAP_ATTRS and meta["value"]:
        toks = meta["value"].split()
        for i, t in enumerate(toks):
            if t.endswith(":") and (i + 1 == len(toks) or toks[i + 1].endswith(":")):
                return True
    return False


def report_mentions(report, meta):
    for fv, key, reason, code, att in report:
        if meta["new"] and key == meta["new"]:
            return True
        if att:
            for k, val in att:
                if k.endswith(":" + meta["attr"]) and val == meta["value"]:
                    return True
                if k.split(":")[0] == meta["var"] and meta["new"] and meta["new"] in val.split():
                    return True
        if meta["kind"] == "malformed" and key == meta["var"] and reason and (
                meta["attr"].split("_")[0] in reason.lower().replace(" ", "_") or "incorrectly formatted" in reason):
            return True
    return False


def construct_affected(bc, meta, bf):
    """(wholly affected, bounds only) for a construct of the base field under this fault."""
    attr, v, old = meta["attr"], meta["var"], meta["old"]
    if meta["kind"] == "malformed":
        if attr == "cell_measures":
            return bc["type"] == "cell_measure", False
        if attr == "ancillary_variables":
            return bc["type"] == "field_ancillary", False
        if attr == "coordinates":
            return False, False
        if attr == "formula_terms":
            return bc["type"] == "domain_ancillary", False
        return False, False
    if attr in ("bounds", "climatology", "nodes"):
        if bc["ncvar"] == v and bc["type"] != "domain_ancillary":
            return False, True
        if bc["type"] == "domain_ancillary" and has_formula_terms(bf, v):
            return False, True
        return False, False
    if attr == "coordinates":
        if bc["ncvar"] == old and bc["type"] in ("auxiliary_coordinate", "dimension_coordinate") and bf["ncvar"] == v:
            return True, False
        if bc["type"] == "domain_ancillary" and has_formula_terms(bf, old):
            return True, False
        return False, False
    if attr == "cell_measures":
        return (bc["type"] == "cell_measure" and bc["ncvar"] == old and bf["ncvar"] == v), False
    if attr == "ancillary_variables":
        return (bc["type"] == "field_ancillary" and bc["ncvar"] == old and bf["ncvar"] == v), False
    if attr == "formula_terms":
        if bc["type"] == "domain_ancillary":
            if bc["ncvar"] == old:
                return True, False
            if bc["bounds"] and bc["bounds"][0] == old:
                return False, True
            # the bounds variable's formula_terms: the bounds of the same term's ancillary
            return False, is_bounds_var(bf, v)
        return False, False
    if attr in ("node_coordinates", "node_count", "part_node_count", "interior_ring"):
        return False, bc["type"] == "auxiliary_coordinate"
    return False, False


def has_formula_terms(bf, coord_ncvar):
    return any(cr["terms"] and coord_ncvar in cr["coordinates"] for cr in bf["coordinate_references"])


def is_bounds_var(bf, v):
    return any(c["bounds"] and c["bounds"][0] == v for c in bf["constructs"])


def cr_affected(bcr, meta, bf):
    attr, v, old = meta["attr"], meta["var"], meta["old"]
    if attr == "grid_mapping":
        return bcr["ncvar"] is not None or True  # the datum of a vertical reference comes from the grid mapping
    if attr == "formula_terms":
        return bool(bcr["terms"])
    if attr == "coordinates":
        return old in bcr["coordinates"]
    if attr in ("bounds", "climatology"):
        return bool(bcr["terms"]) and v in bcr["coordinates"]
    return False


def cr_same(a, b, meta):
    return a == b


# ---------------------------------------------------------------- run
def run_cases(chk, cases, nworkers=12):
    for i, c in enumerate(cases):
        c["cid"] = f"c{i:05d}"
    shards = [cases[i::nworkers] for i in range(nworkers)]
    payloads = [{"mode": "faults", "scratch": chk.scratch,
                 "cases": [{"cid": c["cid"], "base": c["base"], "edits": c["edits"], "foreign": c["foreign"],
                            "want_raw": True} for c in sh]} for sh in shards if sh]
    res = lib.run_workers_parallel("drive/c13.py", payloads, timeout=1500)
    rows = {}
    crashed = []
    for w, (rc, out, err) in enumerate(res):
        for r in out:
            rows[r["cid"]] = r
        if rc != 0:
            crashed.append((w, rc, err[-400:]))
    return rows, crashed


def make_bases(chk):
    specs = base_specs(chk.tier)
    rc, out, err = lib.run_worker("drive/c13.py", {"mode": "bases", "scratch": chk.scratch, "bases": specs})
    bases = {}
    for r in out:
        if "error" in r or r["read"]["exc"]:
            chk.fail("correspondence", "base-file", f"base file {r['id']} could not be written/read: "
                     f"{r.get('error') or r['read']}", {"correspondence": "drive/c13.py bases"})
            continue
        bases[r["id"]] = r
    if rc != 0:
        chk.fail("correspondence", "worker-crash", f"bases worker rc={rc}: {err[-500:]}",
                 {"correspondence": "drive/c13.py"})
    return bases


def run(chk, model_ok):
    raise NotImplementedError


def replay(chk, path):
    raise NotImplementedError
