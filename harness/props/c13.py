"""C13 - structurally non-compliant datasets are read, and reported (DESIGN.md section 4, C13).

Fault enumeration tied to the Coq model C13/Model.v:
  bases     = cfdm.example_field(n) (n = 0..7, DSG-compressed forms of 3 and 4) written by cfdm and
              varied with netCDF4-python (second data variable, extra cell measure / ancillary /
              char coordinate, extended grid_mapping, climatology, cell-method intervals, external measure);
  faults    = every (variable, reference attribute, name token) x {missing name, variable with foreign
              dimensions, removed} plus malformed cell_methods / formula_terms / grid_mapping /
              cell_measures strings, plus a seeded stream of double faults and random strings;
  oracle    = no exception, no descriptor left open, every field of the unfaulted read still returned
              with the same data and the same constructs apart from the one owning the token, the
              problem present in dataset_compliance(), all data readable;
  model tie = the raw content of every faulted file (read with netCDF4-python) is printed as a Gallina
              dataset and C13.Run.check_case compares the model's reading with what cfdm returned.
"""
import json
import os
import re

import lib
from lib import gstr, gbool, glist, gopt

REQ = "From CfdmV Require Import Common.Base C13.Model C13.Run.\nOpen Scope string_scope."

LIST_ATTRS = ("bounds", "climatology", "coordinates", "ancillary_variables", "geometry",
              "node_coordinates", "node_count", "part_node_count", "interior_ring", "nodes")
MAP_ATTRS = ("cell_measures", "formula_terms", "grid_mapping")
DIM_ATTRS = ("compress", "sample_dimension", "instance_dimension", "dimensions")
GEOM_ATTRS = ("node_coordinates", "node_count", "part_node_count", "interior_ring")
UGRID_ATTRS = ("mesh", "face_coordinates", "edge_coordinates", "face_node_connectivity", "edge_node_connectivity")
MISSING = "nope_missing"
FOREIGN = ("zz_foreign1", "zz_foreign2")

MALFORMED = {
    "cell_methods": [
        "time: mean (interval: 0.1 nope_missing", "time: mean (", "time: mean (interval:",
        "time: mean (interval: 1 hour", "(", "time:", "time: mean within", "time: mean where",
        "time: mean over", "time: mean (interval: abc hours)", "time: mean (interval: 1 hour interval: 2 hours)",
        ")", "time: mean )", "mean", ": mean", "time: mean (comment:", "time: mean (interval: 1 hour comment:",
        "time: mean (comment: x", "time: mean (x", "area: mean (interval: [1 degree)",
    ],
    "formula_terms": ["a: b: B", "a:", "a b", "a: x y", ":", "a: nope.dot", "a: b orog", " a: b"],
    "grid_mapping": ["crs:", "crs: x: y", "a b", "crs: x crs2:", "crs.1", "crs: x crs"],
    "cell_measures": ["area:", "area", "area: a b", "area cell_measure", ": x", "area: a volume:"],
}
# templates using the data variable's own dimension names ({d0} first, {dl} last)
MALFORMED_T = {
    "cell_methods": ["{d0}: {dl}: mean (interval: 1 m interval: 2 m interval: 3 m)",
                     "{d0}: mean (interval: 1 hour", "{dl}: mean where"],
}
# well-formed strings that name a non-time axis as climatological: the construct container
# (cfdm/constructs.py _set_climatology), not the reader, rejects them
SEMANTIC_T = {
    "cell_methods": ["{dl}: maximum within days", "{d0}: mean over years"],
}


# ---------------------------------------------------------------- bases
def base_specs(tier):
    specs = [{"id": f"e{i}", "example": i} for i in range(8)]
    specs += [
        {"id": "e3c", "example": 3, "compress": "contiguous"},
        {"id": "e3i", "example": 3, "compress": "indexed"},
        {"id": "e4ic", "example": 4, "compress": "indexed_contiguous"},
        {"id": "e1v", "example": 1, "variants": ["char_aux", "extra_measure", "extra_ancillary", "second_field"]},
        {"id": "e1g", "example": 1, "variants": ["extended_grid_mapping", "interval_methods"]},
        {"id": "e1m", "example": 1, "variants": ["extra_measure", "extra_ancillary"]},
        {"id": "e2c", "example": 2, "variants": ["climatology"]},
        {"id": "e0x", "example": 0, "variants": ["external_measure", "extra_measure"]},
        {"id": "e7v", "example": 7, "variants": ["second_field", "extended_grid_mapping"]},
        {"id": "e0v", "example": 0, "variants": ["second_field", "char_aux", "interval_methods"]},
        {"id": "e6v", "example": 6, "variants": ["second_field"]},
        # third pass: compression by gathering, a string-valued scalar coordinate shared by two data
        # variables, a grouped dataset, a domain variable, a UGRID mesh
        {"id": "e0g", "example": 0, "variants": ["gathered"]},
        {"id": "e0s", "example": 0, "variants": ["string_scalar"]},
        {"id": "e1grp", "example": 1, "groups": True},
        {"id": "e1dom", "example": 1, "domain": True, "read_kwargs": {"domain": True}},
        {"id": "ug", "example": 0, "ugrid": True},
    ]
    return specs


# ---------------------------------------------------------------- fault sites
def name_tokens(attr, value):
    """[(token index, name, role)] for the name tokens of a reference attribute."""
    toks = value.split()
    out = []
    if attr in LIST_ATTRS or attr in DIM_ATTRS or attr in UGRID_ATTRS:
        return [(i, t, "name") for i, t in enumerate(toks)]
    if attr in MAP_ATTRS:
        for i, t in enumerate(toks):
            if t.endswith(":"):
                if attr == "grid_mapping":
                    out.append((i, t[:-1], "key"))
            else:
                out.append((i, t, "name"))
        return out
    return out


def replace_token(value, i, new, role):
    toks = value.split()
    if new is None:
        del toks[i]
    else:
        toks[i] = new + (":" if role == "key" else "")
    return " ".join(toks)


def enumerate_faults(base, rng, tier):
    """All single faults of one base (dicts with cid, base, edits, foreign, meta)."""
    out = []
    raw = base["raw"]
    spec = base.get("spec") or {}
    n = 0
    vars_by_name = {v["name"]: v for v in raw["vars"]}
    for var in raw["vars"]:
        for attr, value in var["attrs"].items():
            if value is None:
                continue
            if attr == "dimensions" and not spec.get("domain"):
                continue
            if attr in UGRID_ATTRS and not spec.get("ugrid"):
                continue
            if attr in LIST_ATTRS or attr in MAP_ATTRS or attr in DIM_ATTRS or attr in UGRID_ATTRS:
                for (i, name, role) in name_tokens(attr, value):
                    for kind in ("missing", "foreign", "removed"):
                        if kind == "foreign" and attr == "grid_mapping" and (role == "key" or len(value.split()) == 1):
                            continue  # a grid mapping variable may have any dimensions
                        if kind == "missing":
                            news = [MISSING]
                        elif kind == "foreign":
                            if attr in DIM_ATTRS:
                                news = ["zz_fdim"]
                            elif attr in ("bounds", "climatology"):
                                # both ranks, and a variable of the rank and trailing dimensions of the
                                # original bounds variable with a foreign leading dimension
                                news = list(FOREIGN) + ["zz_fbnd"]
                            else:
                                news = list(FOREIGN) if tier == "thorough" else [FOREIGN[(n + i) % 2]]
                                if attr in ("coordinates", "ancillary_variables", "cell_measures") and var["dims"]:
                                    # a netCDF string variable whose only foreign dimension is its last one
                                    news.append("zz_str")
                                if attr == "coordinates":
                                    # a data variable of the file (unreferenced, foreign dimensions)
                                    news.append("zz_data")
                        else:
                            news = [None]
                        for new in news:
                            nv = replace_token(value, i, new, role)
                            if kind == "removed" and role == "key":
                                continue
                            extra = extra_vars_for(new, var, name, vars_by_name)
                            if extra is None:
                                continue
                            out.append({
                                "base": base["id"], "foreign": kind == "foreign", "extra_vars": extra,
                                "edits": [[var["name"], attr, nv if nv.strip() else None]],
                                "meta": {"var": var["name"], "attr": attr, "kind": kind, "tok": i,
                                         "old": name, "new": new, "role": role, "value": nv, "orig": value,
                                         "ugrid": bool(spec.get("ugrid")), "carrier_dims": var["dims"]}})
                            n += 1
            if attr in MALFORMED or attr == "cell_methods":
                tmpl = [t.format(d0=(var["dims"] or ["x"])[0], dl=(var["dims"] or ["x"])[-1])
                        for t in MALFORMED_T.get(attr, [])]
                sem = [t.format(d0=(var["dims"] or ["x"])[0], dl=(var["dims"] or ["x"])[-1])
                       for t in SEMANTIC_T.get(attr, [])]
                for s in MALFORMED.get(attr, []) + tmpl + sem:
                    out.append({
                        "base": base["id"], "foreign": False, "edits": [[var["name"], attr, s]],
                        "meta": {"var": var["name"], "attr": attr, "kind": "semantic" if s in sem else "malformed",
                                 "tok": None, "old": None, "new": None, "role": None, "value": s, "orig": value}})
    return out


def extra_vars_for(new, var, old_name, vars_by_name):
    """Specification of the replacement variable `new` when it is not one of the two standard
    foreign variables ([] = nothing to add, None = this replacement does not apply here)."""
    if new == "zz_fbnd":
        ob = vars_by_name.get(old_name)
        if ob is None or len(ob["dims"]) < 2:
            return None
        return [{"name": "zz_fbnd", "dims": ["zz_fdim"] + list(ob["dims"][1:]), "dtype": "f8",
                 "attrs": {"long_name": "foreign leading dimension"}}]
    if new == "zz_str":
        return [{"name": "zz_str", "dims": [var["dims"][0], "zz_fdim"], "dtype": "str",
                 "attrs": {"long_name": "string variable, last dimension foreign"}}]
    if new == "zz_data":
        return [{"name": "zz_data", "dims": ["zz_fdim"], "dtype": "f8",
                 "attrs": {"standard_name": "air_pressure", "units": "Pa"}}]
    return []


def attr_class(meta):
    return f"{meta['attr']}:{meta['kind']}"


# ---------------------------------------------------------------- oracle
def cons_key(c):
    return (c["type"], str(c["ncvar"]))


def strip_bounds(c):
    d = dict(c)
    d["bounds"] = None
    d.pop("clim", None)
    d.pop("geometry", None)
    return d


def strip_clim(c):
    d = dict(c)
    d.pop("clim", None)
    return d


def dangling_key(value):
    toks = (value or "").split()
    for i, t in enumerate(toks):
        if t.endswith(":") and (i + 1 == len(toks) or toks[i + 1].endswith(":")):
            return True
    return False


def effective_kind(meta):
    """'removed' that leaves a key of a mapping attribute without value is a malformed string."""
    if meta["kind"] == "removed" and meta["attr"] in MAP_ATTRS and dangling_key(meta["value"]):
        return "malformed"
    if meta["kind"] == "semantic":
        return "malformed"
    return meta["kind"]


def has_formula_terms(bf, coord_ncvar):
    return any(cr["terms"] and coord_ncvar in cr["coordinates"] for cr in bf["coordinate_references"])


def is_bounds_var(bf, v):
    return any(c["bounds"] and c["bounds"][0] == v for c in bf["constructs"])


def construct_role(bc, meta, bf):
    """How a construct of the unfaulted field relates to the fault:
       'none'    must be returned unchanged,
       'owner'   is the element named by the token: may be left out,
       'bounds'  owns the token through its bounds: must be returned, its bounds may be left out,
       'sibling' is named by the same attribute value as the owner (the reader drops these as well:
                 classified separately, see known findings)."""
    attr, v, old = meta["attr"], meta["var"], meta["old"]
    kind = effective_kind(meta)
    t = bc["type"]
    own_field = bf["ncvar"] == v
    if kind == "malformed":
        if attr == "cell_measures" and own_field and t == "cell_measure":
            return "owner"
        if attr == "ancillary_variables" and own_field and t == "field_ancillary":
            return "owner"
        if attr == "formula_terms" and t == "domain_ancillary":
            return "bounds" if is_bounds_var(bf, v) else "owner"
        if attr == "cell_methods" and own_field:
            return "clim"
        return "none"
    if attr in ("bounds", "climatology", "nodes"):
        if bc["ncvar"] == v and t != "domain_ancillary":
            return "bounds"
        if t == "domain_ancillary" and has_formula_terms(bf, v):
            return "bounds"
        return "none"
    if attr == "coordinates" and own_field:
        if bc["ncvar"] == old and t in ("auxiliary_coordinate", "dimension_coordinate"):
            return "owner"
        if t == "domain_ancillary" and has_formula_terms(bf, old):
            return "owner"
        return "none"
    if attr == "cell_measures" and own_field and t == "cell_measure":
        return "owner" if bc["ncvar"] == old else "sibling"
    if attr == "ancillary_variables" and own_field and t == "field_ancillary":
        return "owner" if bc["ncvar"] == old else "sibling"
    if attr == "formula_terms" and t == "domain_ancillary":
        if is_bounds_var(bf, v):
            return "bounds" if (bc["bounds"] and bc["bounds"][0] == old) else "none"
        if has_formula_terms(bf, v):
            return "owner" if bc["ncvar"] == old else "sibling"
        return "none"
    if attr in GEOM_ATTRS:
        if t == "auxiliary_coordinate":
            return "owner" if bc["ncvar"] is None else "bounds"
        return "none"
    return "none"


def cr_role(bcr, meta, bf):
    attr, v, old = meta["attr"], meta["var"], meta["old"]
    kind = effective_kind(meta)
    if attr == "grid_mapping" and bf["ncvar"] == v:
        if kind == "malformed":
            return "owner"
        toks = meta["orig"].split()
        if len(toks) == 1:
            return "owner"          # also the datum of a vertical reference comes from the grid mapping
        # extended form: the mapping whose key precedes the token
        key = None
        for i, t in enumerate(toks):
            if t.endswith(":"):
                key = t[:-1]
            if i == meta["tok"]:
                break
        if bcr["ncvar"] == key:
            return "owner"
        return "sibling" if bcr["ncvar"] is not None else "datum"
    if attr == "formula_terms" and bcr["terms"] and (v in bcr["coordinates"] or is_bounds_var(bf, v)):
        if is_bounds_var(bf, v):
            return "none"
        return "owner" if kind == "malformed" else "terms"
    if attr == "coordinates" and bf["ncvar"] == v and old in bcr["coordinates"]:
        return "owner" if bcr["terms"] else "coords"
    return "none"


def oracle(case, base, row):
    """List of (signature, what) property failures for one faulted read."""
    meta = case["meta"]
    cls = attr_class(meta)
    fails = []
    if "crash" in row:
        return [(f"read-crashes:{cls}", f"the process reading the file was killed by signal {row['crash']}")]
    rd = row.get("read")
    if rd is None:
        return [("harness:" + cls, "the faulted file could not be produced: " + str(row.get("error")))]
    if rd.get("open_fds"):
        fails.append(("file-left-open", f"{rd['open_fds']} descriptor(s) on the dataset still open after "
                      f"cfdm.read {'raised ' + str(rd['exc']) if rd['exc'] else 'returned'}"))
    if rd["exc"] is not None:
        fails.append((f"read-raises:{cls}", f"cfdm.read raised {rd['exc']}: {rd['msg']} at {rd.get('where')}"))
        return fails
    bfields = {f["ncvar"]: f for f in base["read"]["fields"]}
    rfields = {f["ncvar"]: f for f in rd["fields"] if not f.get("extra")}
    old, attr, v = meta["old"], meta["attr"], meta["var"]
    structural = (attr in DIM_ATTRS or attr == "geometry" or attr in UGRID_ATTRS
                  or (meta.get("ugrid") and attr in GEOM_ATTRS))
    # the complete list of returned fields: a variable added to the file with foreign dimensions is
    # referenced by nothing that can be mapped, so it must come back as a field of its own -
    # also when it is the replacement named by the broken token
    domain_read = bool((base.get("spec") or {}).get("read_kwargs", {}).get("domain"))
    if not structural and not domain_read and attr not in GEOM_ATTRS + ("nodes",):
        added = (list(FOREIGN) if case.get("foreign") else []) + [sp["name"] for sp in case.get("extra_vars") or []]
        got = {f["ncvar"] for f in rd["fields"]}
        for a in added:
            if a not in got:
                fails.append((f"field-lost:{cls}", f"the unreferenced variable {a} (foreign dimensions) is no longer "
                              f"returned as a field; returned: {sorted(map(str, got))}"))
    for n, bf in bfields.items():
        rf = rfields.get(n)
        if rf is None:
            fails.append((f"field-lost:{cls}", f"no field for data variable {n} is returned"))
            continue
        if not structural:
            # (for a broken compression / geometry reference the data themselves cannot be mapped:
            #  only presence of the field and the report are required)
            if rf["data"] != bf["data"] or rf["data_axes"] != bf["data_axes"]:
                fails.append((f"field-data-changed:{cls}", f"data of {n}: {bf['data']} {bf['data_axes']} -> "
                              f"{rf['data']} {rf['data_axes']}"))
            rcons = {}
            for c in rf["constructs"]:
                rcons.setdefault(cons_key(c), []).append(c)
            for bc in bf["constructs"]:
                role = construct_role(bc, meta, bf)
                cands = rcons.get(cons_key(bc), [])
                if role == "owner":
                    continue
                if role == "bounds":
                    ok = any(strip_bounds(c) == strip_bounds(bc) for c in cands)
                elif role == "clim":
                    ok = any(strip_clim(c) == strip_clim(bc) for c in cands)
                else:
                    ok = bc in cands
                if not ok:
                    sig = "sibling-dropped" if role == "sibling" and not cands else "unaffected-construct-changed"
                    fails.append((f"{sig}:{cls}:{bc['type']}",
                                  f"field {n}: construct {bc['type']}:{bc['ncvar']} (axes {bc['axes']}, bounds "
                                  f"{bc['bounds'] and bc['bounds'][0]}) is "
                                  f"{'missing' if not cands else 'different: ' + json.dumps(cands[0])[:200]}"))
            for bcr in bf["coordinate_references"]:
                role = cr_role(bcr, meta, bf)
                if role == "owner":
                    continue
                found = False
                for rcr in rf["coordinate_references"]:
                    a, b = dict(bcr), dict(rcr)
                    if role in ("datum", "sibling") or attr == "grid_mapping":
                        a.pop("datum"), b.pop("datum")
                    if role == "terms":
                        a["terms"] = [t for t, _ in a["terms"]]
                        b["terms"] = [t for t, _ in b["terms"]]
                    if role == "coords":
                        a["coordinates"] = [x for x in a["coordinates"] if x != old]
                    found = found or a == b
                if not found:
                    gone = not any(rcr["ncvar"] == bcr["ncvar"] and bool(rcr["terms"]) == bool(bcr["terms"])
                                   for rcr in rf["coordinate_references"])
                    sig = "sibling-dropped" if role in ("sibling", "terms") and gone else "unaffected-construct-changed"
                    fails.append((f"{sig}:{cls}:coordinate_reference",
                                  f"field {n}: coordinate reference {bcr} is missing or different: "
                                  f"{rf['coordinate_references']}"))
            scalar_named = any(("scalar:" + str(old) + "[") in " ".join(cm["axes"]) for cm in bf["cell_methods"])
            if not (attr == "cell_methods" and bf["ncvar"] == v) and not (attr == "coordinates" and scalar_named):
                if rf["cell_methods"] != bf["cell_methods"]:
                    fails.append((f"unaffected-construct-changed:{cls}:cell_method",
                                  f"field {n}: cell methods {bf['cell_methods']} -> {rf['cell_methods']}"))
        # (a compression attribute that names other existing dimensions, or fewer, can not be told from a
        #  valid one by its names: the data then do not fit and can not be read)
        check_data = not (structural and effective_kind(meta) != "missing")
        for c in rf["constructs"] if check_data else ():
            for d in (c["data"], c["bounds"] and c["bounds"][1]):
                if d and str(d[1]).startswith("ERR"):
                    fails.append((f"data-unreadable:{cls}", f"field {n}: data of {c['type']}:{c['ncvar']} "
                                  f"cannot be read: {d[1]}"))
        if check_data and rf["data"] and str(rf["data"][1]).startswith("ERR"):
            fails.append((f"data-unreadable:{cls}", f"field {n}: field data cannot be read: {rf['data'][1]}"))
        for c in [rf] + rf["constructs"]:
            for d in (c["data"], c.get("bounds") and c["bounds"][1]):
                if d and str(d[1]).startswith("ALIASED"):
                    fails.append((f"data-aliased:{cls}", f"field {n}: the array returned for "
                                  f"{c.get('type', 'field')}:{c['ncvar']} shares memory with the construct: {d[1]}"))
        # the report
        if not structural and not field_concerned(bf, meta, base) and rf["report"]:
            fails.append((f"spurious-report:{cls}", f"field {n} does not contain {v} but its dataset_compliance() "
                          f"is not empty: {rf['report'][:3]}"))
        if field_concerned(bf, meta, base) and report_expected(meta, rf):
            if not report_mentions(rf["report"], meta):
                fails.append((f"not-reported:{cls}", f"field {n}: dataset_compliance() does not mention the broken "
                              f"{v}:{attr} = {meta['value']!r}; report = {rf['report'][:4]}"))
    if attr in ("compress", "sample_dimension", "instance_dimension") and effective_kind(meta) == "missing":
        # the problem of a list / count / index variable belongs in the report of the field built from that
        # variable, or of a field whose data it compresses: some returned field must have it
        if not any(report_mentions(f["report"], meta) for f in rd["fields"]):
            fails.append((f"not-reported:{cls}", f"no returned field's dataset_compliance() mentions the broken "
                          f"{v}:{attr} = {meta['value']!r}; fields {[f['ncvar'] for f in rd['fields']]}"))
    if meta["kind"] == "geometry-user":
        tf = next((f for f in rd["fields"] if f["ncvar"] == v), None)
        if tf is None:
            fails.append((f"field-lost:{cls}", f"the variable {v} ({meta['label']}) that names geometry container "
                          f"{meta['value']} is not returned as a field"))
        elif not any(key == meta["value"] or (att and any(val == meta["value"] for _, val in att))
                     for fv, key, reason, code, att in tf["report"]):
            fails.append((f"not-reported:{cls}", f"field {v}: dataset_compliance() does not mention the geometry "
                          f"container {meta['value']} whose cells it does not span; report = {tf['report'][:3]}"))
    return fails


def field_concerned(bf, meta, base=None):
    """Does the base field contain the variable carrying the attribute (as itself or as a construct)?"""
    v = meta["var"]
    if bf["ncvar"] == v:
        return True
    if meta["attr"] in GEOM_ATTRS and base is not None and not meta.get("ugrid"):
        # the carrying variable is a geometry container: the fields of the data variables naming it
        return any(x["name"] == bf["ncvar"] and x["attrs"].get("geometry") == v for x in base["raw"]["vars"])
    if meta["attr"] in ("compress", "sample_dimension", "instance_dimension"):
        # (judged over all returned fields, see oracle)
        return False
    for c in bf["constructs"]:
        if c["ncvar"] == v or (c["bounds"] and c["bounds"][0] == v):
            return True
    return False


def report_expected(meta, rf):
    k = effective_kind(meta)
    if meta["attr"] in DIM_ATTRS:
        # a name that is a dimension of the file, or a name left out, is not a detectable broken reference
        return k == "missing"
    if meta.get("ugrid"):
        return False
    if meta["attr"] in GEOM_ATTRS and k == "foreign":
        # a part node count / interior ring variable has no parent whose dimensions it must share
        return meta["attr"] in ("node_coordinates", "node_count")
    if k in ("missing", "foreign"):
        return True
    if k == "malformed":
        if meta["attr"] == "cell_methods":
            # a string the parser did map to cell methods is not a detected problem
            return not rf["cell_methods"] and meta["value"].strip() != ""
        return meta["value"].strip() != ""
    return False


def report_mentions(report, meta):
    if str(meta["var"]).startswith("/") and effective_kind(meta) == "malformed" and report:
        # (in a grouped dataset the flattener rewrites the attribute before the reader sees it)
        return True
    for fv, key, reason, code, att in report:
        if meta["new"] and key == meta["new"]:
            return True
        if att:
            for k, val in att:
                if k.endswith(":" + meta["attr"]) and val == meta["value"]:
                    return True
                if k.split(":")[0] == meta["var"] and meta["new"] and meta["new"] in val.split():
                    return True
        if effective_kind(meta) == "malformed" and key == meta["var"] and reason and (
                meta["attr"] in reason or "incorrectly formatted" in reason):
            return True
    return False


# ---------------------------------------------------------------- run
def run_cases(chk, cases, bases, nworkers=12):
    for i, c in enumerate(cases):
        c["cid"] = f"c{i:05d}"
    shards = [cases[i::nworkers] for i in range(nworkers)]
    payloads = [{"mode": "faults", "scratch": chk.scratch,
                 "cases": [{"cid": c["cid"], "base": c["base"], "edits": c["edits"], "foreign": c["foreign"],
                            "extra_vars": c.get("extra_vars") or [],
                            "read_kwargs": (bases[c["base"]].get("spec") or {}).get("read_kwargs"),
                            "external": c.get("external"),
                            "base_fields": [f["ncvar"] for f in bases[c["base"]]["read"]["fields"]]} for c in sh]} for sh in shards if sh]
    res = lib.run_workers_parallel("drive/c13.py", payloads, timeout=1500)
    rows = {}
    crashed = []
    for w, (rc, out, err) in enumerate(res):
        for r in out:
            rows[r["cid"]] = r
        if rc != 0:
            crashed.append((w, rc, err[-400:]))
    return rows, crashed


def make_bases(chk):
    specs = base_specs(chk.tier)
    if chk.tier != "thorough":
        specs = [sp for sp in specs if sp["id"] in QUICK_BASES]
    rc, out, err = lib.run_worker("drive/c13.py", {"mode": "bases", "scratch": chk.scratch, "bases": specs})
    bases = {}
    for r in out:
        if "error" in r or r["read"]["exc"]:
            chk.fail("correspondence", "base-file", f"base file {r['id']} could not be written/read: "
                     f"{r.get('error') or r['read']}", {"correspondence": "drive/c13.py bases"})
            continue
        r["spec"] = next(sp for sp in specs if sp["id"] == r["id"])
        # bases that the Coq model does not describe (judged by the property oracle only)
        r["raw"]["outside"] = bool(r["spec"].get("read_kwargs") or r["spec"].get("ugrid") or r["spec"].get("groups"))
        bases[r["id"]] = r
        for f in r["read"]["fields"]:
            if f.get("report"):
                chk.fail("property", "spurious-report:valid-file",
                         f"valid base file {r['id']}: dataset_compliance() of field {f['ncvar']} is not empty: "
                         f"{f['report'][:3]}", {"input": {"base": r["id"], "edits": []}, "observed": f["report"][:6]})
    if rc != 0:
        chk.fail("correspondence", "worker-crash", f"bases worker rc={rc}: {err[-500:]}",
                 {"correspondence": "drive/c13.py"})
    return bases


# ---------------------------------------------------------------- model tie
MODEL_ATTRS = ("bounds", "climatology", "coordinates", "cell_measures", "ancillary_variables",
               "grid_mapping", "formula_terms", "cell_methods", "dimensions", "compress")
OUTSIDE_ATTRS = ("sample_dimension", "instance_dimension", "geometry", "nodes", "node_coordinates",
                 "mesh", "location_index_set", "coordinate_interpolation", "topology_dimension", "bounds_tie_points")
CTYPE = {"dimension_coordinate": "CDim", "auxiliary_coordinate": "CAux", "domain_ancillary": "CDomAnc",
         "cell_measure": "CMeasure", "field_ancillary": "CFieldAnc"}
WHAT = {"Bounds variable": "WBounds", "Auxiliary/scalar coordinate variable": "WAux",
        "Cell measures variable": "WMeasure", "cell_measures attribute": "WMeasureAttr",
        "Ancillary variable": "WAnc", "ancillary_variables attribute": "WAncAttr",
        "Formula terms variable": "WFt", "formula_terms attribute": "WFtAttr",
        "Bounds formula terms variable": "WBFt", "Bounds formula_terms attribute": "WBFtAttr",
        "Grid mapping variable": "WGm", "grid_mapping attribute": "WGmAttr",
        "Grid mapping coordinate variable": "WGmCoord", "Cell method interval": "WCmInterval",
        "cell_methods attribute": "WCmAttr", "Compressed dimension": "WCompress",
        "compress attribute": "WCompressAttr"}
REASON = {"is not in file": "RMissing", "spans incorrect dimensions": "RDims", "is incorrectly formatted": "RFormat",
          "is not in file nor referenced by the external_variables global attribute": "RMissingExt",
          "has incompatible terms": "RIncompat", "that spans the vertical dimension has no bounds": "RNoBounds",
          "that does not span the vertical dimension is inconsistent with the formula_terms of the parametric "
          "coordinate variable": "RInconsistent", "is not used by data variable": "RNotUsed"}
ERRK = {"KeyError": "KeyErr", "IndexError": "IndexErr", "ValueError": "ValueErr", "TypeError": "TypeErr"}


def printable(s):
    return isinstance(s, str) and all(32 <= ord(c) < 127 for c in s)


def apply_edits(raw, case):
    """The raw content of the faulted file: the base content with the edits applied (pure)."""
    vs = []
    for v in raw["vars"]:
        d = dict(v)
        d["attrs"] = dict(v["attrs"])
        vs.append(d)
    gattrs = dict(raw["gattrs"])
    for var, attr, new in case["edits"]:
        tgt = gattrs if var is None else next(v for v in vs if v["name"] == var)["attrs"]
        if new is None:
            tgt.pop(attr, None)
        else:
            tgt[attr] = new
    if case.get("foreign"):
        vs.append({"name": "zz_foreign1", "dims": ["zz_fdim"], "char": False, "string": False,
                   "attrs": {"long_name": "foreign 1-d"}})
        vs.append({"name": "zz_foreign2", "dims": ["zz_fdim", "zz_fdim2"], "char": False, "string": False,
                   "attrs": {"long_name": "foreign 2-d"}})
    for sp in case.get("extra_vars") or []:
        vs.append({"name": sp["name"], "dims": list(sp["dims"]), "char": sp.get("dtype") == "S1",
                   "string": sp.get("dtype") == "str", "attrs": dict(sp.get("attrs") or {})})
    dims = [d[0] for d in raw.get("dims") or []]
    extra_dims = []
    for v in vs:
        for d in v["dims"]:
            if d not in dims and d not in extra_dims:
                extra_dims.append(d)
    return {"vars": vs, "gattrs": gattrs, "dims": raw.get("dims") or [], "extra_dims": extra_dims,
            "groups": raw.get("groups"), "outside": raw.get("outside")}


def in_model_fragment(raw):
    if not str(raw["gattrs"].get("Conventions", "")).startswith("CF-1.11"):
        return False
    if raw.get("groups") or raw.get("outside"):
        return False
    for v in raw["vars"]:
        if v["name"].startswith("/"):
            return False
        for a, val in v["attrs"].items():
            if a in OUTSIDE_ATTRS:
                return False
            if a == "compress" and list(v["dims"]) != [v["name"]]:
                return False
            if a in MODEL_ATTRS and not printable(val):
                return False
        if not printable(v["name"]):
            return False
    return True


def g_ads(raw):
    vs = []
    for v in raw["vars"]:
        attrs = [(a, val) for a, val in v["attrs"].items() if a in MODEL_ATTRS and val is not None]
        vs.append(f"mkVar {gstr(v['name'])} {glist(v['dims'], gstr)} {gbool(v['char'])} {gbool(v['string'])} "
                  f"{glist(attrs, lambda kv: f'({gstr(kv[0])}, {gstr(kv[1])})')}")
    ext = str(raw["gattrs"].get("external_variables", "")).split()
    dims = [d[0] for d in raw.get("dims") or []] + [d for d in raw.get("extra_dims") or []]
    return f"(mkAds3 [{'; '.join(vs)}] {glist(ext, gstr)} {glist(dims, gstr)})"


def split_reason(reason):
    """'Bounds variable is not in file' -> ('WBounds', 'RMissing')"""
    if not reason:
        return "WOther", "ROtherReason"
    best = None
    for w in WHAT:
        if reason.startswith(w + " ") and (best is None or len(w) > len(best)):
            best = w
    if best is None:
        return "WOther", "ROtherReason"
    return WHAT[best], REASON.get(reason[len(best) + 1:], "ROtherReason")


def g_field(f):
    cons = []
    for c in f["constructs"]:
        if c["type"] not in CTYPE:
            return None
        if c["ncvar"] is None:
            return None
        cons.append(f"({CTYPE[c['type']]}, {gstr(c['ncvar'])}, {gopt(c['bounds'] and c['bounds'][0], gstr)})")
    crefs = []
    for r in f["coordinate_references"]:
        terms = glist(r["terms"], lambda t: f"({gstr(t[0])}, {gopt(t[1], gstr)})")
        crefs.append(f"({gopt(r['ncvar'], gstr)}, {glist(r['coordinates'], gstr)}, {terms})")
    meths = [f"({len(m['axes'])}%nat, {gopt(m['method'], gstr)})" for m in f["cell_methods"]]
    rep = []
    for fv, key, reason, code, att in f["report"]:
        if not printable(key):
            continue
        w, r = split_reason(reason)
        rep.append(f"({gstr(key)}, {w}, {r})")
    return f"({gstr(f['ncvar'])}, [{'; '.join(cons)}], [{'; '.join(crefs)}], [{'; '.join(meths)}], [{'; '.join(rep)}])"


def g_case(raw, rd):
    """Gallina literal of one case, or None when the observation cannot be printed."""
    if rd["exc"] is not None:
        if rd["exc"].startswith("OBS:"):
            return None
        return f"(({g_ads(raw)}, Some {ERRK.get(rd['exc'], 'OtherErr')}, []) : case)"
    fs = []
    for f in rd["fields"]:
        g = g_field(f)
        if g is None:
            return None
        fs.append(g)
    return f"(({g_ads(raw)}, None, [{'; '.join(fs)}]) : case)"


def signature(sig, meta):
    """Stable class of a failure (what known_findings matches)."""
    parts = sig.split(":")
    if parts[0] == "sibling-dropped":
        return "sibling-dropped:" + parts[1]
    if parts[0] in ("read-raises", "read-crashes") and (meta.get("ugrid") or any(
            a in UGRID_ATTRS for a in meta["attr"].split("+"))):
        return parts[0] + ":ugrid"
    if parts[0] in ("read-raises", "read-crashes") and any(
            a in GEOM_ATTRS + ("geometry",) for a in meta["attr"].split("+")):
        # (for a double fault: one of the two faults is in the geometry container)
        return parts[0] + ":geometry-container"
    return sig


TOKENS = {
    "cell_methods": ["time:", "area:", "{d0}:", "{dl}:", "mean", "maximum", "where", "land", "(", ")", "interval:",
                     "comment:", "1", "0.5", "hour", "(interval:", "m)", "x", "(a", "b)"],
    "cell_measures": ["area:", "volume:", "cell_measure", "{d0}", "nope_missing", "a.b", "area", ":"],
    "formula_terms": ["a:", "b:", "orog:", "b", "surface_altitude", "nope_missing", "{d0}", "a", "x-y"],
    "grid_mapping": ["rotated_latitude_longitude", "rotated_latitude_longitude:", "{d0}", "{dl}", "nope_missing",
                     "nope_missing:", "latitude_1", "crs:"],
}


def random_string_faults(base, rng, n):
    """Seeded random attribute strings over the vocabulary of each parser."""
    out = []
    sites = [(v, a) for v in base["raw"]["vars"] for a in v["attrs"] if a in TOKENS and v["attrs"][a] is not None]
    if not sites:
        return out
    for _ in range(n):
        var, attr = rng.choice(sites)
        d0, dl = (var["dims"] or ["x"])[0], (var["dims"] or ["x"])[-1]
        k = rng.choice([1, 2, 2, 3, 3, 4, 5, 6, 8])
        toks = [rng.choice(TOKENS[attr]).format(d0=d0, dl=dl) for _ in range(k)]
        sval = " ".join(toks)
        if rng.random() < 0.1:
            sval = " " + sval
        if rng.random() < 0.1:
            sval = sval + " "
        out.append({"base": base["id"], "foreign": False, "edits": [[var["name"], attr, sval]],
                    "meta": {"var": var["name"], "attr": attr, "kind": "random", "tok": None, "old": None,
                             "new": None, "role": None, "value": sval, "orig": var["attrs"][attr]}})
    return out


def double_faults(singles, rng, n):
    out = []
    by_base = {}
    for c in singles:
        if c["meta"]["kind"] in ("missing", "foreign", "removed", "malformed"):
            by_base.setdefault(c["base"], []).append(c)
    keys = sorted(by_base)
    for _ in range(n):
        b = rng.choice(keys)
        c1, c2 = rng.sample(by_base[b], 2)
        if c1["edits"][0][:2] == c2["edits"][0][:2]:
            continue
        if any(a["meta"]["attr"] in DIM_ATTRS and a["meta"]["new"] == "zz_fdim" and
               any("zz_fdim" in sp["dims"][1:] for sp in b.get("extra_vars") or [])
               for a, b in ((c1, c2), (c2, c1))):
            # (the added variable would itself become a variable of the ragged array, spanning the
            #  sample dimension in the wrong position: a third fault)
            continue
        ex = {sp["name"]: sp for sp in (c1.get("extra_vars") or []) + (c2.get("extra_vars") or [])}
        out.append({"base": b, "foreign": c1["foreign"] or c2["foreign"], "edits": c1["edits"] + c2["edits"],
                    "extra_vars": list(ex.values()),
                    "meta": {"var": c1["meta"]["var"], "attr": c1["meta"]["attr"] + "+" + c2["meta"]["attr"],
                             "kind": "double", "tok": None, "old": None, "new": None, "role": None,
                             "value": f"{c1['meta']['value']} / {c2['meta']['value']}", "orig": None}})
    return out


def weak_oracle(case, base, row):
    """For double faults and random strings: no exception, nothing left open, every field still
    returned with its data."""
    cls = attr_class(case["meta"]) if case["meta"]["kind"] == "random" else "double-fault"
    if "crash" in row:
        return [(f"read-crashes:{cls}", f"the process reading the file was killed by signal {row['crash']}")]
    rd = row.get("read")
    if rd is None:
        return [("harness:" + cls, "the faulted file could not be produced: " + str(row.get("error")))]
    fails = []
    if rd.get("open_fds"):
        fails.append(("file-left-open", f"{rd['open_fds']} descriptor(s) still open"))
    if rd["exc"] is not None:
        fails.append((f"read-raises:{cls}", f"cfdm.read raised {rd['exc']}: {rd['msg']} at {rd.get('where')}"))
        return fails
    rfields = {f["ncvar"]: f for f in rd["fields"] if not f.get("extra")}
    for bf in base["read"]["fields"]:
        rf = rfields.get(bf["ncvar"])
        if rf is None:
            fails.append((f"field-lost:{cls}", f"no field for data variable {bf['ncvar']} is returned"))
        elif not any(a in case["meta"]["attr"] for a in DIM_ATTRS + ("geometry",)) and rf["data"] != bf["data"]:
            fails.append((f"field-data-changed:{cls}", f"data of {bf['ncvar']}: {bf['data']} -> {rf['data']}"))
    return fails


def geometry_user_cases(base):
    """A further variable that names an (already parsed) geometry container of the file without spanning
    its cell dimension: on a foreign dimension of the same size as the cell dimension, of another size,
    on another dimension of the file, and with no dimension at all."""
    raw = base["raw"]
    users = [v for v in raw["vars"] if v["attrs"].get("geometry")]
    if not users:
        return []
    cont = users[0]["attrs"]["geometry"]
    cell = users[0]["dims"][0]
    size = next(d[1] for d in raw["dims"] if d[0] == cell)
    other = [d for d in users[0]["dims"] if d != cell][:1]
    out = []
    for label, dims, sizes in (("same-size", ["zz_same"], {"zz_same": size}), ("other-size", ["zz_fdim"], {}),
                               ("other-dimension", other, {}), ("scalar", [], {})):
        if label == "other-dimension" and not other:
            continue
        out.append({"base": base["id"], "foreign": False, "edits": [],
                    "extra_vars": [{"name": "zz_third", "dims": dims, "dim_sizes": sizes, "dtype": "f8",
                                    "attrs": {"long_name": "off the cell dimension", "geometry": cont}}],
                    "meta": {"var": "zz_third", "attr": "geometry_user", "kind": "geometry-user", "tok": 0,
                             "old": cont, "new": None, "role": "name", "value": cont, "orig": cont, "label": label}})
    return out


def external_cases(base):
    """Reads with external files (cfdm.read(parent, external=[...])) of a base whose data variable names
    an external cell measure: files that supply the variable (H), supply nothing (N), supply it on
    foreign dimensions (B), or do not exist (M), in several orders, with a valid and with broken
    external_variables attributes."""
    dv = base["data_ncvar"]
    ext = str(base["raw"]["gattrs"].get("external_variables", "")).split()
    if not ext:
        return []
    name = ext[0]
    H = {"vars": [name], "data": dv}
    N = {"vars": ["zz_other"], "data": dv}
    B = {"vars": [name], "data": dv, "baddims": True}
    M = {"missing": True}
    combos = [("H", [H]), ("N", [N]), ("NH", [N, H]), ("HN", [H, N]), ("HH", [H, H]), ("NN", [N, N]),
              ("M", [M]), ("NM", [N, M]), ("HM", [H, M]), ("B", [B]), ("NB", [N, B]), ("none", [])]
    attrs = [("valid", None), ("extra-name", f"{name} nope_ext"), ("other-name", "nope_ext"),
             ("names-internal", f"{name} {dv}"), ("removed", "")]
    out = []
    for cn, combo in combos:
        for an, av in attrs:
            if an != "valid" and cn not in ("H", "N", "NH", "M"):
                continue
            edits = [] if an == "valid" else [[None, "external_variables", av or None]]
            out.append({"base": base["id"], "foreign": False, "extra_vars": [], "edits": edits, "external": combo,
                        "meta": {"var": None, "attr": "external_variables", "kind": "external", "tok": None,
                                 "old": None, "new": None, "role": None, "value": f"{cn}/{an}", "orig": None,
                                 "files": cn, "attribute": an}})
    return out


def external_oracle(case, base, row):
    """External files: no exception (a file that does not exist may be refused with OSError), every
    dataset - parent and external - closed when read returns or raises, every field still returned
    with its data."""
    meta = case["meta"]
    cls = "external:" + ("missing-file" if "M" in meta["files"] else "present")
    if "crash" in row:
        return [(f"read-crashes:{cls}", f"the process reading the file was killed by signal {row['crash']}")]
    rd = row.get("read")
    if rd is None:
        return [("harness:" + cls, "the files could not be produced: " + str(row.get("error")))]
    fails = []
    if rd.get("open_fds"):
        fails.append(("file-left-open", f"{rd['open_fds']} descriptor(s) on the parent dataset still open after cfdm.read "
                      f"(external={meta['files']}) {'raised ' + str(rd['exc']) if rd['exc'] else 'returned'}"))
    if any(rd.get("external_fds") or []):
        fails.append(("file-left-open", f"descriptors on the external files still open after cfdm.read "
                      f"(external={meta['files']}): {rd['external_fds']}"))
    if rd["exc"] is not None:
        if not ("M" in meta["files"] and rd["exc"] in ("OSError", "FileNotFoundError")):
            fails.append((f"read-raises:{cls}", f"cfdm.read raised {rd['exc']}: {rd['msg']} at {rd.get('where')}"))
        return fails
    rfields = {f["ncvar"]: f for f in rd["fields"]}
    for bf in base["read"]["fields"]:
        rf = rfields.get(bf["ncvar"])
        if rf is None:
            fails.append((f"field-lost:{cls}", f"no field for data variable {bf['ncvar']} is returned"))
        elif rf["data"] != bf["data"]:
            fails.append((f"field-data-changed:{cls}", f"data of {bf['ncvar']}: {bf['data']} -> {rf['data']}"))
    return fails


QUICK_BASES = ("e0", "e1", "e1v", "e1g", "e2c", "e0x", "e7v", "e6", "e6v", "e3c", "e4ic",
               "e0g", "e0s", "e1grp", "e1dom", "ug")
CORPUS = [
    # minimised earlier failures (ids as in the report): they run first
    {"base": "e1", "foreign": False, "edits": [["atmosphere_hybrid_height_coordinate", "bounds", "nope_missing"]],
     "meta": {"var": "atmosphere_hybrid_height_coordinate", "attr": "bounds", "kind": "missing", "tok": 0,
              "old": "atmosphere_hybrid_height_coordinate_bounds", "new": "nope_missing", "role": "name",
              "value": "nope_missing", "orig": "atmosphere_hybrid_height_coordinate_bounds", "corpus": "F13a"}},
    {"base": "e1", "foreign": False,
     "edits": [["atmosphere_hybrid_height_coordinate", "formula_terms", "a: atmosphere_hybrid_height_coordinate b: nope_missing orog: surface_altitude"]],
     "meta": {"var": "atmosphere_hybrid_height_coordinate", "attr": "formula_terms", "kind": "missing", "tok": 3,
              "old": "b", "new": "nope_missing", "role": "name",
              "value": "a: atmosphere_hybrid_height_coordinate b: nope_missing orog: surface_altitude",
              "orig": "a: atmosphere_hybrid_height_coordinate b: b orog: surface_altitude", "corpus": "F13b"}},
    {"base": "e0", "foreign": False, "edits": [["q", "cell_methods", "time: mean (interval: 0.1 nope_missing"]],
     "meta": {"var": "q", "attr": "cell_methods", "kind": "malformed", "tok": None, "old": None, "new": None,
              "role": None, "value": "time: mean (interval: 0.1 nope_missing", "orig": "area: mean", "corpus": "F13c"}},
    {"base": "e7v", "foreign": False, "edits": [["latitude", "bounds", "nope_missing"]],
     "meta": {"var": "latitude", "attr": "bounds", "kind": "missing", "tok": 0, "old": "latitude_bounds",
              "new": "nope_missing", "role": "name", "value": "nope_missing", "orig": "latitude_bounds",
              "corpus": "F13d"}},
    {"base": "e0", "foreign": False, "edits": [["time", "formula_terms", "a: lat"]],
     "meta": {"var": "time", "attr": "formula_terms", "kind": "random", "tok": None, "old": None, "new": None,
              "role": None, "value": "a: lat", "orig": None, "corpus": "F13f"}},
]


def run(chk, model_ok):
    rng = chk.rng
    thorough = chk.tier == "thorough"
    bases = make_bases(chk)
    use = sorted(bases) if thorough else [b for b in QUICK_BASES if b in bases]
    singles = []
    for b in use:
        singles += enumerate_faults(bases[b], rng, chk.tier)
    randoms = []
    for b in use:
        randoms += random_string_faults(bases[b], rng, 220 if thorough else 10)
    doubles = double_faults(singles, rng, 3200 if thorough else 70)
    corpus = [c for c in CORPUS if c["base"] in bases]
    externals = []
    for b in use:
        externals += external_cases(bases[b])
        singles += geometry_user_cases(bases[b])
    cases = corpus + singles + randoms + doubles + externals
    rows, crashed = run_cases(chk, cases, bases, nworkers=16)
    for w, rc, err in crashed:
        chk.fail("correspondence", "worker-crash", f"C13 worker {w} ended with rc={rc}: {err}",
                 {"correspondence": "drive/c13.py"})

    # ---- property oracle on the implementation
    explained = set()
    counts = {"kinds": {}, "attrs": {}, "exceptions": {}, "reported": 0, "extra_fields": 0, "failures": {}}
    for c in cases:
        r = rows.get(c["cid"])
        meta = c["meta"]
        counts["kinds"][meta["kind"]] = counts["kinds"].get(meta["kind"], 0) + 1
        counts["attrs"][meta["attr"]] = counts["attrs"].get(meta["attr"], 0) + 1
        if r is None:
            chk.fail("correspondence", "worker-crash", f"no observation for case {c['cid']} ({meta})",
                     {"correspondence": "drive/c13.py"})
            continue
        rd = r.get("read") or {}
        if rd.get("exc"):
            counts["exceptions"][rd["exc"]] = counts["exceptions"].get(rd["exc"], 0) + 1
        if rd.get("fields"):
            counts["reported"] += any(f.get("report") for f in rd["fields"])
            counts["extra_fields"] += any(f.get("extra") for f in rd["fields"])
        fails = (external_oracle if meta["kind"] == "external" else
                 weak_oracle if meta["kind"] in ("random", "double") else oracle)(c, bases[c["base"]], r)
        for sig, what in fails:
            sig = signature(sig, meta)
            explained.add(c["cid"])
            counts["failures"][sig] = counts["failures"].get(sig, 0) + 1
            chk.fail("property", sig, f"{c['base']}: {meta['var']}:{meta['attr']} = {meta['value']!r} "
                     f"({meta['kind']}): {what}"[:700],
                     {"input": {"base": c["base"], "edits": c["edits"], "foreign": c["foreign"],
                                "extra_vars": c.get("extra_vars") or [], "external": c.get("external"), "meta": meta},
                      "observed": {k: rd.get(k) for k in ("exc", "msg", "where", "open_fds")}})

    # ---- correspondence with the model
    ncorr = 0
    nfrag = 0
    if model_ok:
        lits, owner = [], []
        for b in use:
            if in_model_fragment(bases[b]["raw"]):
                g = g_case(bases[b]["raw"], bases[b]["read"])
                if g:
                    lits.append(g)
                    owner.append(({"base": b, "edits": [], "foreign": False, "meta": {"kind": "valid"}}, bases[b]["read"]))
        for c in cases:
            r = rows.get(c["cid"])
            if r is None or "read" not in r or c["meta"]["kind"] in ("semantic", "external"):
                continue
            raw = apply_edits(bases[c["base"]]["raw"], c)
            if not in_model_fragment(raw):
                continue
            g = g_case(raw, r["read"])
            if g:
                lits.append(g)
                owner.append((c, r["read"]))
        # check_strict = agreement AND inside the fragment; the few cases where it is false are
        # then separated into "outside the fragment" and genuine disagreements
        suspects = lib.coq_bad_indices("C13", REQ, "check_strict", lits, chunk=60)
        inside = set()
        if suspects:
            sub = [lits[i] for i in suspects]
            out_idx = set(lib.coq_bad_indices("C13", REQ, "in_fragment", sub, chunk=60))
            inside = {suspects[j] for j in range(len(suspects)) if j not in out_idx}
        bad = sorted(inside)
        ncorr = len(lits)
        nfrag = ncorr - (len(suspects) - len(bad))
        for i in bad[:40]:
            c, rd = owner[i]
            if c.get("cid") in explained:
                continue   # the property oracle already rejected this case
            chk.fail("correspondence", "model-vs-impl",
                     f"model and cfdm.read disagree on {c['base']} with {c['edits']}: exception {rd['exc']}, "
                     f"fields {[f['ncvar'] for f in (rd['fields'] or [])]}",
                     {"correspondence": "C13.Run.check_case",
                      "input": {"base": c["base"], "edits": c["edits"], "foreign": c["foreign"],
                                "extra_vars": c.get("extra_vars") or [], "meta": c["meta"]},
                      "observed": {"exc": rd["exc"], "fields": [
                          {k: f.get(k) for k in ("ncvar", "report", "coordinate_references", "cell_methods")} |
                          {"constructs": [[x["type"], x["ncvar"], x["bounds"] and x["bounds"][0]] for x in f.get("constructs", [])]}
                          for f in (rd["fields"] or [])]}})

    distinct = {lib.canon([c["base"], c["edits"], c["foreign"], [sp["name"] for sp in c.get("extra_vars") or []]]) for c in cases if c["meta"]["kind"] != "valid"}
    chk.coverage.update({
        "evaluations": len(cases) + len(use),
        "distinct_nontrivial": len(distinct),
        "rule": "a case = (generated valid file, edits); non-trivial = at least one reference attribute of the "
                "file is changed (token -> missing name | name of a variable with foreign dimensions | removed, "
                "or a malformed / random attribute string, or two such faults); distinct = distinct (base, edits)",
        "samples": [{"base": c["base"], "edits": c["edits"]} for c in (cases[0], cases[len(cases) // 2], cases[-1])],
        "bases": use,
        "single_faults": len(singles), "random_strings": len(randoms), "double_faults": len(doubles),
        "external_reads": len(externals),
        "corpus": len(corpus),
        "traces_validated_against_impl": nfrag,
        "disagreements_checked": ncorr,
        "cases_outside_model_fragment": ncorr - nfrag,
        "fault_kinds": counts["kinds"], "attributes_faulted": counts["attrs"],
        "exceptions_seen": counts["exceptions"], "reads_with_report": counts["reported"],
        "reads_with_orphan_fields": counts["extra_fields"], "oracle_failures_by_signature": counts["failures"],
        "exhaustive": False,
        "historical_refutations": "C13/Refuted.v: witnesses against the reader at the pinned commit "
                                  "(F13a, F13b, F13c, F13f, file left open)",
    })
    chk.assumptions += [
        "model fragment: one ungrouped CF-1.11 file without compression, geometry, UGRID, subsampling or external "
        "files; DSG-compressed and geometry files are enumerated and judged by the property oracle only",
        "the report is compared as a set: every (variable, kind, reason) the model expects must be in "
        "dataset_compliance(); extra entries in the implementation's report are not an error",
        "coordinates of a grid mapping given without coordinate list come from a standard-name table: not modelled",
        "cell-method intervals other than plain decimal numbers and bounds formula terms inferred without a "
        "formula_terms attribute on the bounds variable are outside the model (in_fragment = false)",
        "descriptors are counted through /proc/self/fd of the reading process, one forked process per file",
    ]


def replay(chk, path):
    d = json.load(open(path))
    bases = make_bases(chk)
    cases = []
    for x in d.get("cases", []):
        i = x.get("input")
        if i and i.get("base") in bases:
            cases.append({"base": i["base"], "edits": i["edits"], "foreign": i.get("foreign", False),
                          "extra_vars": i.get("extra_vars") or [], "external": i.get("external"), "meta": i["meta"]})
    rows, crashed = run_cases(chk, cases, bases, nworkers=4)
    nbad = 0
    for c in cases:
        r = rows.get(c["cid"], {})
        fails = (external_oracle if c["meta"]["kind"] == "external" else
                 weak_oracle if c["meta"]["kind"] in ("random", "double") else oracle)(c, bases[c["base"]], r)
        print(("FAIL " if fails else "ok   ") + f"{c['base']} {c['edits']}")
        for sig, what in fails:
            print("     ", signature(sig, c["meta"]), what[:300])
        nbad += bool(fails)
    return 1 if nbad else 0
