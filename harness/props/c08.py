"""C08 - a written dataset is a faithful CF-netCDF encoding at file level
(DESIGN.md section 4, C08).

Two streams of cases:
  names  - histories of requests to the writer's name allocator (unit level:
           NetCDFWrite._netcdf_name + the registration its callers perform);
  files  - generated SEQUENCES of fields/domains written with cfdm.write under
           generated option sets; the file is described with netCDF4-python
           only.  The property oracle (this module, independent of the Coq
           model) checks Conventions, placement of global attributes,
           names, resolution of every reference attribute, on-disk type,
           endianness, compression, string/char storage, unlimited
           dimensions and chunk shapes.  The correspondence evaluates the
           Coq model (C08.Run.check_*) on the same inputs and observations.
"""
import json
import os
import re

import lib
from lib import gz, gstr, gbool, gopt, glist, gpair

REQ = ("From CfdmV Require Import Common.Base Tables.WriterConstants C08.Model C08.Run.\n"
       "Open Scope string_scope.")

NETCDF3 = ("NETCDF3_CLASSIC", "NETCDF3_64BIT_OFFSET", "NETCDF3_64BIT_DATA")
CLASSIC_TYPES = ("NETCDF3_CLASSIC", "NETCDF3_64BIT_OFFSET", "NETCDF4_CLASSIC")
PROP_POOL = ["project", "comment", "history", "title", "institution", "source",
             "references", "foo", "bar", "Conventions"]
VALUE_POOL = ["A", "B", "some text", 7, 2.5,
              {"arr": [1, 2], "dtype": "i4"}, {"arr": [1.5, 2.5, 3.5], "dtype": "f8"}]
CONV_TOKENS = ["CF-1.6", "CF-1.9", "CF-1.11", "UGRID-1.0", "ACDD-1.3", "CMIP-6.2",
               "my conv", "XCF-1", "CF-x", "A", "CF-1.8"]
REF_ATTRS = {"coordinates", "bounds", "climatology", "cell_measures", "ancillary_variables",
             "grid_mapping", "formula_terms", "cell_methods", "compress", "sample_dimension",
             "instance_dimension", "geometry", "node_coordinates", "node_count",
             "part_node_count", "interior_ring", "geometry_type", "dimensions", "cf_role",
             "computed_standard_name"}
FILL_ATTRS = ("_FillValue", "missing_value")
STRING_REFS = ("coordinates", "bounds", "climatology", "cell_measures", "ancillary_variables", "grid_mapping",
               "formula_terms", "compress", "sample_dimension", "instance_dimension", "geometry",
               "node_coordinates", "node_count", "part_node_count", "interior_ring")
ITEMSIZE = {"f8": 8, "f4": 4, "i8": 8, "i4": 4, "i2": 2, "i1": 1, "u1": 1, "u2": 2,
            "u4": 4, "u8": 8, "b1": 1, "S1": 1}
BYTE_UNITS = {"B": 1, "KIB": 1024, "MIB": 1024 ** 2, "KB": 1000, "MB": 10 ** 6}

# minimised past failures: always run first
CORPUS_NAMES = [
    [["name", "a_b"], ["name", "a b"]],                                    # F08a
    [["name", "x"], ["name", "x 1"], ["name", "x_1"], ["name", "x"]],
    [["role", "bounds2", 2, "bounds"], ["name", "bounds2"], ["role", "b", 2, "bounds"],
     ["role", "bounds2", 4, "bounds"]],
]


def corpus_files():
    o = default_opts()
    return [
        {"fields": [{"src": ["example", 0], "ncvar": "a_b"}, {"src": ["example", 0], "ncvar": "a b"}],
         "opts": dict(o), "fam": "corpus-F08a"},
        {"fields": [{"src": ["example", 0], "ncvar": "lat"},
                    {"src": ["synth", {"shape": [3], "dtype": "f8", "dims": [{"coord": True, "ncdim": "lat"}]}]},
                    {"src": ["synth", {"shape": [4], "dtype": "f8", "dims": [{"coord": True, "ncdim": "a b"}]}]}],
         "opts": dict(o), "fam": "corpus-F08f"},
        {"fields": [{"src": ["example", 3]}], "opts": dict(o, fmt="NETCDF4_CLASSIC"), "fam": "corpus-F08g"},
        # second pass
        {"fields": [{"src": ["example", 6], "geom_edit": {"drop_repr": ["longitude"]}}], "opts": dict(o),
         "fam": "corpus-F08h"},
        {"fields": [{"src": ["example", 6], "geom_edit": {"drop_gm": True}}], "opts": dict(o), "fam": "corpus-F08i"},
        {"fields": [{"src": ["cm", {"p": "a", "name": "areacella", "external": False, "shape": [2, 3]}]},
                    {"src": ["cm", {"p": "b", "name": "areacella", "external": True, "shape": [2, 3], "off": 1}]}],
         "opts": dict(o), "fam": "corpus-F08j"},
        {"fields": [{"src": ["example", 0]}],
         "opts": dict(o, Conventions=["CF-1.8", "CF-1.9", "UGRID-1.0"]), "fam": "corpus-F08b"},
        {"fields": [{"src": ["example", 0]}],
         "opts": dict(o, Conventions=["CF-1.8", "CF-1.9"]), "fam": "corpus-F08b"},
        {"fields": [{"src": ["example", 0], "nc_global": [["bar", {"arr": [1, 2], "dtype": "i4"}]]}],
         "opts": dict(o), "fam": "corpus-F08c"},
        {"fields": [{"src": ["example", 1]}], "opts": dict(o, endian="big"), "fam": "corpus-F08d"},
        {"fields": [{"src": ["example", 0]}], "opts": dict(o, fmt="NETCDF3_CLASSIC", compress=3),
         "fam": "corpus-F08e"},
    ]


# ---------------------------------------------------------------------------
# tokens and literals
# ---------------------------------------------------------------------------
def num_norm(x):
    if isinstance(x, bool):
        return int(x)
    if isinstance(x, float) and x == int(x) and abs(x) < 1e15:
        return int(x)
    return x


def token_of_canon(cv):
    """canonical value (drive.canon_value) -> opaque token, blind to the numeric type"""
    if cv[0] == "s":
        return "s:" + cv[1]
    if cv[0] == "a":
        return "n:" + json.dumps([num_norm(x) for x in cv[2]])
    return cv[0] + ":" + json.dumps(cv[1:])


def token_of_spec(v):
    if isinstance(v, dict):
        return "n:" + json.dumps([num_norm(x) for x in v["arr"]])
    if isinstance(v, str):
        return "s:" + v
    return "n:" + json.dumps([num_norm(v)])


def g_pairs(d):
    return glist(sorted(d.items()), lambda kv: gpair(gstr(kv[0]), gstr(kv[1])))


def g_fld(props, ncg):
    return ("(mkF " + g_pairs(props) + " "
            + glist(sorted(ncg.items()), lambda kv: gpair(gstr(kv[0]), gopt(kv[1], gstr))) + ")")


def g_conv(c):
    if c is None:
        return "CNone"
    if isinstance(c, str):
        return f"(CStr {gstr(c)})"
    return f"(CList {glist(c, gstr)})"


def g_op(op):
    if op[0] == "name":
        return f"(OName {gstr(op[1])})"
    if op[0] == "dim":
        return f"(ODim {gstr(op[1])} {gz(op[2])})"
    return f"(ORole {gstr(op[1])} {gz(op[2])} {gstr(op[3])} {gbool(len(op) > 4 and op[4])})"


def split_hist(h):
    """(dry run?, requests) of a name history: a leading ["dry"] marks the dry run of append mode"""
    if h and h[0] == ["dry"]:
        return True, h[1:]
    return False, h


def parse_bytes(x):
    """what dask.utils.parse_bytes makes of the option values we generate"""
    if isinstance(x, (int, float)):
        return int(x)
    m = re.fullmatch(r"\s*([0-9.]+)\s*([A-Za-z]*)\s*", x)
    n = float(m.group(1))
    u = m.group(2).upper() or "B"
    return int(n * BYTE_UNITS[u])


def g_chunk_opt(h):
    return "CRcontig" if h == "contiguous" else f"(CRbytes {gz(parse_bytes(h))})"


def g_raw(ch):
    if ch is None:
        return "RNone"
    if ch == "contiguous":
        return "RContig"
    if isinstance(ch, list):
        return f"(RSeq {glist(ch, lambda x: gopt(x, gz))})"
    return f"(RBytes {gz(parse_bytes(ch))})"


def g_fchunks(ch):
    return "FContig" if ch == "contiguous" else f"(FChunks {glist(ch, gz)})"


# ---------------------------------------------------------------------------
# generators
# ---------------------------------------------------------------------------
def default_opts():
    return {"fmt": "NETCDF4", "string": True, "compress": 0, "shuffle": True, "fletcher32": False,
            "endian": "native", "coordinates": False, "hdf5_chunks": "4 MiB",
            "global_attributes": None, "variable_attributes": None, "file_descriptors": None,
            "Conventions": None, "datatype": []}


NAME_BASES = ["a_b", "a b", "lat", "lat_1", "lat 1", "x", "x_1", "x 1", "x_2", "bounds2",
              "strlen4", "dim", "a  b", "a__b", "q", "", "x_1_1", "x 1 1", " "]
ROLES = ["bounds", "string_length", "node", "part"]


def gen_name_history(rng, malformed=False):
    n = rng.choice([1, 2, 3, 4, 6, 8, 12])
    bases = rng.sample(NAME_BASES, rng.choice([2, 3, 5]))
    ops = []
    for _ in range(n):
        r = rng.random()
        b = rng.choice(bases)
        if r < 0.5:
            ops.append(["name", b])
        elif r < 0.7:
            ops.append(["dim", b, rng.choice([1, 2, 4, 7])])
        else:
            role = rng.choice(ROLES[:2] if rng.random() < 0.7 else ROLES)
            if malformed and rng.random() < 0.3:
                role = ""
            # named: the name was set on the construct; only a dimension of that name is re-used
            ops.append(["role", b, rng.choice([2, 2, 4, 7]), role, rng.random() < 0.35])
    if rng.random() < 0.08:
        ops = [["dry"]] + ops
    return ops


def gen_synth(rng):
    nd = rng.choice([0, 1, 1, 2, 2, 3, 4])
    shape = [rng.choice([1, 2, 3, 5, 8, 9, 16, 27, 64]) for _ in range(nd)]
    names = ["x", "y", "a b", "a_b", "lat", "lon", "t", None]
    dims = []
    for _ in range(nd):
        dims.append({"coord": rng.random() < 0.7, "bounds": rng.random() < 0.4,
                     "ncvar": rng.choice(names) if rng.random() < 0.6 else None,
                     "stdname": rng.choice(["latitude", "a b", "height", None]),
                     "ncdim": rng.choice(names) if rng.random() < 0.3 else None,
                     "bncvar": rng.choice(["bnds", "a b", None])})
    spec = {"shape": shape, "dims": dims,
            "dtype": rng.choice(["f8", "f8", "f4", "i4", "i8", "i2", "i1", "b1", "f8"]),
            "masked": rng.random() < 0.3}
    if nd and rng.random() < 0.4:
        spec["aux"] = {"kind": rng.choice(["str", "str", "num"]), "axis": rng.randrange(nd),
                       "ncvar": rng.choice(names), "stdname": rng.choice([None, "a b", "site"])}
    if spec["dtype"] != "b1" and rng.random() < 0.35:
        spec["fill"] = rng.choice([-99, -1, 120])
    if spec["dtype"] != "b1" and rng.random() < 0.2:
        spec["missing"] = rng.choice([-99, -2, 121])
    return spec


def gen_shared_bounds_case(rng):
    """Directed family (seeded change C08-s2): several fields whose auxiliary coordinates are equal,
    or differ while having EQUAL bounds, over different dimensions of the same size - the bounds
    attribute of each must still name a variable on the coordinate's own dimensions."""
    n = rng.choice([2, 3, 5])
    def fld(dimname, offset, name):
        return {"src": ["synth", {"shape": [n], "dtype": "f8", "masked": False,
                                  "dims": [{"coord": rng.random() < 0.3, "bounds": False, "ncvar": None,
                                            "stdname": None, "ncdim": dimname, "bncvar": None}],
                                  "aux": {"kind": "num", "axis": 0, "ncvar": name, "stdname": None,
                                          "offset": offset, "bounds": True}}],
                "ncvar": None, "props": {}, "nc_global": [], "clear_global": False}
    a = fld("x", 0, "mid")
    b = fld("x", 0, "mid")
    c = fld("y", 1, "end")
    d = fld("y", 0, "mid")
    seqs = [[a, b, c], [a, c], [a, b, d], [c, a, b], [a, d, c], [a, b, c, d]]
    fields = [json.loads(json.dumps(x)) for x in rng.choice(seqs)]
    for i, fs in enumerate(fields):
        fs["props"]["c08_id"] = f"F{i}"
    o = default_opts()
    o["coordinates"] = rng.random() < 0.3
    return {"fields": fields, "opts": o, "fam": "shared-bounds"}


def nested_from_partition(counts, start=1.0, step=1.0):
    """cells x parts x nodes nested lists (None = missing) holding start, start+step, ... divided as [counts]"""
    nparts = max(len(r) for r in counts)
    nnodes = max(max(r) for r in counts)
    v = start
    out = []
    for r in counts:
        cell = []
        for k in range(nparts):
            c = r[k] if k < len(r) else 0
            part = []
            for j in range(nnodes):
                if j < c:
                    part.append(v)
                    v += step
                else:
                    part.append(None)
            cell.append(part)
        out.append(cell)
    return out


def gen_partition(rng, gtype, ncells):
    lo = 3 if gtype == "polygon" else (1 if gtype == "point" else 2)
    counts = []
    for _ in range(ncells):
        np_ = 1 if gtype == "point" else rng.choice([1, 1, 2, 3])
        counts.append([rng.choice([lo, lo + 1, lo + 2]) if gtype != "point" else rng.choice([1, 1, 2])
                       for _ in range(np_)])
    return counts


def geom_spec(rng, p, gtype=None, counts=None):
    gtype = gtype or rng.choice(["polygon", "polygon", "line", "point"])
    ncells = len(counts) if counts else rng.choice([1, 2, 2, 3])
    counts = counts or gen_partition(rng, gtype, ncells)
    ncoord = rng.choice([2, 2, 3])
    bounds = [nested_from_partition(counts, start=1.0 + 50 * k) for k in range(ncoord)]
    ring = None
    if gtype == "polygon" and rng.random() < 0.5:
        nparts = max(len(r) for r in counts)
        ring = [[(rng.choice([0, 1]) if k < len(r) and k > 0 else (0 if k < len(r) else None))
                 for k in range(nparts)] for r in counts]
    return {"p": p, "gtype": gtype, "bounds": bounds, "counts": counts,
            "repr": [rng.random() < 0.5 for _ in range(ncoord)],
            "props": [rng.random() < 0.85 for _ in range(ncoord)],
            "ring": ring, "gm": rng.random() < 0.5, "time": rng.random() < 0.4,
            "extra_aux": rng.random() < 0.4, "offset": rng.choice([0, 0, 1]),
            "geomvar": rng.choice([None, None, "geo " + p, "pr" + p])}


def gen_reference_case(rng, kind):
    """Directed families for the reference attributes (second pass): geometry cells with and
    without representative coordinate values / grid mapping / interior rings; data compressed by
    gathering and as ragged arrays, several per file; internal and external cell measures that
    want the same name; parametric vertical coordinates with bounds."""
    o = default_opts()
    o["coordinates"] = rng.random() < 0.2
    if rng.random() < 0.15:
        # (the count / index / list variables that cfdm makes are 64-bit integers, which the
        # classic data model cannot hold)
        o["fmt"] = rng.choice(["NETCDF4_CLASSIC", "NETCDF3_64BIT_DATA"]) if kind != "compressed" else "NETCDF3_64BIT_DATA"
    fields = []
    if kind == "geometry":
        r = rng.random()
        if r < 0.3:
            ed = {"drop_repr": rng.sample(["latitude", "longitude"], rng.choice([0, 1, 2])),
                  "drop_gm": rng.random() < 0.5}
            fields.append({"src": ["example", 6], "geom_edit": ed})
            if rng.random() < 0.4:
                ed2 = {"drop_repr": rng.sample(["latitude", "longitude"], rng.choice([0, 1, 2])),
                       "drop_gm": rng.random() < 0.5, "shift": rng.choice([0, 1.0])}
                fields.append({"src": ["example", 6], "geom_edit": ed2})
        else:
            a = geom_spec(rng, rng.choice(["A", "B"]))
            fields.append({"src": ["geom", a]})
            r2 = rng.random()
            if r2 < 0.35:
                # the same nodes divided differently (same names, same instance dimension)
                c2 = [list(reversed(row)) for row in a["counts"]]
                if c2 == a["counts"]:
                    c2 = [row[:-1] + [row[-1] - 1, 1] if row[-1] > (3 if a["gtype"] == "polygon" else 1) else row
                          for row in a["counts"]] if a["gtype"] != "polygon" else list(reversed(a["counts"]))
                tot = sum(sum(r_) for r_ in a["counts"])
                if sum(sum(r_) for r_ in c2) == tot and a["gtype"] != "point":
                    b = json.loads(json.dumps(a))
                    b["counts"] = c2
                    b["bounds"] = [nested_from_partition(c2, start=1.0 + 50 * k) for k in range(len(a["bounds"]))]
                    if b["ring"] is not None:
                        nparts = max(len(r_) for r_ in c2)
                        b["ring"] = [[(0 if k < len(r_) else None) for k in range(nparts)] for r_ in c2]
                    fields.append({"src": ["geom", b]})
            elif r2 < 0.7:
                fields.append({"src": ["geom", geom_spec(rng, rng.choice(["A", "B"]))]})
    elif kind == "compressed":
        if rng.random() < 0.45:
            # twins: equal list / count / index values, but the variables cannot be shared because
            # they compress other dimensions / span or index another instance dimension
            k = rng.choice(["gath", "cont", "idx"])
            if k == "gath":
                twins = [{"p": "a", "kind": "gath", "t": 0, "sizes": [3, 2, 2], "pos": 1, "n": 2, "names": False},
                         {"p": "b", "kind": "gath", "t": 3, "sizes": [3, 4], "pos": 1, "n": 1, "names": False}]
            else:
                t = rng.choice([0, 1, 2, 3, 4])
                sh = rng.random() < 0.3
                twins = [{"p": "a", "kind": k, "t": t, "names": False, "shuffle": sh, "coff": 0},
                         {"p": "b", "kind": k, "t": t, "names": False, "shuffle": sh, "coff": 1}]
            if rng.random() < 0.5:
                twins.reverse()
            fields = [{"src": ["cmp", x]} for x in twins]
        for j in range(rng.choice([1, 2, 2, 3]) if not fields else rng.choice([0, 0, 1])):
            r = rng.random()
            pfx = rng.choice(["a", "b"])
            if r < 0.35:
                sizes, pos, n = rng.choice([([3, 2, 2], 1, 2), ([3, 4], 1, 1), ([2, 2, 3], 0, 2), ([4], 0, 1),
                                            ([3, 2, 2], 1, 1)])
                fields.append({"src": ["cmp", {"p": pfx, "kind": "gath", "t": rng.choice([0, 0, 1, 2, 3]),
                                               "sizes": sizes, "pos": pos, "n": n, "names": rng.random() < 0.4,
                                               "coff": rng.choice([0, 0, 1])}]})
            elif r < 0.8:
                fields.append({"src": ["cmp", {"p": pfx, "kind": rng.choice(["cont", "idx"]),
                                               "t": rng.choice([0, 0, 1, 2, 3, 4]), "names": rng.random() < 0.4,
                                               "shuffle": rng.random() < 0.3, "coff": rng.choice([0, 0, 1])}]})
            else:
                fields.append({"src": rng.choice([["dsg", 3, "contiguous"], ["dsg", 3, "indexed"],
                                                  ["dsg", 4, "indexed_contiguous"]])})
    elif kind == "external":
        shape = rng.choice([[2, 3], [3, 3]])
        for j in range(rng.choice([2, 2, 3])):
            fields.append({"src": ["cm", {"p": "abc"[j], "name": rng.choice(["areacella", "areacella", "areacella_1", "m"]),
                                          "external": rng.random() < 0.5, "shape": shape,
                                          "off": rng.choice([0, 0, 1])}]})
    else:   # parametric vertical coordinates with bounds, once or twice
        fields.append({"src": ["example", 1]})
        if rng.random() < 0.5:
            fields.append({"src": ["example", 1], "ncvar": "ta2"})
        if rng.random() < 0.3:
            fields.append({"src": ["domain", 1]})
    for i, fs in enumerate(fields):
        fs.setdefault("props", {})["c08_id"] = f"F{i}"
        fs.setdefault("nc_global", [])
    return {"fields": fields, "opts": o, "fam": "refs-" + kind}


def gen_chunks(rng, ndim_hint=3):
    r = rng.random()
    if r < 0.55:
        return None
    if r < 0.65:
        return "contiguous"
    if r < 0.8:
        return rng.choice([1, 8, 64, 100, 216, 512, 1000, 1024, 4096, "1 KiB"])
    return [rng.choice([None, -1, 1, 2, 3, 5, 100]) for _ in range(ndim_hint)]


def gen_conventions(rng, malformed):
    r = rng.random()
    if r < 0.3:
        return None
    if r < 0.4:
        return rng.choice(["", "ACDD-1.3", "CF-1.7", "CF-1.11", " "])
    n = rng.choice([1, 2, 2, 3, 3, 4])
    toks = [rng.choice(CONV_TOKENS) for _ in range(n)]
    if malformed and rng.random() < 0.5:
        toks[rng.randrange(n)] = rng.choice(["b,c", "CF-1.7,ACDD"])
    if rng.random() < 0.15:
        return toks[0]
    return toks


def gen_file_case(rng, fam):
    o = default_opts()
    malformed = fam == "malformed"
    nf = rng.choice([1, 1, 2, 2, 3, 4])
    fields = []
    # sources
    if fam == "examples":
        pool = [["example", k] for k in range(8)] + [["domain", 0], ["domain", 1]]
    elif fam == "synthetic":
        pool = None
    else:
        pool = [["example", k] for k in (0, 0, 1, 2, 3, 5, 6, 7)]
    common = {p: rng.choice(VALUE_POOL) for p in rng.sample(PROP_POOL, rng.choice([1, 2, 3, 5]))}
    ncvar_pool = rng.choice([["a_b", "a b"], ["q", "q", "q_1"], ["v", "v 1", "v_1"], [None, "del"]])
    for i in range(nf):
        if pool is None or (fam == "mixed" and rng.random() < 0.5):
            src = ["synth", gen_synth(rng)]
        else:
            src = rng.choice(pool)
            if i and rng.random() < 0.4:
                src = fields[0]["src"]       # the same field again: every name collides
        fs = {"src": src}
        fs["ncvar"] = rng.choice(ncvar_pool) if rng.random() < 0.6 else None
        props = {}
        for p, v in common.items():
            r = rng.random()
            if r < 0.7:
                props[p] = v
            elif r < 0.85:
                props[p] = rng.choice(VALUE_POOL)
        if rng.random() < 0.3:
            props[rng.choice(PROP_POOL)] = rng.choice(VALUE_POOL)
        if "Conventions" in props and not isinstance(props["Conventions"], str):
            props["Conventions"] = "CF-1.5"
        props["c08_id"] = f"F{i}"
        fs["props"] = props
        ncg = []
        if rng.random() < 0.5:
            for p in rng.sample(PROP_POOL, rng.choice([1, 2])):
                r = rng.random()
                if p == "Conventions":
                    v = None if r < 0.5 else rng.choice(["CF-1.6 ACDD-1.3", "UGRID-1.0,my conv", "XX"])
                elif r < 0.5:
                    v = None
                elif r < 0.93 or not malformed:
                    v = rng.choice(["G1", "G1", "G2", 5])
                else:
                    v = {"arr": [1, 2], "dtype": "i4"}
                ncg.append([p, v])
        fs["nc_global"] = ncg
        fs["clear_global"] = rng.random() < 0.2
        if rng.random() < 0.2:
            fs["unlimited"] = rng.choice([[0], [0], [1], [0, 1]])
        if rng.random() < 0.5:
            nd = len(src[1]["shape"]) if src[0] == "synth" else rng.choice([2, 3])
            fs["chunks"] = gen_chunks(rng, nd)
        fields.append(fs)
    # options
    if rng.random() < 0.5:
        ga = rng.sample(PROP_POOL, rng.choice([1, 2, 3]))
        o["global_attributes"] = ga[0] if len(ga) == 1 and rng.random() < 0.5 else ga
    if rng.random() < 0.35:
        va = rng.sample(PROP_POOL[:-1] + (["Conventions"] if malformed else []), rng.choice([1, 2]))
        o["variable_attributes"] = va[0] if len(va) == 1 and rng.random() < 0.5 else va
    if rng.random() < 0.35:
        o["file_descriptors"] = {p: rng.choice(["FD", "A", 3]) for p in
                                 rng.sample(PROP_POOL[:-1] + (["Conventions"] if malformed else []),
                                            rng.choice([1, 2]))}
    o["Conventions"] = gen_conventions(rng, malformed)
    r = rng.random()
    if r < 0.2:
        o["fmt"] = rng.choice(["NETCDF4_CLASSIC", "NETCDF3_CLASSIC", "NETCDF3_64BIT_OFFSET",
                               "NETCDF3_64BIT_DATA"])
    o["string"] = rng.random() < 0.75
    if rng.random() < 0.3:
        o["compress"] = rng.choice([1, 4, 9])
        o["shuffle"] = rng.random() < 0.6
    if rng.random() < 0.15:
        o["fletcher32"] = True
    if rng.random() < (0.25 if malformed else 0.12):
        o["endian"] = rng.choice(["big", "little"])
    o["coordinates"] = rng.random() < 0.3
    if rng.random() < 0.6:
        o["hdf5_chunks"] = rng.choice([1, 8, 64, 100, 216, 512, 1000, 1024, 4096, "1 KiB", "4 MiB",
                                       "contiguous", 65536, 729 * 8, 4096 * 4])
    if rng.random() < 0.3:
        o["datatype"] = rng.choice([[["f8", "f4"]], [["i8", "i4"]], [["f8", "f4"], ["i4", "i2"]],
                                    [["b1", "i1"]], [["f4", "f8"], ["f8", "f4"]]])
    return {"fields": fields, "opts": o, "fam": fam}


# ---------------------------------------------------------------------------
# the property oracle (independent of the Coq model)
# ---------------------------------------------------------------------------
def sanitize(s):
    return s.replace(" ", "_")


def is_cf(tok):
    return re.search(r"CF-(\d.*)", tok) is not None


def requested_conventions(case, inputs):
    c = case["opts"]["Conventions"]
    if c:
        return [c] if isinstance(c, str) else list(c)
    vals = [inp["nc_global"].get("Conventions") for inp in inputs]
    if any(v is None for v in vals):
        return []
    toks = {token_of_canon(v) for v in vals}
    if len(toks) != 1 or not vals[0][0] == "s":
        return []
    s = vals[0][1]
    return s.split(",") if "," in s else s.split()


def expected_globals(case, inputs):
    """The documented placement rule -> ({name: token}, set of names omitted from variables)."""
    o = case["opts"]

    def aslist(x):
        return [] if not x else ([x] if isinstance(x, str) else list(x))

    fd = {k: token_of_spec(v) for k, v in (o["file_descriptors"] or {}).items()}
    var_only = set(aslist(o["variable_attributes"]))
    dofc = {"comment", "Conventions", "featureType", "history", "institution", "references",
            "source", "title"}
    eligible = set(aslist(o["global_attributes"])) | dofc
    forced = {}
    names = set()
    for inp in inputs:
        for k, v in inp["nc_global"].items():
            names.add(k)
            if v is None:
                eligible.add(k)
    for k in names:
        vals = [inp["nc_global"].get(k) for inp in inputs]
        if all(v is not None for v in vals) and len({token_of_canon(v) for v in vals}) == 1:
            forced[k] = token_of_canon(vals[0])
    out = dict(fd)
    omitted = set()
    for k in eligible:
        if k in var_only or k in fd or k in forced:
            continue
        vals = [inp["props"].get(k) for inp in inputs]
        if all(v is not None for v in vals) and len({token_of_canon(v) for v in vals}) == 1:
            omitted.add(k)
            if k != "Conventions":
                out[k] = token_of_canon(vals[0])
    for k, v in forced.items():
        if k not in fd and k != "Conventions":
            out[k] = v
    return out, omitted


def has_string_var(inputs):
    for inp in inputs:
        if inp.get("dtype") in ("U", "S"):
            return True
        for c in inp["constructs"]:
            if c["dtype"] in ("U", "S"):
                return True
    return False


def disk_dtype(t, o):
    if t in ("U", "S"):
        return "vlen-str" if (o["fmt"] == "NETCDF4" and o["string"]) else "S1"
    conv = {"b1": "i4", "O": "f8"}
    conv.update({a: b for a, b in o["datatype"]})
    return conv.get(t, t)


def refusal(case, inputs):
    """(kind, reason): kind 'must' - the write has to be refused; 'may' - it may be."""
    o = case["opts"]
    toks = requested_conventions(case, inputs)
    if any("," in t for t in toks if not is_cf(t)):
        return "must", "conventions-comma"
    for key in ("variable_attributes", "file_descriptors"):
        v = o[key]
        if v and ("Conventions" == v or "Conventions" in v):
            return "must", "conventions-not-allowed-there"
    nc3 = o["fmt"] in NETCDF3
    if nc3 and o["compress"]:
        return "must", "netcdf3-compress"
    if nc3 and o["endian"] != "native":
        return "must", "netcdf3-endian"
    may = None
    any_unlim = any(any(a[2] for a in inp["axes"].values()) for inp in inputs)
    any_contig = o["hdf5_chunks"] == "contiguous" or any(inp.get("chunks") == "contiguous" for inp in inputs)
    if not nc3 and any_contig and (o["compress"] or o["fletcher32"] or any_unlim):
        may = "contiguous-with-filters-or-unlimited"
    if o["fmt"] != "NETCDF4" and any_unlim:
        may = may or "classic-unlimited"
    if o["fmt"] in CLASSIC_TYPES:
        for inp in inputs:
            ts = [inp.get("dtype")] + [c["dtype"] for c in inp["constructs"]]
            if any(t and disk_dtype(t, o) in ("i8", "u1", "u2", "u4", "u8") for t in ts):
                may = may or "classic-64bit-integers"
    if may:
        return "may", may
    return None, None


def classify_exception(case, inputs, exc):
    msg = " ".join(str(x) for x in exc)
    o = case["opts"]
    if "String match to name in use" in msg:
        return "name-collision-after-space-replacement"
    if "pop index out of range" in msg:
        return "conventions-pop-while-enumerating"
    if "unhashable" in msg:
        return "forced-global-attribute-not-hashable"
    if o["endian"] != "native" and "Invalid argument" in msg:
        return "endian-with-string-variable"
    if o["fmt"] == "NETCDF4_CLASSIC" and "define fill value when data already exists" in msg:
        return "netcdf4-classic-fill-value"
    return "unexpected-write-error"


def split_ref(v):
    return v.split()


def check_references(f):
    """Every reference attribute resolves to existing variables/dimensions of
    compatible dimensions.  Yields (attribute, message)."""
    vs, dims = f["vars"], f["dims"]
    ext = set()
    ev = f["gattrs"].get("external_variables")
    if ev is not None:
        ext = set(ev[1].split())
        for n in ext:
            if n in vs:
                yield "external_variables", f"external variable {n} is also in the file"
    stdnames = {v["attrs"]["standard_name"][1] for v in vs.values() if "standard_name" in v["attrs"]}

    def vdims(name):
        v = vs[name]
        d = list(v["dims"])
        if v["dtype"] == "S1" and d:
            d = d[:-1]
        return d

    # instance dimensions reachable from a sample dimension (DSG ragged arrays)
    extra_dims = {}
    for n, v in vs.items():
        sd = v["attrs"].get("sample_dimension")
        if sd is not None:
            extra_dims.setdefault(sd[1], set()).update(v["dims"])
        idim = v["attrs"].get("instance_dimension")
        if idim is not None:
            for d in v["dims"]:
                extra_dims.setdefault(d, set()).add(idim[1])
        cp = v["attrs"].get("compress")
        if cp is not None and cp[0] == "s":
            # data on a list dimension stand for data on the compressed dimensions
            for d in v["dims"]:
                extra_dims.setdefault(d, set()).update(cp[1].split())

    def allowed(name):
        out = set(vdims(name))
        for _ in range(3):
            for d in list(out):
                out |= extra_dims.get(d, set())
        return out

    for n, v in vs.items():
        at = v["attrs"]
        mydims = allowed(n)
        if "dimensions" in at and not v["dims"]:
            # a domain variable lists its dimensions in an attribute (CF 5.8)
            mydims = set(at["dimensions"][1].split())
            for d in mydims:
                if d not in dims:
                    yield "dimensions", f"{n}:dimensions names missing dimension {d}"
            for _ in range(3):
                for d in list(mydims):
                    mydims |= extra_dims.get(d, set())
        for a in ("coordinates", "ancillary_variables", "node_coordinates"):
            if a in at and at[a][0] == "s":
                for w in split_ref(at[a][1]):
                    if w not in vs:
                        yield a, f"{n}:{a} names missing variable {w}"
                    elif (v["dims"] or "dimensions" in at) and a != "node_coordinates" and not set(vdims(w)) <= mydims:
                        yield a, f"{n}:{a} -> {w}{vs[w]['dims']} not within {sorted(mydims)}"
        for a in ("bounds", "climatology"):
            if a in at:
                w = at[a][1]
                if w not in vs:
                    yield a, f"{n}:{a} names missing variable {w}"
                else:
                    bd = vs[w]["dims"]
                    if bd[:len(v["dims"])] != v["dims"] or len(bd) != len(v["dims"]) + 1:
                        yield a, f"{n}{v['dims']}:{a} -> {w}{bd}"
        if "cell_measures" in at:
            toks = at["cell_measures"][1].split()
            if len(toks) % 2:
                yield "cell_measures", f"{n}: malformed {at['cell_measures'][1]!r}"
            for m, w in zip(toks[0::2], toks[1::2]):
                if not m.endswith(":"):
                    yield "cell_measures", f"{n}: malformed {at['cell_measures'][1]!r}"
                if w not in vs and w not in ext:
                    yield "cell_measures", f"{n}:cell_measures names missing variable {w}"
                elif w in vs and not set(vdims(w)) <= mydims:
                    yield "cell_measures", f"{n}:cell_measures -> {w}{vs[w]['dims']} not within {sorted(mydims)}"
        if "formula_terms" in at:
            toks = at["formula_terms"][1].split()
            for m, w in zip(toks[0::2], toks[1::2]):
                if not m.endswith(":") or w not in vs:
                    yield "formula_terms", f"{n}:formula_terms {m} {w} does not resolve"
        if "grid_mapping" in at and at["grid_mapping"][0] == "s":
            s = at["grid_mapping"][1]
            if ":" in s:
                cur = None
                for t in s.split():
                    if t.endswith(":"):
                        cur = t[:-1]
                        if cur not in vs:
                            yield "grid_mapping", f"{n}:grid_mapping names missing variable {cur}"
                    elif t not in vs:
                        yield "grid_mapping", f"{n}:grid_mapping names missing coordinate {t}"
            elif s not in vs:
                yield "grid_mapping", f"{n}:grid_mapping names missing variable {s}"
        if "cell_methods" in at:
            s = re.sub(r"\([^)]*\)", " ", at["cell_methods"][1])
            for t in s.split():
                if t.endswith(":"):
                    nm = t[:-1]
                    if nm not in dims and nm not in vs and nm != "area" and nm not in stdnames:
                        yield "cell_methods", f"{n}:cell_methods axis {nm} does not resolve"
        if "compress" in at:
            for d in at["compress"][1].split():
                if d not in dims:
                    yield "compress", f"{n}:compress names missing dimension {d}"
        for a in ("sample_dimension", "instance_dimension"):
            if a in at and at[a][1] not in dims:
                yield a, f"{n}:{a} names missing dimension {at[a][1]}"
        for a in ("geometry", "node_count", "part_node_count", "interior_ring"):
            if a in at and at[a][1] not in vs:
                yield a, f"{n}:{a} names missing variable {at[a][1]}"
        if "geometry" in at and at["geometry"][1] in vs and "geometry_type" not in vs[at["geometry"][1]]["attrs"]:
            yield "geometry", f"{n}:geometry -> {at['geometry'][1]} has no geometry_type"
        # a reference attribute is a non-empty string
        for a in STRING_REFS:
            if a in at and (at[a][0] != "s" or not at[a][1].strip()):
                yield a, f"{n}:{a} is not a non-empty string: {at[a]}"

    # --- the variables that give compressed data and geometries their structure
    sample_of = {}
    for n, v in vs.items():
        at = v["attrs"]
        data = v.get("data")
        sd = at.get("sample_dimension")
        if sd is not None and sd[0] == "s" and sd[1] in dims:
            sample_of.setdefault(sd[1], []).append(n)
            if len(v["dims"]) != 1:
                yield "sample_dimension", f"count variable {n}{v['dims']} is not one-dimensional"
            elif data is not None and sum(x or 0 for x in data) != dims[sd[1]][0]:
                yield "sample_dimension", (f"count variable {n} sums to {sum(x or 0 for x in data)}, "
                                           f"sample dimension {sd[1]} has size {dims[sd[1]][0]}")
        idim = at.get("instance_dimension")
        if idim is not None and idim[0] == "s" and idim[1] in dims:
            if len(v["dims"]) != 1:
                yield "instance_dimension", f"index variable {n}{v['dims']} is not one-dimensional"
            elif data is not None and any(x is None or not 0 <= x < dims[idim[1]][0] for x in data):
                yield "instance_dimension", f"index variable {n} has values outside instance dimension {idim[1]}"
        cp = at.get("compress")
        if cp is not None and cp[0] == "s":
            cd = cp[1].split()
            if v["dims"] != [n]:
                yield "compress", f"list variable {n} has dimensions {v['dims']}"
            if all(d in dims for d in cd) and data is not None:
                size = prod(dims[d][0] for d in cd)
                if any(x is None or not 0 <= x < size for x in data):
                    yield "compress", f"list variable {n} has values outside the {size} points of {cd}"
        if "geometry_type" in at:
            nodes = [w for w in at.get("node_coordinates", ["s", ""])[1].split() if w in vs]
            ndims = {tuple(vs[w]["dims"]) for w in nodes}
            if not nodes:
                yield "node_coordinates", f"geometry container {n} names no node coordinates"
            elif len(ndims) != 1 or len(next(iter(ndims))) != 1:
                yield "node_coordinates", f"{n}: node coordinates on dimensions {sorted(ndims)}"
            else:
                nnode = dims[next(iter(ndims))[0]][0]
                gdim = None
                for a in ("node_count", "part_node_count"):
                    if a in at and at[a][0] == "s" and at[a][1] in vs:
                        w = vs[at[a][1]]
                        if len(w["dims"]) != 1:
                            yield a, f"{n}:{a} -> {at[a][1]}{w['dims']} is not one-dimensional"
                        elif w.get("data") is not None and sum(x or 0 for x in w["data"]) != nnode:
                            yield a, f"{n}:{a} -> {at[a][1]} sums to {sum(x or 0 for x in w['data'])}, there are {nnode} nodes"
                        if a == "node_count" and len(w["dims"]) == 1:
                            gdim = w["dims"][0]
                if "interior_ring" in at and at["interior_ring"][0] == "s" and at["interior_ring"][1] in vs:
                    w = vs[at["interior_ring"][1]]
                    pn = vs.get(at.get("part_node_count", ["s", ""])[1])
                    if pn is None or w["dims"] != pn["dims"]:
                        yield "interior_ring", f"{n}:interior_ring -> {at['interior_ring'][1]}{w['dims']} without a part node count on the same dimension"
                    elif w.get("data") is not None and any(x not in (0, 1) for x in w["data"]):
                        yield "interior_ring", f"{n}:interior_ring has values other than 0 and 1"
                if "coordinates" in at and at["coordinates"][0] == "s":
                    for w in at["coordinates"][1].split():
                        if w in vs and gdim is not None and vdims(w) != [gdim]:
                            yield "coordinates", f"{n}:coordinates -> {w}{vs[w]['dims']}, geometry dimension is {gdim}"
                if "grid_mapping" in at and at["grid_mapping"][0] == "s" and at["grid_mapping"][1] in vs \
                        and "grid_mapping_name" not in vs[at["grid_mapping"][1]]["attrs"]:
                    yield "grid_mapping", f"{n}:grid_mapping -> {at['grid_mapping'][1]} is no grid mapping variable"
    for d, names in sample_of.items():
        if len(names) > 1:
            yield "sample_dimension", f"sample dimension {d} has {len(names)} count variables: {names}"
    # --- parametric vertical coordinates: the formula_terms of the bounds variable name the
    # bounds of each term that has bounds, the term itself otherwise (CF 7.1)
    for n, v in vs.items():
        at = v["attrs"]
        if "formula_terms" in at and "bounds" in at and at["bounds"][1] in vs:
            b = vs[at["bounds"][1]]
            ft = at["formula_terms"][1].split()
            terms = dict(zip(ft[0::2], ft[1::2]))
            bft = b["attrs"].get("formula_terms")
            if bft is None:
                if any("bounds" in vs[w]["attrs"] for w in terms.values() if w in vs):
                    yield "formula_terms", f"{at['bounds'][1]} (bounds of {n}) has no formula_terms although terms have bounds"
                continue
            bl = bft[1].split()
            bterms = dict(zip(bl[0::2], bl[1::2]))
            if set(bterms) != set(terms):
                yield "formula_terms", f"{n} has terms {sorted(terms)}, its bounds {sorted(bterms)}"
                continue
            for t, w in terms.items():
                if w not in vs or bterms[t] not in vs:
                    continue
                wb = vs[w]["attrs"].get("bounds")
                if bterms[t] != w and (wb is None or wb[1] != bterms[t]):
                    yield "formula_terms", f"bounds of {n}: term {t} {bterms[t]} is neither {w} nor its bounds"


def data_var_of(f, i):
    for n, v in f["vars"].items():
        a = v["attrs"].get("c08_id")
        if a is not None and a[1] == f"F{i}":
            return n
    return None


def prod(l):
    p = 1
    for x in l:
        p *= x
    return p


def check_chunking(o, req, shape, itemsize, observed, unlimited=False):
    """Direct statement of the chunk part of the property. Returns message or None."""
    if o["fmt"] in NETCDF3:
        return None
    if req == "contiguous" or (req is None and o["hdf5_chunks"] == "contiguous") or not shape:
        return None if observed == "contiguous" else f"contiguous storage requested, file has {observed}"
    if observed == "contiguous":
        return "chunked storage requested, file is contiguous"
    if len(observed) != len(shape):
        return f"chunk rank {observed} vs shape {shape}"
    if any(c < 1 or (c > s and s > 0) for c, s in zip(observed, shape)):
        return f"chunk extents {observed} outside [1, dim] for shape {shape}"
    if isinstance(req, list):
        want = [s if (c is None or c == -1 or c > s) else c for c, s in zip(req, shape)]
        return None if want == observed else f"requested chunks {want}, file has {observed}"
    limit = parse_bytes(req if req is not None else o["hdf5_chunks"])
    if prod(observed) * itemsize > max(limit, itemsize):
        return f"chunk {observed} x {itemsize} B exceeds the budget of {limit} B"
    return None


def oracle_file(chk, case, row, cf_version):
    """Property oracle on one written file; returns the list of failure signatures."""
    sigs = []

    def fail(sig, what):
        sigs.append(sig)
        chk.fail("property", sig, what, {"input": case, "observed": {"exc": row["exc"]}})

    inputs = row["inputs"]
    f = row["file"]
    o = case["opts"]
    # --- Conventions
    conv = f["gattrs"].get("Conventions")
    want = ["CF-" + cf_version] + [t for t in requested_conventions(case, inputs) if not is_cf(t)]
    if conv is None or conv[0] != "s":
        fail("conventions-missing", f"no string Conventions attribute: {conv}")
    else:
        s = conv[1]
        got = s.split(",") if "," in s else s.split()
        if all(want[1:]) and got != want:
            sig = "conventions-extras-not-kept"
            fail(sig, f"Conventions={s!r}: parsed {got}, expected {want}")
    # --- placement of global attributes
    exp, omitted = expected_globals(case, inputs)
    got = {k: token_of_canon(v) for k, v in f["gattrs"].items()
           if k not in ("Conventions", "external_variables")}
    if got != exp:
        fail("global-attribute-placement", f"global attributes {got}, expected {exp}")
    for i, inp in enumerate(inputs):
        dv = data_var_of(f, i)
        if dv is None:
            fail("data-variable-missing", f"no variable carries the properties of field {i}")
            continue
        at = f["vars"][dv]["attrs"]
        want_at = {k: token_of_canon(v) for k, v in inp["props"].items()
                   if k not in omitted and k not in FILL_ATTRS}
        got_at = {k: token_of_canon(v) for k, v in at.items()
                  if (k in inp["props"] or k not in REF_ATTRS) and k not in FILL_ATTRS}
        for a in FILL_ATTRS:
            if (a in inp["props"]) != (a in at) and a not in omitted:
                fail("variable-attribute-placement", f"field {i} ({dv}): {a} property {a in inp['props']}, attribute {a in at}")
        if got_at != want_at:
            fail("variable-attribute-placement",
                 f"field {i} ({dv}): attributes {got_at}, expected {want_at}")
        # --- name of the data variable
        base = inp["ncvar"] if inp["ncvar"] is not None else (inp["stdname"] or ("data" if inp["type"] == "Field" else "domain"))
        base = sanitize(base)
        if not (dv == base or re.fullmatch(re.escape(base) + r"_[1-9][0-9]*", dv)):
            fail("variable-name", f"field {i} written as {dv!r}, expected {base!r} or {base!r}_k")
        # --- type, endianness, filters, unlimited, chunks of the data variable
        if inp["shape"] is not None:
            v = f["vars"][dv]
            dt = disk_dtype(inp["dtype"], o)
            if v["dtype"] != dt:
                fail("on-disk-type", f"field {i} ({dv}): {inp['dtype']} stored as {v['dtype']}, expected {dt}")
            for a in ("_FillValue", "missing_value"):
                if a in at and at[a][0] == "a" and at[a][1] != v["dtype"]:
                    fail("fill-value-type", f"{dv}:{a} has type {at[a][1]}, variable has {v['dtype']}")
            plain = inp["compression"] in (None, "")
            vshape = v["shape"][:-1] if dt == "S1" else v["shape"]
            vdims = v["dims"][:-1] if dt == "S1" else v["dims"]
            extra = len(vshape) - len(inp["shape"])
            if plain and (extra < 0 or vshape[extra:] != inp["shape"] or any(x != 1 for x in vshape[:extra])):
                fail("data-shape", f"{dv}: shape {v['shape']} vs {inp['shape']}")
                continue
            if o["fmt"] not in NETCDF3 and dt not in ("vlen-str", "S1") and inp["shape"]:
                native = "little"
                want_e = native if o["endian"] == "native" else o["endian"]
                got_e = native if v["endian"] == "native" else v["endian"]
                if ITEMSIZE.get(dt, 1) > 1 and got_e != want_e:
                    fail("endianness", f"{dv}: endian {v['endian']}, requested {o['endian']}")
                fl = v["filters"] or {}
                want_f = {"zlib": bool(o["compress"]), "complevel": int(o["compress"]),
                          "shuffle": bool(o["shuffle"] and o["compress"]),
                          "fletcher32": bool(o["fletcher32"])}
                if fl != want_f and v["chunking"] != "contiguous":
                    fail("compression", f"{dv}: filters {fl}, requested {want_f}")
            if plain:
                for k, u in enumerate(inp["unlimited"]):
                    isun = f["dims"][vdims[extra + k]][1]
                    # a dimension shared with another field is unlimited if either asks for it (C09)
                    # (later fields re-use dimensions created by earlier ones: C09)
                    if (u and not isun and i == 0) or (isun and not u and len(inputs) == 1):
                        fail("unlimited-dimension",
                             f"{dv}: dimension {vdims[extra + k]} unlimited={isun}, requested {u}")
            if dt not in ("vlen-str", "S1") and plain:
                req = norm_req(case["fields"][i].get("chunks"), inp)
                if not (extra and isinstance(req, list)):
                    msg = check_chunking(o, req, vshape, ITEMSIZE.get(dt, 1), v["chunking"])
                    if msg:
                        fail("chunk-shape", f"{dv}: {msg}")
    # --- every variable: names, chunks, string storage
    for n, v in f["vars"].items():
        if " " in n:
            fail("variable-name", f"variable name {n!r} contains a blank")
        if o["fmt"] not in NETCDF3 and v["dtype"] not in ("vlen-str", "S1") and "c08_id" not in v["attrs"]:
            msg = check_chunking(o, None, v["shape"], ITEMSIZE.get(v["dtype"], 1), v["chunking"])
            if msg:
                fail("chunk-shape", f"{n}: {msg}")
        if o["fmt"] not in NETCDF3 and v["dtype"] != "vlen-str" and v["shape"] and v["chunking"] != "contiguous":
            # requested compression is realised on EVERY chunked variable, character arrays and
            # metadata variables included (variable-length strings cannot be filtered)
            fl = v["filters"] or {}
            want_f = {"zlib": bool(o["compress"]), "complevel": int(o["compress"]),
                      "shuffle": bool(o["shuffle"] and o["compress"]),
                      "fletcher32": bool(o["fletcher32"])}
            if fl != want_f:
                fail("compression", f"{n} ({v['dtype']}): filters {fl}, requested {want_f}")
        if v["dtype"] == "vlen-str" and not (o["fmt"] == "NETCDF4" and o["string"]):
            fail("string-storage", f"{n}: vlen string in {o['fmt']} string={o['string']}")
        if v["dtype"] == "S1" and v["dims"] and o["fmt"] == "NETCDF4" and o["string"]:
            fail("string-storage", f"{n}: char array although string=True in NETCDF4")
    for n in f["dims"]:
        if " " in n:
            fail("variable-name", f"dimension name {n!r} contains a blank")
    # --- construct names: each named construct with data appears as base or base_k
    allnames = set(f["vars"])
    ext = set((f["gattrs"].get("external_variables") or ["s", ""])[1].split())
    for inp in inputs[:1]:
        # (only the first field: later fields may share variables already written, C09)
        for c in inp["constructs"]:
            if not c["has_data"] or c["type"] not in ("dimension_coordinate", "auxiliary_coordinate"):
                continue
            b = c["ncvar"] or c["stdname"]
            if c["type"] == "dimension_coordinate" and not c["ncvar"] and c.get("ncdim"):
                # a dimension coordinate without a name of its own takes the netCDF dimension
                # name set on its domain axis (without any group path when group=False)
                b = c["ncdim"].split("/")[-1]
            if not b:
                continue
            b = sanitize(b)
            pat = re.compile(re.escape(b) + r"(_[1-9][0-9]*)?")
            if not any(pat.fullmatch(x) for x in allnames | ext):
                fail("construct-name", f"construct {c['key']} ({b!r}) has no variable {b!r} or {b!r}_k")
    # --- geometries and compression by convention: the structure of each field as given
    for sig, msg in check_structures(case, row):
        fail(sig, msg)
    # --- references
    for attr, msg in check_references(f):
        fail("dangling-reference:" + attr, msg)
    return sigs


def name_matches(base, name):
    b = sanitize(base)
    return name == b or re.fullmatch(re.escape(b) + r"_[1-9][0-9]*", name) is not None


def check_structures(case, row):
    """What each field's geometry cells / compressed data must look like in the file."""
    f = row["file"]
    vs, dims = f["vars"], f["dims"]
    for i, inp in enumerate(row["inputs"]):
        dv = data_var_of(f, i)
        if dv is None:
            continue
        at = vs[dv]["attrs"]
        geom = inp.get("geom") or []
        if geom:
            if "geometry" not in at or at["geometry"][0] != "s" or at["geometry"][1] not in vs:
                yield "geometry-container", f"field {i} ({dv}) has geometry cells but no geometry container: {at.get('geometry')}"
                continue
            cn = at["geometry"][1]
            c = vs[cn]["attrs"]
            g0 = geom[0]
            if c.get("geometry_type", ["s", None])[1] != g0["type"]:
                yield "geometry-container", f"{cn}: geometry_type {c.get('geometry_type')}, cells are {g0['type']}"
            counts = g0["counts"]
            cell_totals = [sum(r) for r in counts]
            parts = [x for r in counts for x in r if x > 0]
            nc_ = c.get("node_count")
            if nc_ is not None and nc_[0] == "s" and nc_[1] in vs:
                w = vs[nc_[1]]
                if w.get("data") != cell_totals:
                    yield "geometry-partition", f"field {i} ({dv}): node_count {nc_[1]} = {w.get('data')}, cells have {cell_totals} nodes"
                if w["dims"] and w["dims"][0] not in vs[dv]["dims"]:
                    yield "geometry-partition", f"field {i} ({dv}{vs[dv]['dims']}): node_count {nc_[1]} is on {w['dims']}"
            elif any(t != 1 for t in cell_totals):
                yield "geometry-partition", f"field {i} ({dv}): no node_count although cells have {cell_totals} nodes"
            pn = c.get("part_node_count")
            if pn is not None and pn[0] == "s" and pn[1] in vs:
                if vs[pn[1]].get("data") != parts:
                    yield "geometry-partition", f"field {i} ({dv}): part_node_count {pn[1]} = {vs[pn[1]].get('data')}, parts have {parts} nodes"
            elif any(len([x for x in r if x > 0]) != 1 for r in counts):
                yield "geometry-partition", f"field {i} ({dv}): no part_node_count although cells have several parts: {counts}"
            ir = c.get("interior_ring")
            if g0["ring"] is not None:
                if ir is None or ir[0] != "s" or ir[1] not in vs or vs[ir[1]].get("data") != g0["ring"]:
                    yield "geometry-partition", f"field {i} ({dv}): interior_ring {ir} -> {vs.get(ir[1], {}).get('data') if ir and ir[0] == 's' else None}, expected {g0['ring']}"
            elif ir is not None:
                yield "geometry-partition", f"field {i} ({dv}): interior_ring {ir} although the cells have none"
            # node coordinates: one per geometry coordinate
            ncoords = c.get("node_coordinates", ["s", ""])[1].split() if c.get("node_coordinates", ["s", ""])[0] == "s" else []
            if len(ncoords) != len(geom):
                yield "geometry-container", f"{cn}: node_coordinates {ncoords} for {len(geom)} geometry coordinates"
            for g in geom:
                # (names: first field only - later fields may share variables already written, C09)
                if i == 0 and g["node_ncvar"] and not any(name_matches(g["node_ncvar"], w) for w in ncoords):
                    yield "geometry-container", f"{cn}: node_coordinates {ncoords} lack {g['node_ncvar']!r}"
            # representative coordinates: exactly those that have values
            want = [g for g in geom if g["repr"]]
            got = c["coordinates"][1].split() if "coordinates" in c and c["coordinates"][0] == "s" else []
            if len(got) != len(want) or ("coordinates" in c and not got):
                yield "geometry-container", f"{cn}: coordinates {c.get('coordinates')} for {len(want)} coordinates with representative values"
            for g in want:
                if i == 0 and g["ncvar"] and not any(name_matches(g["ncvar"], w) for w in got):
                    yield "geometry-container", f"{cn}: coordinates {got} lack {g['ncvar']!r}"
            # grid mapping: named iff a grid mapping applies to a geometry coordinate
            keys = {g["key"] for g in geom}
            has_gm = any(keys & set(gm["coords"]) for gm in inp.get("grid_mappings", []))
            if has_gm != ("grid_mapping" in c):
                yield "geometry-container", f"{cn}: grid_mapping {c.get('grid_mapping')} although the field has {'a' if has_gm else 'no'} grid mapping for its geometry"
        elif "geometry" in at:
            yield "geometry-container", f"field {i} ({dv}) has no geometry cells but names {at['geometry']}"
        cmpd = inp.get("cmp")
        if cmpd:
            vd = vs[dv]["dims"]
            t = cmpd["type"]
            if t == "gathered":
                lists = [d for d in vd if d in vs and "compress" in vs[d]["attrs"]]
                if len(lists) != 1:
                    yield "compression-structure", f"gathered field {i} ({dv}{vd}) has {len(lists)} list dimensions"
                else:
                    lv = vs[lists[0]]
                    if lv.get("data") != cmpd.get("list"):
                        yield "compression-structure", f"field {i} ({dv}): list variable {lists[0]} = {lv.get('data')}, expected {cmpd.get('list')}"
                    cd = lv["attrs"]["compress"][1].split() if lv["attrs"]["compress"][0] == "s" else []
                    sizes = [dims[d][0] for d in cd if d in dims]
                    want_sizes = [inp["shape"][a] for a in cmpd["compressed_axes"]]
                    if sizes != want_sizes:
                        yield "compression-structure", f"field {i} ({dv}): compress = {cd} of sizes {sizes}, compressed axes have sizes {want_sizes}"
            count_vars = {}
            for n, v in vs.items():
                x = v["attrs"].get("sample_dimension")
                if x is not None and x[0] == "s":
                    count_vars.setdefault(x[1], []).append(n)
            inner = None      # the dimension that the index variable (if any) spans
            if t in ("ragged contiguous", "ragged indexed contiguous"):
                sds = [d for d in vd if d in count_vars]
                cvs = [n for d in sds for n in count_vars[d]]
                if len(cvs) != 1:
                    yield "compression-structure", f"field {i} ({dv}{vd}): count variables {cvs} for its sample dimension"
                else:
                    if vs[cvs[0]].get("data") != cmpd.get("count"):
                        yield "compression-structure", f"field {i} ({dv}): count variable {cvs[0]} = {vs[cvs[0]].get('data')}, expected {cmpd.get('count')}"
                    inner = vs[cvs[0]]["dims"][0] if vs[cvs[0]]["dims"] else None
            if t in ("ragged indexed", "ragged indexed contiguous"):
                if t == "ragged indexed":
                    ivs = [n for n, v in vs.items() if "instance_dimension" in v["attrs"]
                           and len(v["dims"]) == 1 and v["dims"][0] in vd]
                else:
                    ivs = [n for n, v in vs.items() if "instance_dimension" in v["attrs"] and v["dims"] == [inner]]
                if len(ivs) != 1:
                    yield "compression-structure", f"field {i} ({dv}{vd}): index variables {ivs}"
                elif vs[ivs[0]].get("data") != cmpd.get("index"):
                    yield "compression-structure", f"field {i} ({dv}): index variable {ivs[0]} = {vs[ivs[0]].get('data')}, expected {cmpd.get('index')}"


def norm_req(ch, inp):
    """the chunk request as the oracle understands it: None/'contiguous'/bytes/list per dimension"""
    if ch is None or ch == "contiguous" or not isinstance(ch, list):
        return ch
    nd = len(inp["shape"])
    return (ch + [None] * nd)[:nd]


# ---------------------------------------------------------------------------
# literals for the correspondence
# ---------------------------------------------------------------------------
def lit_globals(case, row):
    inputs = row["inputs"]
    o = case["opts"]

    def aslist(x):
        return [] if not x else ([x] if isinstance(x, str) else list(x))

    flds = []
    for inp in inputs:
        props = {k: token_of_canon(v) for k, v in inp["props"].items() if k not in FILL_ATTRS}
        ncg = {k: (None if v is None else token_of_canon(v)) for k, v in inp["nc_global"].items()}
        if "Conventions" in ncg and ncg["Conventions"] is not None:
            cv = inp["nc_global"]["Conventions"]
            ncg["Conventions"] = cv[1] if cv[0] == "s" else ncg["Conventions"]
        flds.append(g_fld(props, ncg))
    fd = {k: token_of_spec(v) for k, v in (o["file_descriptors"] or {}).items()}
    go = f"(mkO {glist(aslist(o['global_attributes']), gstr)} {glist(aslist(o['variable_attributes']), gstr)} {g_pairs(fd)})"
    if row["exc"] is not None:
        obs = "(Err ValueErr)"
    else:
        f = row["file"]
        conv = f["gattrs"].get("Conventions", ["s", ""])
        og = {k: token_of_canon(v) for k, v in f["gattrs"].items()
              if k not in ("Conventions", "external_variables")}
        ovs = []
        for i, inp in enumerate(inputs):
            dv = data_var_of(f, i)
            at = f["vars"][dv]["attrs"] if dv else {}
            ovs.append(g_pairs({k: token_of_canon(v) for k, v in at.items()
                                if (k in inp["props"] or k not in REF_ATTRS) and k not in FILL_ATTRS}))
        obs = f"(Ok ({gstr(conv[1])}, {g_pairs(og)}, [{'; '.join(ovs)}]))"
    return f"({glist(flds, lambda x: x)}, {go}, {g_conv(o['Conventions'] if o['Conventions'] is not None else None)}, {obs})"


def lits_vars(case, row):
    """one literal per numeric variable of the file (data variables with the
    request stored on their data, every other variable with no request)"""
    out = []
    f = row["file"]
    o = case["opts"]
    chunked = o["fmt"] not in NETCDF3
    user = glist(o["datatype"], lambda ab: gpair(gstr(ab[0]), gstr(ab[1])))
    opt = g_chunk_opt(o["hdf5_chunks"])
    seen = set()
    for i, inp in enumerate(row["inputs"]):
        dv = data_var_of(f, i)
        if dv is None or inp["shape"] is None or inp["compression"] not in (None, ""):
            continue
        seen.add(dv)
        v = f["vars"][dv]
        fills = [v["attrs"][a][1] for a in ("_FillValue", "missing_value")
                 if a in v["attrs"] and v["attrs"][a][0] == "a"]
        raw = norm_req(case["fields"][i].get("chunks"), inp)
        if v["dtype"] == "S1" or len(v["shape"]) != len(inp["shape"]):
            if isinstance(raw, list):
                continue
        shape = v["shape"][:-1] if v["dtype"] == "S1" else v["shape"]
        ch = v["chunking"] if chunked else "contiguous"
        out.append((f"({gstr(o['fmt'])}, {gbool(o['string'])}, {user}, {gstr(inp['dtype'])}, "
                    f"{glist(shape, gz)}, {g_raw(raw)}, {opt}, {gbool(chunked)}, "
                    f"({gstr(v['dtype'])}, {glist(fills, gstr)}, {g_fchunks(ch)}))", dv))
    for n, v in f["vars"].items():
        if n in seen or "c08_id" in v["attrs"] or v["dtype"] in ("vlen-str", "S1", "S", "U") or not chunked:
            continue
        out.append((f"({gstr(o['fmt'])}, {gbool(o['string'])}, [], {gstr(v['dtype'])}, "
                    f"{glist(v['shape'], gz)}, RNone, {opt}, true, "
                    f"({gstr(v['dtype'])}, [], {g_fchunks(v['chunking'])}))", n))
    return out


def lit_refs(case, row):
    """The auxiliary coordinates of a single geometry field and the reference attributes that the
    file holds for them (C08.Run.check_refs); None when the case is not of that kind."""
    if len(row["inputs"]) != 1 or not row["file"]:
        return None
    inp = row["inputs"][0]
    if not inp.get("geom"):
        return None
    f = row["file"]
    dv = data_var_of(f, 0)
    if dv is None:
        return None
    geom = {g["key"]: g for g in inp["geom"]}
    auxs = []
    for a in inp["aux"]:
        g = geom.get(a["key"])
        nodes = sanitize(g["node_ncvar"]) if g is not None and g["node_ncvar"] else None
        if g is not None and nodes is None:
            return None       # the node variable's name is not known in advance
        gms = [sanitize(m["ncvar"]) for m in inp["grid_mappings"] if a["key"] in m["coords"] and m["ncvar"]]
        name = sanitize(a["ncvar"] or "auxiliary")
        auxs.append(f"(mkA {gstr(name)} {gbool(a['props'])} {gbool(a['has_data'])} "
                    f"{gopt(nodes, gstr)} {glist(gms, gstr)})")
    at = f["vars"][dv]["attrs"]

    def names_attr(x):
        if x is None:
            return None
        return x[1].split() if x[0] == "s" else []
    oc = names_attr(at.get("coordinates"))
    if oc is not None:
        oc = [w for w in oc if w not in f["dims"]] or None     # (coordinates=True adds coordinate variables)
    cont = "None"
    if "geometry" in at and at["geometry"][0] == "s" and at["geometry"][1] in f["vars"]:
        c = f["vars"][at["geometry"][1]]["attrs"]
        lst = lambda x: gopt(x, lambda l: glist(l, gstr))
        cont = (f"(Some ({glist(names_attr(c.get('node_coordinates')) or [], gstr)}, "
                f"{lst(names_attr(c.get('coordinates')))}, {lst(names_attr(c.get('grid_mapping')))}))")
    return f"({glist(auxs, lambda x: x)}, ({gopt(oc, lambda l: glist(l, gstr))}, {cont}))"


# ---------------------------------------------------------------------------
# the check
# ---------------------------------------------------------------------------
def run_files(chk, cases, nworkers=16):
    for i, c in enumerate(cases):
        c["id"] = i
    shards = [cases[i::nworkers] for i in range(nworkers)]
    payloads = [{"mode": "files", "dir": os.path.join(chk.scratch, f"w{w}"), "cases": sh}
                for w, sh in enumerate(shards) if sh]
    res = lib.run_workers_parallel("drive/c08.py", payloads, timeout=3000)
    rows = {}
    for w, (rc, out, err) in enumerate(res):
        for r in out:
            if "id" in r:
                rows[r["id"]] = r
        missing = [c["id"] for c in shards[w] if c["id"] not in rows]
        if missing:
            # a worker that died: the first missing case is the one that was running
            for cid in missing[:1]:
                rows[cid] = {"id": cid, "exc": ["CRASH", "worker", f"rc={rc} {err[-300:]}"],
                             "inputs": None, "file": None}
            rest = [cases[c] for c in missing[1:]]
            if rest:
                rc2, out2, err2 = lib.run_worker("drive/c08.py", {
                    "mode": "files", "dir": os.path.join(chk.scratch, f"w{w}r"), "cases": rest})
                for r in out2:
                    if "id" in r:
                        rows[r["id"]] = r
    return rows


def run(chk, model_ok):
    rng = chk.rng
    thorough = chk.tier == "thorough"

    # ---------------- names (unit level)
    nhist = 12000 if thorough else 3000
    histories = [list(h) for h in CORPUS_NAMES]
    histories += [gen_name_history(rng, malformed=(k % 10 == 9)) for k in range(nhist)]
    nw = 8
    shards = [histories[i::nw] for i in range(nw)]
    res = lib.run_workers_parallel("drive/c08.py", [{"mode": "names", "cases": sh} for sh in shards])
    nrows = [None] * len(histories)
    for w, (rc, out, err) in enumerate(res):
        if rc != 0 or len(out) != len(shards[w]):
            chk.fail("correspondence", "worker-crash", f"C08 names worker {w} failed rc={rc}: {err[-500:]}",
                     {"correspondence": "drive/c08.py names"})
            continue
        for j, r in enumerate(out):
            nrows[w + j * nw] = r
    ndone = [(h, r) for h, r in zip(histories, nrows) if r is not None]
    name_bad_prop = set()
    for k, (h0, r) in enumerate(ndone):
        dry, h = split_hist(h0)
        if dry:
            # (the dry run of append mode re-issues the names of the dataset: only the
            # correspondence applies)
            continue
        names = r["names"]
        failed = bool(names) and names[-1].startswith("!")
        ok_names = names[:-1] if failed else names
        # property: no blank in a name; a newly issued name differs from every name in use
        used = set()
        dims = {}
        roles = {}
        for op, n in zip(h, ok_names):
            reuse = (op[0] == "role" and n in roles.get(op[3], []) and dims.get(n) == op[2]
                     and (not (len(op) > 4 and op[4]) or n == op[1]))
            problem = None
            if " " in n:
                problem = f"name {n!r} contains a blank"
            elif not reuse and n in used:
                problem = f"name {n!r} issued twice"
            else:
                b = sanitize(op[1])
                if not reuse and not (n == b or re.fullmatch(re.escape(b) + r"_[1-9][0-9]*", n)):
                    problem = f"name {n!r} issued for base {op[1]!r}"
            if problem:
                name_bad_prop.add(k)
                chk.fail("property", "name-collision-after-space-replacement" if "twice" in problem else "name-form",
                         problem, {"input": h, "observed": r})
                break
            used.add(n)
            if op[0] == "dim":
                dims[n] = op[2]
            if op[0] == "role" and not reuse:
                dims.setdefault(n, op[2])
                roles.setdefault(op[3], []).append(n)
        if failed and not (names[-1] == "!ValueError" and any(op[0] == "role" and op[3] == "" for op in h)):
            name_bad_prop.add(k)
            chk.fail("property", "name-allocator-error", f"allocator raised {names[-1]}",
                     {"input": h, "observed": r})

    # ---------------- files
    nfiles = 2400 if thorough else 420
    fams = ["examples"] * 3 + ["mixed"] * 3 + ["synthetic"] * 3 + ["malformed"]
    cases = corpus_files()
    for c in cases:
        for i, fs in enumerate(c["fields"]):
            fs.setdefault("props", {})["c08_id"] = f"F{i}"
    for k in range(nfiles):
        cases.append(gen_file_case(rng, fams[k % len(fams)]))
    for k in range(40 if chk.tier == "quick" else 200):
        cases.append(gen_shared_bounds_case(rng))
    kinds = ["geometry"] * 4 + ["compressed"] * 3 + ["external"] * 2 + ["vertical"]
    for k in range(120 if chk.tier == "quick" else 700):
        cases.append(gen_reference_case(rng, kinds[k % len(kinds)]))
    rows = run_files(chk, cases)
    cf_version = table_version()

    explained = set()
    stats = {"written": 0, "refused-as-expected": 0, "refused-may": 0, "build-error": 0}
    excs = {}
    for c in cases:
        row = rows.get(c["id"])
        if row is None:
            chk.fail("correspondence", "worker-crash", f"no result for case {c['id']}",
                     {"correspondence": "drive/c08.py files", "input": c})
            continue
        if row["exc"] and row["exc"][0] == "BUILD":
            stats["build-error"] += 1
            continue
        if row["exc"] and row["exc"][0] == "CRASH":
            explained.add(c["id"])
            chk.fail("property", "writer-crash", f"the worker died while writing: {row['exc']}", {"input": c})
            continue
        kind, reason = refusal(c, row["inputs"])
        if row["exc"]:
            cls = row["exc"][1]
            excs[cls] = excs.get(cls, 0) + 1
            if kind == "must":
                stats["refused-as-expected"] += 1
                if reason.startswith("conventions") and cls != "ValueError":
                    explained.add(c["id"])
                    chk.fail("property", classify_exception(c, row["inputs"], row["exc"]),
                             f"refusal with the wrong error: {row['exc']}", {"input": c, "observed": row["exc"]})
            elif kind == "may":
                stats["refused-may"] += 1
            else:
                explained.add(c["id"])
                chk.fail("property", classify_exception(c, row["inputs"], row["exc"]),
                         f"write failed: {row['exc'][1:]}", {"input": c, "observed": row["exc"]})
            continue
        stats["written"] += 1
        if kind == "must":
            explained.add(c["id"])
            sig = {"netcdf3-compress": "netcdf3-compress-silently-ignored"}.get(reason, "refusal-expected:" + reason)
            chk.fail("property", sig, f"the write succeeded although {reason}", {"input": c})
            continue
        if oracle_file(chk, c, row, cf_version):
            explained.add(c["id"])

    # ---------------- correspondence
    ncorr = 0
    if model_ok:
        lits = []
        for h0, r in ndone:
            dry, h = split_hist(h0)
            names = r["names"]
            failed = bool(names) and names[-1].startswith("!")
            ok_names = names[:-1] if failed else names
            lits.append(f"({gbool(dry)}, {glist(h, g_op)}, {glist(ok_names, gstr)}, {gbool(failed)}, "
                        f"{glist(r['vars'], gstr)}, {glist(r['dims'], lambda d: gpair(gstr(d[0]), gz(d[1])))})")
        bad = lib.coq_bad_indices("C08", REQ, "check_names", lits, chunk=400)
        ncorr += len(lits)
        for i in bad[:40]:
            if i in name_bad_prop:
                continue
            chk.fail("correspondence", "model-vs-impl", "name allocator: model and implementation disagree",
                     {"correspondence": "C08.Run.check_names", "input": ndone[i][0], "observed": ndone[i][1]})
        # global attributes + Conventions
        gl, gl_case = [], []
        vl, vl_case = [], []
        for c in cases:
            row = rows.get(c["id"])
            if row is None or row["inputs"] is None:
                continue
            kind, reason = refusal(c, row["inputs"])
            if row["exc"]:
                if not (kind == "must" and reason == "conventions-comma" and row["exc"][1] == "ValueError"):
                    continue
            elif kind == "must":
                continue
            if any(v is not None and v[0] != "s" and k == "Conventions"
                   for inp in row["inputs"] for k, v in inp["nc_global"].items()):
                continue
            gl.append(lit_globals(c, row))
            gl_case.append(c)
            if not row["exc"]:
                for lit, name in lits_vars(c, row):
                    vl.append(lit)
                    vl_case.append((c, name))
        bad = lib.coq_bad_indices("C08", REQ, "check_globals", gl, chunk=60)
        ncorr += len(gl)
        for i in bad[:40]:
            if gl_case[i]["id"] in explained:
                continue
            chk.fail("correspondence", "model-vs-impl",
                     "global attributes / Conventions: model and file disagree",
                     {"correspondence": "C08.Run.check_globals", "input": gl_case[i],
                      "observed": rows[gl_case[i]["id"]]["file"]["gattrs"] if rows[gl_case[i]["id"]]["file"] else rows[gl_case[i]["id"]]["exc"]})
        # reference attributes of single geometry fields
        rl, rl_case = [], []
        for c in cases:
            row = rows.get(c["id"])
            if row is None or row["inputs"] is None or row["exc"]:
                continue
            lit = lit_refs(c, row)
            if lit is not None:
                rl.append(lit)
                rl_case.append(c)
        bad = lib.coq_bad_indices("C08", REQ, "check_refs", rl, chunk=200)
        ncorr += len(rl)
        for i in bad[:40]:
            if rl_case[i]["id"] in explained:
                continue
            chk.fail("correspondence", "model-vs-impl",
                     "reference attributes of a geometry field: model and file disagree",
                     {"correspondence": "C08.Run.check_refs", "input": rl_case[i], "literal": rl[i]})
        nrefs = len(rl)
        bad = lib.coq_bad_indices("C08", REQ, "check_var", vl, chunk=300)
        ncorr += len(vl)
        for i in bad[:40]:
            c, name = vl_case[i]
            if c["id"] in explained:
                continue
            chk.fail("correspondence", "model-vs-impl",
                     f"variable {name}: type / fill type / chunking: model and file disagree",
                     {"correspondence": "C08.Run.check_var", "input": c, "variable": name,
                      "observed": rows[c["id"]]["file"]["vars"][name], "literal": vl[i]})
        nvars = len(vl)
    else:
        nvars = 0
        nrefs = 0

    # ---------------- coverage
    fam = {}
    feats = {}
    distinct = set()
    for c in cases:
        fam[c["fam"]] = fam.get(c["fam"], 0) + 1
        row = rows.get(c["id"])
        if row is None or not row["file"]:
            continue
        o = c["opts"]
        nontriv = (len(c["fields"]) > 1 or o["Conventions"] or o["global_attributes"] or o["file_descriptors"]
                   or o["variable_attributes"] or o["fmt"] != "NETCDF4" or o["compress"]
                   or o["hdf5_chunks"] != "4 MiB" or o["datatype"])
        if nontriv:
            distinct.add(lib.canon([c["fields"], c["opts"]]))
        for k, cond in (("multi-field", len(c["fields"]) > 1), ("conventions", bool(o["Conventions"])),
                        ("file_descriptors", bool(o["file_descriptors"])),
                        ("global_attributes", bool(o["global_attributes"])),
                        ("variable_attributes", bool(o["variable_attributes"])),
                        ("non-netcdf4", o["fmt"] != "NETCDF4"), ("compress", bool(o["compress"])),
                        ("endian", o["endian"] != "native"), ("datatype", bool(o["datatype"])),
                        ("hdf5_chunks", o["hdf5_chunks"] != "4 MiB"), ("string=False", not o["string"]),
                        ("coordinates", o["coordinates"]),
                        ("unlimited", any(fs.get("unlimited") for fs in c["fields"])),
                        ("data-chunks", any(fs.get("chunks") is not None for fs in c["fields"])),
                        ("forced-global", any(v is not None for fs in c["fields"] for _, v in fs.get("nc_global", []))),
                        ("name-with-blank", any(" " in (fs.get("ncvar") or "") for fs in c["fields"])),
                        ("vector-property", any(isinstance(v, dict) for fs in c["fields"] for v in fs.get("props", {}).values())),
                        ("geometry", any(fs["src"] == ["example", 6] for fs in c["fields"])),
                        ("dsg", any(fs["src"] in (["example", 3], ["example", 4]) for fs in c["fields"])),
                        ("domain", any(fs["src"][0] == "domain" for fs in c["fields"]))):
            if cond:
                feats[k] = feats.get(k, 0) + 1
    nontrivial_names = {lib.canon(h) for h, r in ndone if len(split_hist(h)[1]) > 1}
    chk.coverage.update({
        "evaluations": len(ndone) + len(cases) + nvars,
        "distinct_nontrivial": len(distinct) + len(nontrivial_names),
        "rule": "files: a case is a sequence of 1-4 fields/domains (cfdm.example_field(0..7), their domains, synthetic "
                "fields of rank 0-4) with generated netCDF names, properties, nc_global_attributes, unlimited axes and "
                "chunk requests, written under a generated option set; non-trivial = more than one field or at least one "
                "non-default option; name histories: non-trivial = at least two requests; distinct = distinct canonical JSON",
        "samples": [cases[len(corpus_files())], cases[len(cases) // 2], ndone[len(ndone) // 2][0]],
        "traces_validated_against_impl": ncorr,
        "disagreements_checked": ncorr,
        "name_histories": len(ndone),
        "files": stats,
        "file_case_families": fam,
        "features_in_written_files": feats,
        "write_exception_classes": excs,
        "variables_checked_for_type_and_chunks": nvars,
        "geometry_fields_checked_against_reference_model": nrefs,
        "exhaustive": False,
        "historical_refutations": "C08/Refuted.v: the allocator and the Conventions assembly as they were before the proposed fix: diffs",
    })
    chk.assumptions += [
        "names, attribute values and Conventions tokens are printable ASCII without tabs or newlines (the only white space is the blank)",
        "property values are compared as opaque tokens (strings exactly, numbers by value); the numeric tolerance of equal_properties is not exercised",
        "dask's auto_chunks is modelled in exact integer arithmetic; where the ideal chunk edge is an exact integer (perfect power) the floating point result may fall one below, and the correspondence then only requires the chunk bounds",
        "groups are not generated (C11), append mode is not used (C17), the round trip through cfdm.read is C01's",
        "HDF5/netCDF-C reject some combinations (contiguous storage with filters or unlimited dimensions, 64-bit integers in classic formats): such refusals are accepted",
    ]


def table_version():
    try:
        src = open(os.path.join(lib.THEORIES, "Tables", "WriterConstants.v")).read()
        return re.search(r'c08_cf_version : string := "([^"]*)"', src).group(1)
    except Exception:
        return "1.11"


def replay(chk, path):
    d = json.load(open(path))
    bad = 0
    fcases, ncases = [], []
    for x in d.get("cases", []):
        inp = x.get("input")
        if isinstance(inp, dict) and "fields" in inp:
            fcases.append(inp)
        elif isinstance(inp, list):
            ncases.append(inp)
    if ncases:
        rc, out, err = lib.run_worker("drive/c08.py", {"mode": "names", "cases": ncases})
        for h, r in zip(ncases, out):
            names = [n for n in r["names"] if not n.startswith("!")]
            ok = len(set(names)) == len(names) or any(op[0] == "role" for op in h)
            ok = ok and not any(" " in n for n in names) and not any(n.startswith("!") for n in r["names"])
            print(("ok   " if ok else "FAIL ") + json.dumps(h), "->", r["names"])
            bad += not ok
    if fcases:
        rows = run_files(chk, fcases, nworkers=4)
        ver = table_version()
        for c in fcases:
            row = rows.get(c["id"])
            n0 = len(chk.failures)
            if row is None or (row["exc"] and refusal(c, row["inputs"])[0] is None):
                print("FAIL", json.dumps(c)[:300], row and row["exc"])
                bad += 1
                continue
            if row["file"]:
                oracle_file(chk, c, row, ver)
            ok = len(chk.failures) == n0
            print(("ok   " if ok else "FAIL ") + json.dumps(c)[:300],
                  [f.what[:200] for f in chk.failures[n0:]])
            bad += not ok
    return 1 if bad else 0
