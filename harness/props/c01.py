"""C01 - write then read returns the same field or domain construct (DESIGN.md section 4, C01)."""
import copy
import json

import lib
from lib import gz, gbool, gopt, glist, gstr

REQ = "From CfdmV Require Import Common.Base C01.Model C01.Run."
DEPENDS = []

FORMATS = ["NETCDF4", "NETCDF4_CLASSIC", "NETCDF3_CLASSIC", "NETCDF3_64BIT", "NETCDF3_64BIT_OFFSET",
           "NETCDF3_64BIT_DATA"]
CLASSIC_DTYPES = {"i1", "i2", "i4", "f4", "f8", "S"}
ALL_NUM = ["i1", "i2", "i4", "i8", "u1", "u2", "u4", "u8", "f4", "f8"]
STD_NAMES = ["air_temperature", "latitude", "longitude", "time", "height", "air_pressure",
             "grid_latitude", "grid_longitude", "altitude", "depth"]
VAR_NAMES = ["t", "x", "y", "z", "lat", "lon", "p", "q", "tas", "aux0", "aux1", "msr", "anc", "v1", "v2", "w w"]
DIM_NAMES = ["dx", "dy", "dz", "dt", "n", "m", "k", "bnd", "nv", "d d"]
METHODS = ["mean", "maximum", "minimum", "point", "sum", "variance"]


# ---------------------------------------------------------------- generator
class NamePool:
    """Distinct netCDF names (two set names never collide: a netCDF file cannot hold both)."""

    def __init__(self, rng):
        self.rng = rng
        self.used = set()

    def draw(self, pool, p):
        if self.rng.random() >= p:
            return None
        free = [n for n in pool if n not in self.used and n.replace(" ", "_") not in self.used]
        if not free:
            return None
        n = self.rng.choice(free)
        self.used.add(n)
        self.used.add(n.replace(" ", "_"))
        return n


def gen_props(rng, kind, pstd=0.6):
    p = {}
    if rng.random() < pstd:
        p["standard_name"] = rng.choice(STD_NAMES)
    if rng.random() < 0.4:
        p["long_name"] = rng.choice(["a long name", "x", "Grid latitude name", "some: thing (odd)"])
    if rng.random() < 0.5:
        p["units"] = rng.choice(["K", "m", "degrees_north", "days since 2000-01-01", "1", "km2"])
        if p["units"].startswith("days") and rng.random() < 0.5:
            p["calendar"] = rng.choice(["gregorian", "360_day", "noleap"])
    if rng.random() < 0.15:
        p["flag_values"] = [1, 2, 4]
        p["flag_meanings"] = "a b c"
    if rng.random() < 0.15:
        p["valid_range"] = [-1000.5, 1000.5]
    if rng.random() < 0.1:
        p["comment"] = rng.choice(["", "multi word comment", "x" * 40])
    if rng.random() < 0.1:
        p["my_number"] = rng.choice([3, 2.5, -7])
    return p


def gen_spec(rng, profile="full"):
    """A field skeleton.  profile 'core' keeps to the fragment the Coq model covers."""
    core = profile == "core"
    names = NamePool(rng)
    kind = "domain" if rng.random() < 0.15 else "field"
    nax = rng.choice([0, 1, 1, 2, 2, 2, 3, 3, 4])
    base = rng.choice([1, 2, 3, 5])
    sizes = [base if rng.random() < 0.4 else rng.choice([1, 2, 3, 5]) for _ in range(nax)]
    axes = []
    for s in sizes:
        axes.append({"size": s, "ncdim": names.draw(DIM_NAMES, 0.45), "unlimited": rng.random() < 0.12})
    # data axes: every axis of size > 1, and some of the size-1 axes, in random order
    span = [i for i, s in enumerate(sizes) if s > 1 or rng.random() < 0.5]
    rng.shuffle(span)
    num = lambda: rng.choice(ALL_NUM if rng.random() < 0.6 else ["f8", "f4", "i4"])  # noqa: E731
    spec = {"kind": kind, "props": gen_props(rng, "field", 0.7), "ncvar": names.draw(VAR_NAMES, 0.5),
            "axes": axes, "cons": [], "cms": [], "refs": []}
    if kind == "field":
        spec["data"] = {"axes": span, "dtype": rng.choice(ALL_NUM + (["S"] if not core and rng.random() < 0.3 else [])),
                        "mask": rng.random() < 0.35}
    else:
        spec["data"] = None
        span = list(range(nax))
    if kind == "field" and rng.random() < 0.15 and spec["data"]["dtype"] != "S":
        spec["props"]["_FillValue"] = -99
    if kind == "field" and rng.random() < 0.1 and spec["data"]["dtype"] != "S":
        spec["props"]["missing_value"] = -98
    cons = spec["cons"]
    # dimension coordinates
    for a in range(nax):
        if rng.random() < 0.7:
            c = {"type": "dim", "axes": [a], "props": gen_props(rng, "dim"), "dtype": num(), "ncvar": None, "mask": False}
            # the netCDF name of a coordinate variable is the name of its dimension: keep them consistent
            r = rng.random()
            if axes[a]["ncdim"] is not None and r < 0.5:
                c["ncvar"] = axes[a]["ncdim"]
            elif axes[a]["ncdim"] is None and r < 0.4:
                c["ncvar"] = names.draw(VAR_NAMES, 1.0)
            elif axes[a]["ncdim"] is not None and r > 0.93 and not core:
                c["ncvar"] = names.draw(VAR_NAMES, 1.0)   # inconsistent on purpose
            if rng.random() < 0.4:
                c["bounds"] = gen_bounds(rng, names, c)
                if rng.random() < 0.12 and not core:
                    c["climatology"] = True
            cons.append(c)
    # auxiliary coordinates
    for _ in range(rng.choice([0, 0, 1, 1, 2, 3])):
        if nax == 0:
            break
        k = rng.choice([1, 1, 1, 2, 2, 3])
        ax = rng.sample(range(nax), min(k, nax))
        c = {"type": "aux", "axes": ax, "props": gen_props(rng, "aux"), "ncvar": names.draw(VAR_NAMES, 0.5),
             "dtype": "S" if rng.random() < 0.25 else num(), "mask": rng.random() < 0.2}
        if c["dtype"] != "S" and rng.random() < 0.35:
            c["bounds"] = gen_bounds(rng, names, c)
        cons.append(c)
    # cell measures
    for _ in range(rng.choice([0, 0, 0, 1, 1, 2])):
        if nax == 0:
            break
        ax = rng.sample(range(nax), min(rng.choice([1, 2, 2]), nax))
        c = {"type": "measure", "axes": ax, "props": gen_props(rng, "measure", 0.2), "ncvar": names.draw(VAR_NAMES, 0.5),
             "dtype": num(), "mask": False, "measure": rng.choice(["area", "volume"])}
        if rng.random() < 0.25 and not core:
            c["external"] = True
            if c["ncvar"] is None:
                c["ncvar"] = names.draw(VAR_NAMES + ["ext1", "ext2", "ext3"], 1.0)
            c["nodata"] = rng.random() < 0.5
        cons.append(c)
    # field ancillaries (over data axes)
    if kind == "field":
        for _ in range(rng.choice([0, 0, 0, 1, 1, 2])):
            dax = spec["data"]["axes"]
            if not dax:
                break
            ax = rng.sample(dax, rng.randint(1, min(3, len(dax))))
            cons.append({"type": "fanc", "axes": ax, "props": gen_props(rng, "fanc"), "ncvar": names.draw(VAR_NAMES, 0.5),
                         "dtype": num(), "mask": rng.random() < 0.2})
    # coordinate references: grid mappings, and a vertical one with domain ancillaries
    if not core:
        coords = [j for j, c in enumerate(cons) if c["type"] in ("dim", "aux")]
        for _ in range(rng.choice([0, 0, 0, 1, 1, 2])):
            if not coords:
                break
            r = {"coords": rng.sample(coords, rng.randint(1, min(3, len(coords)))),
                 "ncvar": names.draw(["crs", "rotated_pole", "gm"], 0.5),
                 "params": {"grid_mapping_name": rng.choice(["latitude_longitude", "rotated_latitude_longitude",
                                                             "lambert_conformal_conic"])},
                 "datum": {}}
            if rng.random() < 0.6:
                r["params"]["grid_north_pole_latitude"] = 38.0
                r["params"]["grid_north_pole_longitude"] = 190.0
            if rng.random() < 0.3:
                r["params"]["standard_parallel"] = [25.0, 30.5]
            if rng.random() < 0.5:
                r["datum"]["earth_radius"] = 6371007.0
            if rng.random() < 0.2:
                r["datum"]["horizontal_datum_name"] = "WGS84"
            spec["refs"].append(r)
        if rng.random() < 0.15:
            # vertical (formula terms) reference owned by a 1-d coordinate
            own = [j for j in coords if len(cons[j]["axes"]) == 1 and cons[j]["dtype"] != "S"]
            if own:
                o = rng.choice(own)
                cons[o]["props"]["standard_name"] = "atmosphere_hybrid_height_coordinate"
                for j in coords:
                    if j != o and cons[j]["props"].get("standard_name") == "atmosphere_hybrid_height_coordinate":
                        cons[j]["props"]["standard_name"] = "altitude"
                dancs = {}
                for term in ("a", "b", "orog"):
                    if rng.random() < 0.8:
                        ax = cons[o]["axes"] if term != "orog" else rng.sample(range(nax), min(rng.choice([1, 2]), nax))
                        cons.append({"type": "danc", "axes": list(ax), "props": gen_props(rng, "danc", 0.3),
                                     "ncvar": names.draw(VAR_NAMES, 0.4), "dtype": "f8", "mask": False})
                        dancs[term] = len(cons) - 1
                spec["refs"].append({"coords": [o], "ncvar": None,
                                     "params": {"standard_name": "atmosphere_hybrid_height_coordinate",
                                                "computed_standard_name": "altitude"},
                                     "dancs": dancs, "datum": {}})
        if rng.random() < 0.05 and nax:
            # a domain ancillary that no coordinate reference uses
            cons.append({"type": "danc", "axes": [rng.randrange(nax)], "props": gen_props(rng, "danc"),
                         "ncvar": names.draw(VAR_NAMES, 0.4), "dtype": "f8", "mask": False})
    # cell methods
    if kind == "field":
        for _ in range(rng.choice([0, 0, 1, 1, 2, 3])):
            r = rng.random()
            if r < 0.1 or nax == 0:
                ax = ["area"]
            elif r < 0.2 and not core:
                ax = [rng.choice(STD_NAMES)]
            else:
                ax = rng.sample(range(nax), min(rng.choice([1, 1, 2]), nax))
            cm = {"axes": ax, "method": rng.choice(METHODS), "quals": {}}
            if rng.random() < 0.25:
                cm["quals"]["where"] = "land"
                if rng.random() < 0.4:
                    cm["quals"]["over"] = "sea"
            elif rng.random() < 0.2:
                cm["quals"][rng.choice(["within", "over"])] = rng.choice(["days", "years"])
            if rng.random() < 0.2:
                cm["quals"]["comment"] = rng.choice(["standard comment", "x"])
            spec["cms"].append(cm)
    return spec


def gen_bounds(rng, names, c):
    b = {"n": rng.choice([2, 2, 2, 4]), "ncvar": names.draw(["xb", "yb", "tb", "bnds", "b b"], 0.4),
         "ncdim": names.draw(DIM_NAMES, 0.3), "props": {}}
    if rng.random() < 0.2 and "units" in c["props"]:
        b["props"]["units"] = c["props"]["units"]
    if rng.random() < 0.1:
        b["props"]["long_name"] = "bounds of it"
    return b


def spec_dtypes(spec):
    d = set()
    if spec.get("data"):
        d.add(spec["data"]["dtype"])
    for c in spec["cons"]:
        d.add(c.get("dtype", "f8"))
    return d


def gen_options(rng, spec, default=False):
    if default:
        return {}
    dts = spec_dtypes(spec)
    unlimited = [a for a in spec["axes"] if a["unlimited"]]
    fmts = []
    for fmt in FORMATS:
        if fmt == "NETCDF4":
            fmts.append(fmt)
        elif fmt == "NETCDF3_64BIT_DATA":
            if not unlimited:
                fmts.append(fmt)
        elif dts <= CLASSIC_DTYPES and not unlimited:
            fmts.append(fmt)
    o = {"fmt": rng.choice(fmts) if rng.random() < 0.75 else "NETCDF4"}
    if rng.random() < 0.3:
        o["string"] = False
    if o["fmt"] in ("NETCDF4", "NETCDF4_CLASSIC"):
        if rng.random() < 0.4:
            o["compress"] = rng.choice([4, 9, 1])
        if rng.random() < 0.3:
            o["shuffle"] = False
        if rng.random() < 0.25:
            o["fletcher32"] = True
        if rng.random() < 0.4:
            o["hdf5_chunks"] = rng.choice(["contiguous", "1 KiB", 64, "4 MiB"])
            if o["hdf5_chunks"] == "contiguous":
                o.pop("compress", None)
                o.pop("fletcher32", None)
                o["shuffle"] = False
    if rng.random() < 0.4:
        o["endian"] = rng.choice(["little", "big", "native"])
    if rng.random() < 0.3:
        o["group"] = False
    if rng.random() < 0.3:
        o["coordinates"] = True
    if any(c.get("external") for c in spec["cons"]) and rng.random() < 0.6:
        o["external_file"] = True
    return o


if __name__ == "__main__":
    import random
    import sys
    rng = random.Random(int(sys.argv[1]) if len(sys.argv) > 1 else 1)
    for _ in range(3):
        s = gen_spec(rng)
        print(json.dumps(s))
        print(gen_options(rng, s))
