"""C01 - write then read returns the same field or domain construct (DESIGN.md section 4, C01)."""
import copy
import json

import lib
from lib import gz, gbool, gopt, glist, gstr

REQ = "From CfdmV Require Import Common.Base C01.Model C01.Run."
DEPENDS = []

FORMATS = ["NETCDF4", "NETCDF4_CLASSIC", "NETCDF3_CLASSIC", "NETCDF3_64BIT", "NETCDF3_64BIT_OFFSET",
           "NETCDF3_64BIT_DATA"]
CLASSIC_DTYPES = {"i1", "i2", "i4", "f4", "f8", "S"}
ALL_NUM = ["i1", "i2", "i4", "i8", "u1", "u2", "u4", "u8", "f4", "f8"]
STD_NAMES = ["air_temperature", "latitude", "longitude", "time", "height", "air_pressure",
             "grid_latitude", "grid_longitude", "altitude", "depth"]
VAR_NAMES = ["t", "x", "y", "z", "lat", "lon", "p", "q", "tas", "aux0", "aux1", "msr", "anc", "v1", "v2"]
DIM_NAMES = ["dx", "dy", "dz", "dt", "n", "m", "k", "bnd", "nv"]
IMPLIED = {"latitude_longitude": ("latitude", "longitude"),
           "rotated_latitude_longitude": ("grid_latitude", "grid_longitude", "latitude", "longitude"),
           "lambert_conformal_conic": ("projection_x_coordinate", "projection_y_coordinate", "latitude", "longitude")}
METHODS = ["mean", "maximum", "minimum", "point", "sum", "variance"]


# ---------------------------------------------------------------- generator
class NamePool:
    """Distinct netCDF names (two set names never collide: a netCDF file cannot hold both)."""

    def __init__(self, rng):
        self.rng = rng
        self.used = set()

    def draw(self, pool, p):
        if self.rng.random() >= p:
            return None
        free = [n for n in pool if n not in self.used and n.replace(" ", "_") not in self.used]
        if not free:
            return None
        n = self.rng.choice(free)
        self.used.add(n)
        self.used.add(n.replace(" ", "_"))
        return n


def gen_props(rng, kind, pstd=0.6):
    p = {}
    if rng.random() < pstd:
        p["standard_name"] = rng.choice(STD_NAMES)
    if rng.random() < 0.4:
        p["long_name"] = rng.choice(["a long name", "x", "Grid latitude name", "some: thing (odd)"])
    if rng.random() < 0.5:
        p["units"] = rng.choice(["K", "m", "degrees_north", "days since 2000-01-01", "1", "km2"])
        if p["units"].startswith("days") and rng.random() < 0.5:
            p["calendar"] = rng.choice(["gregorian", "360_day", "noleap"])
    if rng.random() < 0.15:
        p["flag_values"] = [1, 2, 4]
        p["flag_meanings"] = "a b c"
    if rng.random() < 0.15:
        p["valid_range"] = [-1000.5, 1000.5]
    if rng.random() < 0.1:
        p["comment"] = rng.choice(["", "multi word comment", "x" * 40])
    if rng.random() < 0.1:
        p["my_number"] = rng.choice([3, 2.5, -7])
    return p


def gen_spec(rng, profile="full", kind=None):
    """A field skeleton.  profile 'core' keeps to the fragment the Coq model covers."""
    core = profile == "core"
    names = NamePool(rng)
    r0 = rng.random()
    kind = kind or ("domain" if r0 < 0.15 else "field")
    nax = rng.choice([0, 1, 1, 2, 2, 2, 3, 3, 4])
    base = rng.choice([1, 2, 3, 5])
    sizes = [base if rng.random() < 0.4 else rng.choice([1, 2, 3, 5]) for _ in range(nax)]
    axes = []
    for s in sizes:
        axes.append({"size": s, "ncdim": names.draw(DIM_NAMES, 0.45), "unlimited": rng.random() < 0.12})
    # data axes: every axis of size > 1, and some of the size-1 axes, in random order
    span = [i for i, s in enumerate(sizes) if s > 1 or rng.random() < 0.5]
    rng.shuffle(span)
    num = lambda: rng.choice(ALL_NUM if rng.random() < 0.6 else ["f8", "f4", "i4"])  # noqa: E731
    spec = {"kind": kind, "props": gen_props(rng, "field", 0.7), "ncvar": names.draw(VAR_NAMES, 0.5),
            "axes": axes, "cons": [], "cms": [], "refs": []}
    if kind == "field":
        spec["data"] = {"axes": span, "dtype": rng.choice(ALL_NUM + (["S"] if not core and rng.random() < 0.3 else [])),
                        "mask": rng.random() < 0.35}
    else:
        spec["data"] = None
        span = list(range(nax))
    if kind == "field" and rng.random() < 0.15 and spec["data"]["dtype"] in ("i2", "i4", "i8", "f4", "f8"):
        spec["props"]["_FillValue"] = -99
    if kind == "field" and rng.random() < 0.1 and spec["data"]["dtype"] in ("i2", "i4", "i8", "f4", "f8"):
        spec["props"]["missing_value"] = -98
    if kind == "field" and spec["data"]["dtype"] == "S":
        for k in ("valid_range", "flag_values", "flag_meanings"):
            spec["props"].pop(k, None)
    cons = spec["cons"]
    # dimension coordinates
    unsp = [a for a in range(nax) if a not in span]

    def pool():
        # constructs other than a lone dimension coordinate on an axis the data do not span cannot be
        # encoded in CF-netCDF without changing the field (known findings): keep them to a small probe
        if unsp and rng.random() < 0.06 and not core:
            return list(range(nax))
        return list(span)

    for a in range(nax):
        if rng.random() < (0.7 if a in span else (0.96 if not core else 1.0)):
            c = {"type": "dim", "axes": [a], "props": gen_props(rng, "dim"), "dtype": num(), "ncvar": None, "mask": False}
            # the netCDF name of a coordinate variable is the name of its dimension: keep them consistent
            r = rng.random()
            if axes[a]["ncdim"] is not None and r < 0.5:
                c["ncvar"] = axes[a]["ncdim"]
            elif axes[a]["ncdim"] is None and r < 0.4:
                c["ncvar"] = names.draw(VAR_NAMES, 1.0)
            elif axes[a]["ncdim"] is not None and r > 0.93 and not core:
                c["ncvar"] = names.draw(VAR_NAMES, 1.0)   # inconsistent on purpose
            if rng.random() < 0.4:
                c["bounds"] = gen_bounds(rng, names, c)
                if rng.random() < 0.12 and not core:
                    c["climatology"] = True
                    c["props"]["units"] = "days since 2000-01-01"
                    c["props"].setdefault("calendar", "gregorian")
            cons.append(c)
    # auxiliary coordinates
    for _ in range(rng.choice([0, 0, 1, 1, 2, 3])):
        pl = pool()
        if not pl:
            break
        k = rng.choice([1, 1, 1, 2, 2, 3])
        ax = rng.sample(pl, min(k, len(pl)))
        c = {"type": "aux", "axes": ax, "props": gen_props(rng, "aux"), "ncvar": names.draw(VAR_NAMES, 0.5),
             "dtype": "S" if rng.random() < 0.25 else num(), "mask": rng.random() < 0.2}
        if c["dtype"] != "S" and rng.random() < 0.35:
            c["bounds"] = gen_bounds(rng, names, c)
        if c["dtype"] == "S":
            c["mask"] = rng.random() < 0.2 and not core   # numpy width > longest unmasked string
            for k in ("valid_range", "flag_values", "flag_meanings", "units", "calendar"):
                c["props"].pop(k, None)
        cons.append(c)
    # cell measures
    for _ in range(rng.choice([0, 0, 0, 1, 1, 2])):
        pl = pool()
        if not pl:
            break
        ax = rng.sample(pl, min(rng.choice([1, 2, 2]), len(pl)))
        c = {"type": "measure", "axes": ax, "props": gen_props(rng, "measure", 0.2), "ncvar": names.draw(VAR_NAMES, 0.5),
             "dtype": num(), "mask": False, "measure": rng.choice(["area", "volume"])}
        if rng.random() < 0.25 and not core and kind == "field":
            # (file-descriptor properties such as comment stay on the measure: C01-fix2-28.  Domains: C01-fix2-27 makes
            # the write succeed, but cfdm.read(domain=True, external=) does not resolve the variable - see the report)
            c["external"] = True
            if c["ncvar"] is None:
                c["ncvar"] = names.draw(VAR_NAMES + ["ext1", "ext2", "ext3"], 1.0)
            if rng.random() < 0.15:
                # as read from a file whose external variable was not resolved
                c["nodata"] = True
                c["axes"] = []
                c["props"] = {}
        cons.append(c)
    # field ancillaries (over data axes)
    if kind == "field":
        for _ in range(rng.choice([0, 0, 0, 1, 1, 2])):
            dax = spec["data"]["axes"]
            if not dax:
                break
            ax = rng.sample(dax, rng.randint(1, min(3, len(dax))))
            cons.append({"type": "fanc", "axes": ax, "props": gen_props(rng, "fanc"), "ncvar": names.draw(VAR_NAMES, 0.5),
                         "dtype": num(), "mask": rng.random() < 0.2})
    # coordinate references: grid mappings, and a vertical one with domain ancillaries
    if not core:
        coords = [j for j, c in enumerate(cons) if c["type"] in ("dim", "aux")]
        for _ in range(rng.choice([0, 0, 0, 1, 1, 2])):
            if not coords:
                break
            r = {"coords": rng.sample(coords, rng.randint(1, min(3, len(coords)))),
                 "ncvar": names.draw(["crs", "rotated_pole", "gm"], 0.5),
                 "params": {"grid_mapping_name": rng.choice(["latitude_longitude", "rotated_latitude_longitude",
                                                             "lambert_conformal_conic"])},
                 "datum": {}}
            if rng.random() < 0.6:
                r["params"]["grid_north_pole_latitude"] = 38.0
                r["params"]["grid_north_pole_longitude"] = 190.0
            if rng.random() < 0.3:
                r["params"]["standard_parallel"] = [25.0, 30.5]
            if rng.random() < 0.5:
                r["datum"]["earth_radius"] = 6371007.0
            if rng.random() < 0.2:
                r["datum"]["horizontal_datum_name"] = "WGS84"
            spec["refs"].append(r)
        if len(spec["refs"]) == 1 and rng.random() < 0.85:
            # a lone grid mapping is written in the short form (no coordinate list); the reader then
            # takes the coordinates the grid mapping name implies: make the reference canonical
            r = spec["refs"][0]
            r["coords"] = [j for j in coords if cons[j]["props"].get("standard_name") in
                           IMPLIED[r["params"]["grid_mapping_name"]]]
        if rng.random() < 0.12:
            # vertical (formula terms) reference owned by a 1-d numeric coordinate.  Canonical form = what the reader
            # makes of a CF file: the owner has standard_name AND computed_standard_name as properties; no grid mapping
            # lists the owner; at least one term; a term has bounds only where CF can link them (owner has bounds and
            # the term spans the owner's axis); the datum is one CF can carry.  PROBE keeps the defect classes watched.
            PROBE = 0.04
            SN, CSN = "atmosphere_hybrid_height_coordinate", "altitude"
            clim = {a for c in cons if c.get("climatology") for a in c["axes"]}
            own = [j for j in coords if len(cons[j]["axes"]) == 1 and cons[j]["dtype"] != "S"
                   and cons[j]["axes"][0] in span and cons[j]["axes"][0] not in clim]
            if own:
                o = rng.choice(own)
                oax = list(cons[o]["axes"])
                cons[o]["props"]["standard_name"] = SN
                cons[o]["props"]["computed_standard_name"] = CSN
                if rng.random() < PROBE:
                    del cons[o]["props"]["computed_standard_name"]
                for j in coords:
                    if j != o and cons[j]["props"].get("standard_name") == SN:
                        cons[j]["props"]["standard_name"] = "altitude"
                for r0 in spec["refs"]:
                    r0["coords"] = [j for j in r0["coords"] if j != o]
                if len(spec["refs"]) > 1:
                    # several grid mappings are written with their coordinate lists: an empty list is not writable
                    spec["refs"] = [r0 for r0 in spec["refs"] if r0["coords"]]
                gms = list(spec["refs"])
                dancs = {}
                for term in ("a", "b", "orog"):
                    if rng.random() < 0.8 or (term == "orog" and not dancs and rng.random() >= PROBE):
                        if term == "orog":
                            pl = [a for a in (pool() or oax) if a not in oax] or oax
                            ax = rng.sample(pl, min(rng.choice([1, 2]), len(pl)))
                        else:
                            ax = list(oax)
                        d = {"type": "danc", "axes": list(ax), "props": gen_props(rng, "danc", 0.3),
                             "ncvar": names.draw(VAR_NAMES, 0.4), "dtype": "f8" if rng.random() < 0.7 else num(), "mask": False}
                        linkable = bool(cons[o].get("bounds")) and oax[0] in ax
                        if rng.random() < (0.35 if linkable else PROBE):
                            d["bounds"] = gen_bounds(rng, names, d)
                        cons.append(d)
                        dancs[term] = len(cons) - 1
                if dancs and rng.random() < PROBE:
                    dancs["c"] = dancs[rng.choice(sorted(dancs))]      # one variable used by two terms
                datum = {}
                if len(gms) == 1:
                    datum = dict(gms[0]["datum"])
                elif len(gms) > 1 and rng.random() < 0.4:
                    uniq = [g0["datum"] for g0 in gms if g0["datum"] and sum(1 for g1 in gms if g1["datum"] == g0["datum"]) == 1]
                    if uniq:
                        datum = dict(rng.choice(uniq))
                if rng.random() < PROBE:
                    datum = rng.choice([{}, {"earth_radius": 6371229.0}, {"horizontal_datum_name": "WGS84"}])
                spec["refs"].append({"coords": [o], "ncvar": None, "params": {"standard_name": SN, "computed_standard_name": CSN},
                                     "dancs": dancs, "datum": datum})
        if rng.random() < 0.02 and nax:
            # probe F01h: a domain ancillary that no coordinate reference uses
            cons.append({"type": "danc", "axes": [rng.randrange(nax)], "props": gen_props(rng, "danc"),
                         "ncvar": names.draw(VAR_NAMES, 0.4), "dtype": "f8", "mask": False})
    # unlimited: a size-1 axis the data do not span is written as a scalar coordinate variable (no netCDF dimension
    # to carry the flag); a domain axis that no construct spans is a known finding (written with zero records)
    for a in range(nax):
        if axes[a]["unlimited"] and ((kind == "field" and a not in span) or
                                     (kind == "domain" and not any(a in c["axes"] for c in cons) and rng.random() > 0.1)):
            axes[a]["unlimited"] = False
    # cell methods
    with_dim = [a for a in range(nax) if any(c["type"] == "dim" and c["axes"] == [a] for c in cons)]
    if kind == "field":
        for c in cons:
            if c.get("climatology"):
                spec["cms"].append({"axes": list(c["axes"]), "method": "mean",
                                    "quals": {rng.choice(["within", "over"]): rng.choice(["days", "years"])}})
        for _ in range(rng.choice([0, 0, 1, 1, 2, 3])):
            r = rng.random()
            if r < 0.1 or nax == 0:
                ax = ["area"]
            elif r < 0.2 and not core:
                ax = [rng.choice(["realization", "forecast_period", "model_level_number"])]
            else:
                # any axis: one with a dimension coordinate, one with auxiliary coordinates only, a bare one
                pl = with_dim if (with_dim and rng.random() < 0.5) else list(range(nax))
                ax = rng.sample(pl, min(rng.choice([1, 1, 2]), len(pl)))
            cm = {"axes": ax, "method": rng.choice(METHODS), "quals": {}}
            if rng.random() < 0.25:
                cm["quals"]["where"] = "land"
                if rng.random() < 0.05 and not core:
                    cm["quals"]["over"] = "sea"      # probe: F01i
            if rng.random() < 0.2:
                cm["quals"]["comment"] = rng.choice(["standard comment", "x"])
            spec["cms"].append(cm)
    return spec


def gen_bounds(rng, names, c):
    b = {"n": rng.choice([2, 2, 2, 4]), "ncvar": names.draw(["xb", "yb", "tb", "bnds"], 0.4),
         "ncdim": names.draw(DIM_NAMES, 0.08), "props": {}}
    if rng.random() < 0.04 and "units" in c["props"]:
        b["props"]["units"] = c["props"]["units"]   # probe: F01g
    if rng.random() < 0.1:
        b["props"]["long_name"] = "bounds of it"
    return b


# ---------------------------------------------------------------- directed families (second deepening pass)
STR_NAMES = ["platform_name", "region", "area_type", "station_wmo_id"]


def gen_scalar_string(rng):
    """A field with string-valued auxiliary coordinates alone on size-1 axes that the data do not span (written as
    scalar coordinate variables: netCDF strings with fmt NETCDF4 + string=True, char arrays otherwise), beside
    numeric scalar dimension coordinates and string coordinates over the data axes.  Inside the Coq model."""
    names = NamePool(rng)
    nd = rng.choice([0, 1, 1, 2])
    nsc = rng.choice([1, 1, 2, 3])
    axes = [{"size": rng.choice([2, 3, 5]), "ncdim": names.draw(DIM_NAMES, 0.4), "unlimited": False} for _ in range(nd)]
    axes += [{"size": 1, "ncdim": None, "unlimited": False} for _ in range(nsc)]
    order = list(range(nd + nsc))
    rng.shuffle(order)                       # the scalar axes anywhere among the axes
    axes = [axes[i] for i in order]
    span = [i for i, a in enumerate(axes) if a["size"] > 1]
    scal = [i for i, a in enumerate(axes) if a["size"] == 1]
    rng.shuffle(span)
    spec = {"kind": "field", "props": gen_props(rng, "field", 0.7), "ncvar": names.draw(VAR_NAMES, 0.5), "axes": axes,
            "cons": [], "cms": [], "refs": [],
            "data": {"axes": span, "dtype": rng.choice(["f8", "f4", "i4", "i2"]), "mask": rng.random() < 0.3}}
    for k in ("valid_range",):
        spec["props"].pop(k, None)
    cons = spec["cons"]

    def sprops():
        p = {}
        if rng.random() < 0.6:
            p["standard_name"] = rng.choice(STR_NAMES)
        if rng.random() < 0.5 or not p:
            p["long_name"] = rng.choice(["station name", "a long name", "x"])
        return p

    for a in span:
        if rng.random() < 0.7:
            cons.append({"type": "dim", "axes": [a], "props": gen_props(rng, "dim"), "dtype": rng.choice(["f8", "f4", "i4"]),
                         "ncvar": axes[a]["ncdim"] if rng.random() < 0.5 else None, "mask": False})
        if rng.random() < 0.4:
            cons.append({"type": "aux", "axes": [a], "props": sprops(), "dtype": "S", "ncvar": names.draw(VAR_NAMES, 0.5),
                         "mask": False})
    for k, a in enumerate(scal):
        if k == 0 or rng.random() < 0.6:
            cons.append({"type": "aux", "axes": [a], "props": sprops(), "dtype": "S", "ncvar": names.draw(VAR_NAMES, 0.5),
                         "mask": False})
        else:
            cons.append({"type": "dim", "axes": [a], "props": gen_props(rng, "dim"), "dtype": rng.choice(["f8", "i4"]),
                         "ncvar": names.draw(VAR_NAMES, 0.4), "mask": False})
    for c in cons:
        for k in ("valid_range", "flag_values", "flag_meanings"):
            if c["dtype"] == "S":
                c["props"].pop(k, None)
    if rng.random() < 0.3 and scal:
        spec["cms"].append({"axes": [rng.choice(scal)], "method": "point", "quals": {}})
    return spec


SQ_NAMES = [("projection_y_coordinate", "projection_x_coordinate"), ("grid_latitude", "grid_longitude"),
            ("latitude", "longitude"), (None, None)]


def gen_square(rng):
    """Fields whose axes have EQUAL sizes and whose constructs on DIFFERENT axes hold equal (or nearly equal) coordinate
    and bounds values: a square grid with identical x and y cell bounds, an auxiliary coordinate that repeats a dimension
    coordinate of another axis, transposed 2-d constructs.  Every construct stays its own construct after a round trip."""
    names = NamePool(rng)
    n = rng.choice([2, 3, 3, 5])
    nax = rng.choice([2, 2, 2, 3])
    axes = [{"size": n, "ncdim": names.draw(DIM_NAMES, 0.3), "unlimited": False} for _ in range(nax)]
    span = list(range(nax))
    rng.shuffle(span)
    dt = rng.choice(["f8", "f8", "f4", "i4", "i2"])
    spec = {"kind": "field", "props": {"standard_name": "air_temperature"}, "ncvar": names.draw(VAR_NAMES, 0.3),
            "axes": axes, "cons": [], "cms": [], "refs": [],
            "data": {"axes": span, "dtype": rng.choice(["f8", "f4", "i4"]), "mask": rng.random() < 0.3}}
    cons = spec["cons"]
    sn = rng.choice(SQ_NAMES)
    vb, bb = rng.randrange(3, 40), rng.randrange(3, 40)
    same_props = rng.random() < 0.15
    nb = rng.choice([2, 2, 4])
    for a in range(nax):
        props = {}
        name = sn[0] if same_props else (sn[a] if a < 2 else "height")
        if name:
            props["standard_name"] = name
        props["units"] = "km"
        c = {"type": "dim", "axes": [a], "props": props, "dtype": dt, "ncvar": None, "mask": False,
             "vbase": vb if rng.random() < 0.8 else vb + 1 + a}
        if axes[a]["ncdim"] is not None and rng.random() < 0.5:
            c["ncvar"] = axes[a]["ncdim"]
        if rng.random() < 0.2:
            c["vdelta"] = rng.randrange(n)
        if rng.random() < 0.85:
            c["bounds"] = {"n": nb, "ncvar": names.draw(["xb", "yb", "tb", "bnds"], 0.3), "ncdim": None, "props": {},
                           "vbase": bb if rng.random() < 0.85 else bb + 1 + a}
            if rng.random() < 0.2:
                c["bounds"]["vdelta"] = rng.randrange(n * nb)
        if rng.random() < 0.9:
            cons.append(c)
    if rng.random() < 0.5:
        # an auxiliary coordinate that repeats the values and bounds of the dimension coordinate of ANOTHER axis
        a = rng.randrange(nax)
        c = {"type": "aux", "axes": [a], "props": {"long_name": "copy"}, "dtype": dt, "ncvar": names.draw(VAR_NAMES, 0.3),
             "mask": False, "vbase": vb}
        if rng.random() < 0.8:
            c["bounds"] = {"n": nb, "ncvar": None, "ncdim": None, "props": {}, "vbase": bb}
        cons.append(c)
    if rng.random() < 0.5:
        # two 2-d constructs of one type over (a, b) and (b, a) with the same values (and bounds)
        t = rng.choice(["aux", "aux", "measure", "fanc"])
        a, b = rng.sample(range(nax), 2)
        v2 = rng.randrange(3, 40)
        for ax in ([a, b], [b, a]):
            c = {"type": t, "axes": ax, "props": {"long_name": "two-d"}, "dtype": dt, "ncvar": None, "mask": False, "vbase": v2}
            if t == "measure":
                c["measure"] = "area"
            if t == "aux" and rng.random() < 0.7:
                c["bounds"] = {"n": 4, "ncvar": None, "ncdim": None, "props": {}, "vbase": bb}
            cons.append(c)
    return spec


VP_KINDS = ["valid_range", "valid_range", "valid_max", "valid_min", "valid_min_max", "missing_value", "_FillValue"]
VP_PROPS = ("valid_range", "valid_min", "valid_max", "missing_value", "_FillValue")


def add_validity(rng, spec):
    """valid_min / valid_max / valid_range / missing_value / _FillValue properties whose values coincide with, lie just
    outside, or lie just inside the actual data values of the construct that carries them (chosen in drive/c01.py
    apply_vp from the data).  Dimension coordinates only get limits that leave every value valid."""
    targets = []
    if spec.get("data") and spec["data"]["dtype"] != "S":
        targets.append(("data", spec["data"], spec["props"]))
    for c in spec["cons"]:
        if c.get("dtype", "f8") != "S" and not c.get("nodata") and not c.get("climatology"):
            targets.append((c["type"], c, c["props"]))
    hit = False
    for t, c, props in targets:
        if rng.random() >= (0.8 if t == "data" else 0.3):
            continue
        kind = rng.choice(VP_KINDS)
        rel = rng.choice(["coincide", "coincide", "outside", "inside"])
        if kind in ("missing_value", "_FillValue") and rel == "coincide":
            # the writer refuses unmasked data equal to their own missing value (not a construct it accepts)
            rel = "inside" if rng.random() < 0.95 else rel
        if t == "dim" or c.get("bounds"):
            # a coordinate with missing elements, or cell bounds beyond the valid range of their coordinate, are
            # C07's subject (bounds inherit the attributes of the parent): limits that leave all values valid, on
            # coordinates without bounds
            if c.get("bounds") or kind in ("missing_value", "_FillValue"):
                continue
            rel = rng.choice(["coincide", "outside"])
        for k in VP_PROPS:
            props.pop(k, None)
        c["vp"] = {"kind": kind, "rel": rel}
        hit = True
    return hit


GN_DIMS = ["time", "lat", "lon", "lev", "ens"]


def gen_compressed(rng):
    """A field whose data (and some metadata constructs) are compressed by convention: by gathering (list dimension
    first / in the middle / last among the dimensions, 1-3 gathered axes) or as a DSG ragged array (contiguous, indexed,
    indexed contiguous), built directly from cfdm compressed arrays ('api') or read from a dataset encoded by hand
    with netCDF4-python ('file')."""
    ckind = rng.choice(["gathered"] * 4 + ["contiguous", "indexed", "indexed_contiguous"])
    origin = rng.choice(["api", "file"])
    dt = rng.choice(["f8", "f4", "i4", "i2"])
    cs = {"ckind": ckind, "origin": origin, "dtype": dt, "mask": rng.random() < 0.5, "cons": [], "names": {}}
    if origin == "file":
        cs["file_fmt"] = rng.choice(["NETCDF4", "NETCDF4", "NETCDF3_CLASSIC", "NETCDF4_CLASSIC"])
    nm = cs["names"]
    if rng.random() < 0.5:
        nm["data"] = rng.choice(["tas", "q", "ta_gathered"])
    cons = cs["cons"]

    def con(t, over, comp=False, **kw):
        c = {"type": t, "over": over, "comp": comp, "props": {"long_name": "c%d" % len(cons)},
             "dtype": rng.choice(["f8", "f4", "i4"]), "mask": comp and rng.random() < 0.3}
        c.update(kw)
        if origin == "file" or rng.random() < 0.4:
            c["ncvar"] = "v%d" % len(cons)
        cons.append(c)

    if ckind == "gathered":
        k = rng.choice([1, 2, 2, 2, 3])
        nlead = rng.choice([0, 0, 1, 1, 2])
        ntrail = rng.choice([0, 0, 1, 1, 2])
        while nlead + k + ntrail > 5:
            if ntrail > 1:
                ntrail -= 1
            else:
                nlead -= 1
        g = [rng.choice([2, 3]) for _ in range(k)]
        shape = [rng.choice([1, 2, 3]) for _ in range(nlead)] + g + [rng.choice([1, 2, 4]) for _ in range(ntrail)]
        tot = 1
        for x in g:
            tot *= x
        nl = rng.randint(1, tot)
        lst = sorted(rng.sample(range(tot), nl))
        cs.update({"shape": shape, "pos": nlead, "k": k, "list": lst})
        if rng.random() < 0.5:
            nm["list"] = rng.choice(["landpoint", "lp", "gathered"])
        dims = {}
        pool = list(GN_DIMS)
        rng.shuffle(pool)
        for i in range(len(shape)):
            if origin == "file" or rng.random() < 0.4:
                dims[str(i)] = pool[i]
        nm["dims"] = dims
        for i in range(len(shape)):
            if rng.random() < 0.6:
                con("dim", [i], dtype="f8")
        gax = list(range(nlead, nlead + k))
        if rng.random() < 0.5:
            con("fanc", gax, comp=True)
        if rng.random() < 0.35 and ntrail:
            con("fanc", gax + [nlead + k], comp=True)            # gathered axes followed by an uncompressed one
        if rng.random() < 0.35 and nlead:
            con("aux", [nlead - 1] + gax, comp=True)              # ... preceded by one
        if rng.random() < 0.25 and nlead and ntrail:
            con("fanc", [nlead - 1] + gax + [nlead + k], comp=True)
        if rng.random() < 0.4:
            con("aux", gax if rng.random() < 0.6 else [rng.choice(gax)])   # not compressed
        # gathered constructs with a list variable of their own over the same dimensions: equal to the data's list
        # (one shared variable), different with the same length, different with another length
        used_names = {nm.get("list")}
        for c in cons:
            if c.get("comp") and rng.random() < 0.4:
                r = rng.random()
                if r < 0.25:
                    c["list"] = list(lst)
                elif r < 0.6:
                    c["list"] = sorted(rng.sample(range(tot), nl))
                else:
                    c["list"] = sorted(rng.sample(range(tot), rng.randint(1, tot)))
                if c["list"] == list(lst):
                    continue        # an equal list variable is written once: one variable, one name
                if origin == "file" or rng.random() < 0.5:
                    free = [x for x in ("lp1", "lp2", "lp3", "pts") if x not in used_names]
                    c["list_name"] = rng.choice(free)
                    used_names.add(c["list_name"])
        if any(c.get("list") is not None for c in cons) and rng.random() < 0.3:
            cs["data_plain"] = True       # only metadata constructs are compressed
    else:
        ninst = rng.choice([1, 2, 3, 4])
        if rng.random() < 0.25:
            cs["trail"] = [2]
        if ckind == "contiguous":
            cs["counts"] = [rng.randint(1, 3) for _ in range(ninst)]
            if rng.random() < 0.4:
                cs["count_props"] = {"long_name": "number of observations"}
        elif ckind == "indexed":
            idx = list(range(ninst)) + [rng.randrange(ninst) for _ in range(rng.randint(0, 4))]
            rng.shuffle(idx)
            cs["index"], cs["ninst"] = idx, ninst
        else:
            npf = ninst + rng.randint(0, 3)
            pidx = list(range(ninst)) + [rng.randrange(ninst) for _ in range(npf - ninst)]
            rng.shuffle(pidx)
            cs["pindex"], cs["ninst"] = pidx, ninst
            cs["pcount"] = [rng.randint(1, 3) for _ in range(npf)]
        if rng.random() < 0.5:
            nm["count"] = rng.choice(["row_size", "rs", "cnt"])
        if rng.random() < 0.5:
            nm["index"] = rng.choice(["station_index", "six"])
        if rng.random() < 0.5:
            nm["sample"] = rng.choice(["obs", "smp"])
        if origin == "file" or rng.random() < 0.4:
            nm["dims"] = {"0": "station"}
            if cs.get("trail"):
                nm["dims"][str(3 if ckind == "indexed_contiguous" else 2)] = "chan"
        lead = [0, 1, 2] if ckind == "indexed_contiguous" else [0, 1]
        if rng.random() < 0.7:
            con("aux", lead, comp=True, props={"standard_name": "time", "units": "days since 2000-01-01"})
        if ckind == "indexed_contiguous" and rng.random() < 0.5:
            con("aux", [0, 1], comp=True, props={"long_name": "profile time"})
        if rng.random() < 0.7:
            con("aux", [0], props={"standard_name": "latitude", "units": "degrees_north"})
        if rng.random() < 0.3:
            con("fanc", lead, comp=True)
        if rng.random() < 0.3 and origin == "api":
            con("aux", [0], dtype="S", props={"long_name": "station name"})
    o = {}
    r = rng.random()
    if r < 0.2:
        o = {"fmt": rng.choice(["NETCDF3_CLASSIC", "NETCDF4_CLASSIC", "NETCDF3_64BIT_DATA"])}
    elif r < 0.35 and origin == "api":
        # (variables read from a dataset remember their storage: "contiguous" for the hand-encoded files, which
        # netCDF-C does not combine with deflation - a library rule, as for hdf5_chunks="contiguous")
        o = {"compress": 1}
    elif r < 0.45:
        o = {"group": False}
    if rng.random() < 0.3:
        o["coordinates"] = True      # dimension coordinates of compressed axes are named in `coordinates' too
    if rng.random() < 0.2:
        o["string"] = False
    return cs, o


# ---------------------------------------------------------------- options x families
# every value of every boolean / enumerated option of cfdm.write that is documented as lossless and of cfdm.read, crossed
# with every family of base construct: each (value, family) pair in the quick tier, each (value, value, family) triple of
# two different options in the thorough tier.  Not crossed: datatype, least_significant_digit, omit_data (not lossless),
# mode (append is another property), cfa / storage_options / verbose (no effect on the construct), mask=False,
# unpack=False and extra (they change what is read by design), external (part of the `external' family).
W_OPTS = [("fmt", FORMATS), ("string", [True, False]), ("compress", [0, 4]), ("shuffle", [True, False]),
          ("fletcher32", [False, True]), ("endian", ["native", "little", "big"]), ("group", [True, False]),
          ("coordinates", [False, True]), ("hdf5_chunks", ["4 MiB", "contiguous", "1 KiB", 64]),
          ("warn_valid", [True, False])]
R_OPTS = [("netcdf_backend", [None, "netCDF4", "h5netcdf"]), ("warnings", [False, True]), ("r_warn_valid", [False, True]),
          ("store_hdf5_chunks", [True, False])]
W_DEFAULT = {"fmt": "NETCDF4", "string": True, "compress": 0, "shuffle": True, "fletcher32": False, "endian": "native",
             "group": True, "coordinates": False, "hdf5_chunks": "4 MiB", "warn_valid": True}
R_DEFAULT = {"netcdf_backend": None, "warnings": False, "r_warn_valid": False, "store_hdf5_chunks": True}
FAMILIES = ["plain", "scalar-string", "gathered", "contiguous", "indexed", "indexed_contiguous", "geometry",
            "formula-terms", "trajectory", "external", "grouped", "domain"]


def legal_options(a):
    """netCDF / HDF5 library rules, not cfdm's: filters, byte order and chunking exist in the netCDF-4 formats only;
    contiguous storage takes no filter; h5netcdf reads HDF5 files only."""
    nc4 = a["fmt"] in ("NETCDF4", "NETCDF4_CLASSIC")
    if not nc4 and (a["compress"] or a["fletcher32"] or a["shuffle"] is False or a["endian"] != "native"
                    or a["hdf5_chunks"] != "4 MiB" or a["netcdf_backend"] == "h5netcdf" or a["store_hdf5_chunks"] is False):
        return False
    if a["hdf5_chunks"] == "contiguous" and (a["compress"] or a["fletcher32"]):
        return False
    return True


def split_options(a):
    o = {k: v for k, v in a.items() if k in W_DEFAULT and v != W_DEFAULT[k]}
    if a["hdf5_chunks"] == "contiguous":
        o["shuffle"] = False
    rd = {}
    for k, v in a.items():
        if k in R_DEFAULT and v != R_DEFAULT[k]:
            rd["warn_valid" if k == "r_warn_valid" else k] = v
    return o, rd


def make_classic(spec):
    """netCDF-3 / classic data model: no 64-bit or unsigned integers (u1 apart), no unlimited axis beside others."""
    def fix(d):
        return d if d in CLASSIC_DTYPES else ("i4" if d[0] in "iu" else "f8")
    if spec.get("data"):
        spec["data"]["dtype"] = fix(spec["data"]["dtype"])
    for c in spec["cons"]:
        c["dtype"] = fix(c.get("dtype", "f8"))
    for a in spec["axes"]:
        a["unlimited"] = False
    return spec


def family_case(rng, fam, a):
    """A case of the family, fit for the option assignment a."""
    classic = a["fmt"] != "NETCDF4"
    o, rd = split_options(a)
    c = {"options": o, "read": rd, "fam": "matrix:" + fam}
    if fam in ("geometry", "formula-terms", "trajectory"):
        c["example"] = {"geometry": 6, "formula-terms": 1, "trajectory": 11}[fam]
        return c
    if fam in ("gathered", "contiguous", "indexed", "indexed_contiguous"):
        for _ in range(200):
            cs, _o = gen_compressed(rng)
            if cs["ckind"] == fam and cs["origin"] == "api":
                break
        if fam == "gathered":
            # a dimension coordinate on every axis, the gathered ones included (coordinates=True names them)
            have = {tuple(x["over"]) for x in cs["cons"] if x["type"] == "dim"}
            for i in range(len(cs["shape"])):
                if (i,) not in have:
                    cs["cons"].append({"type": "dim", "over": [i], "comp": False, "props": {"long_name": "d%d" % i},
                                       "dtype": "f8", "mask": False})
        c["cs"] = cs
        return c
    if fam == "scalar-string":
        spec = limit_string_scalars(rng, gen_scalar_string(rng), {} if a["netcdf_backend"] != "h5netcdf" else {"string": False})
    elif fam == "domain":
        spec = gen_spec(rng, "core", kind="domain")
    else:
        spec = gen_spec(rng, "core", kind="field")
    if classic or a["hdf5_chunks"] == "contiguous":
        make_classic(spec) if classic else [ax.update(unlimited=False) for ax in spec["axes"]]
    if fam == "external":
        sp = spanned(spec)
        if sp:
            ax = rng.sample(sorted(sp), min(2, len(sp)))
            spec["cons"].append({"type": "measure", "axes": ax, "props": {"units": "km2"}, "ncvar": rng.choice(["ext1", "ext2", "areacella"]),
                                 "dtype": "f8", "mask": False, "measure": "area", "external": True})
            o["external_file"] = True
    if fam == "grouped" and a["fmt"] != "NETCDF4":
        o["group"] = False          # groups exist in the NETCDF4 format only: the dataset has to be flattened
    if fam == "grouped":
        # the data variable in a sub-group, dimensions and coordinate variables in the root (always a valid dataset);
        # an auxiliary coordinate / cell measure / ancillary in the same group or in the parent group
        gp = rng.choice([["forecast"], ["forecast", "model"]])
        spec["groups"] = {"field": gp, "cons": {}}
        for j, x in enumerate(spec["cons"]):
            if x["type"] in ("aux", "measure", "fanc") and rng.random() < 0.5:
                spec["groups"]["cons"][str(j)] = gp[:rng.randint(1, len(gp))]
    c["spec"] = spec
    return c


def gen_matrix(rng, thorough):
    opts = W_OPTS + R_OPTS
    base = dict(W_DEFAULT)
    base.update(R_DEFAULT)
    cases, pairs = [], {}
    for fam in FAMILIES:
        assigns = []
        if thorough:
            for i, (ka, va) in enumerate(opts):
                for kb, vb in opts[i + 1:]:
                    for x in va:
                        for y in vb:
                            assigns.append({ka: x, kb: y})
        else:
            for ka, va in opts:
                for x in va:
                    asg = {ka: x}
                    if rng.random() < 0.5:
                        kb, vb = rng.choice([t for t in opts if t[0] != ka])
                        asg[kb] = rng.choice(vb)
                    assigns.append(asg)
        for asg in assigns:
            a = dict(base)
            a.update(asg)
            if not legal_options(a):
                # drop the random second option of the quick tier rather than the pair under test
                if not thorough and len(asg) == 2:
                    a = dict(base)
                    a.update({k: v for k, v in list(asg.items())[:1]})
                if not legal_options(a):
                    pairs.setdefault("illegal", set()).add(tuple(sorted((k, str(v)) for k, v in asg.items())))
                    continue
            if fam == "domain" and False:
                continue
            cases.append(family_case(rng, fam, a))
            for k, v in asg.items():
                pairs.setdefault(fam, set()).add((k, str(v)))
    return cases, pairs


def spec_dtypes(spec):
    d = set()
    if spec.get("data"):
        d.add(spec["data"]["dtype"])
    for c in spec["cons"]:
        d.add(c.get("dtype", "f8"))
    return d


def gen_options(rng, spec, default=False):
    if default:
        return {"external_file": True} if any(c.get("external") and not c.get("nodata") for c in spec["cons"]) else {}
    dts = spec_dtypes(spec)
    unlimited = [a for a in spec["axes"] if a["unlimited"]]
    fmts = []
    for fmt in FORMATS:
        if fmt == "NETCDF4":
            fmts.append(fmt)
        elif fmt == "NETCDF3_64BIT_DATA":
            if not unlimited:
                fmts.append(fmt)
        elif dts <= CLASSIC_DTYPES and not unlimited:
            fmts.append(fmt)
    o = {"fmt": rng.choice(fmts) if rng.random() < 0.75 else "NETCDF4"}
    if rng.random() < 0.3:
        o["string"] = False
    if o["fmt"] in ("NETCDF4", "NETCDF4_CLASSIC"):
        if rng.random() < 0.4:
            o["compress"] = rng.choice([4, 9, 1])
        if rng.random() < 0.3:
            o["shuffle"] = False
        if rng.random() < 0.25:
            o["fletcher32"] = True
        if rng.random() < 0.4:
            o["hdf5_chunks"] = rng.choice((["contiguous"] if not unlimited else []) + ["1 KiB", 64, "4 MiB"])
            if o["hdf5_chunks"] == "contiguous":
                o.pop("compress", None)
                o.pop("fletcher32", None)
                o["shuffle"] = False
    if rng.random() < 0.4 and o["fmt"] in ("NETCDF4", "NETCDF4_CLASSIC"):
        o["endian"] = rng.choice(["little", "little", "native", "native", "native", "big"])
    if rng.random() < 0.3:
        o["group"] = False
    if rng.random() < 0.3:
        o["coordinates"] = True
    if any(c.get("external") and not c.get("nodata") for c in spec["cons"]):
        o["external_file"] = True     # without it the data of an external variable are (documentedly) not written
    return o



# ---------------------------------------------------------------- classification of failures
OMIT_BOUNDS = ("units", "calendar", "standard_name", "axis", "positive", "leap_month", "leap_year", "month_lengths")


def spanned(spec):
    if spec["kind"] == "domain" or not spec.get("data"):
        return set(range(len(spec["axes"]))) if spec["kind"] == "domain" else set()
    return set(spec["data"]["axes"])


def expected_findings(spec, opts):
    """Signatures of the known defect classes this input belongs to (computed from the input only)."""
    out = []
    cons = spec["cons"]
    sp = spanned(spec)
    if opts.get("endian") == "big":
        out.append("endian-big-read-back-dtype-not-equal")
    gms = [r for r in spec["refs"] if "grid_mapping_name" in r["params"]]
    if len(gms) == 1:
        r = gms[0]
        imp = IMPLIED[r["params"]["grid_mapping_name"]]
        can = [j for j, c in enumerate(cons) if c["type"] in ("dim", "aux") and c["props"].get("standard_name") in imp]
        if sorted(can) != sorted(r["coords"]):
            out.append("grid-mapping-coordinates-not-implied-by-name")
    if len(gms) > 1:
        keyf = lambda r: lib.canon([r["params"], r["datum"]])  # noqa: E731
        if len({keyf(r) for r in gms}) < len(gms):
            out.append("equal-constructs-share-a-variable")
    bs = [c["bounds"] for c in cons if c.get("bounds")]
    for b in bs:
        if b["ncdim"] is not None and any(o is not b and o["n"] == b["n"] and o["ncdim"] != b["ncdim"] for o in bs):
            out.append("bounds-dimension-name-shared-by-size")
            break
    for c in cons:
        b = c.get("bounds")
        if b and any(k in c["props"] for k in b["props"] if k in OMIT_BOUNDS):
            out.append("bounds-property-inherited-from-parent-dropped")
            break
    used = set()
    for r in spec["refs"]:
        used |= set((r.get("dancs") or {}).values())
    if any(c["type"] == "danc" and j not in used for j, c in enumerate(cons)):
        out.append("domain-ancillary-without-coordinate-reference")
    for cm in spec["cms"]:
        if ("over" in cm["quals"] or "within" in cm["quals"]) and len(cm["axes"]) == 1 and isinstance(cm["axes"][0], int):
            a = cm["axes"][0]
            if any(c.get("bounds") and not c.get("climatology") and c["axes"] == [a] for c in cons):
                out.append("where-over-cell-method-taken-as-climatology")
                break
    # _write_bounds asked every construct with bounds on a climatological time axis for is_climatology(): a domain
    # ancillary has no such method (AttributeError; repaired by C01-fix4-2)
    clim1 = {c["axes"][0] for c in cons if c.get("climatology") and len(c["axes"]) == 1}
    clim1 |= {cm["axes"][0] for cm in spec["cms"] if ("over" in cm["quals"] or "within" in cm["quals"])
              and len(cm["axes"]) == 1 and isinstance(cm["axes"][0], int)}
    if any(c["type"] == "danc" and c.get("bounds") and len(c["axes"]) == 1 and c["axes"][0] in clim1 for c in cons):
        out.insert(0, "bounds-of-a-domain-ancillary-on-a-climatological-axis-raise")
    if opts.get("fmt") == "NETCDF4_CLASSIC" and "_FillValue" in spec["props"]:
        out.append("netcdf4-classic-fill-value-after-data")
    if any(c.get("nodata") and not c["axes"] for c in cons):
        out.append("construct-without-axes-equals-raises")
    if sum(1 for c in cons if c.get("external") and not c.get("nodata")) >= 2:
        out.append("second-external-variable-not-resolved")
    for r in spec["refs"]:
        if "dancs" not in r:
            continue
        own = [cons[j] for j in r["coords"] if cons[j]["props"].get("standard_name") == r["params"].get("standard_name")]
        if len(own) != 1 or len(own[0]["axes"]) != 1 or len(r["coords"]) != 1:
            out.append("formula-terms:no-unique-owning-coordinate")
            continue
        o = own[0]
        if o["props"].get("computed_standard_name") != r["params"].get("computed_standard_name"):
            out.append("formula-terms:computed-standard-name-becomes-coordinate-property")
        if not r["dancs"]:
            out.append("formula-terms:reference-without-terms-dropped")
        ds = list(r["dancs"].values())
        if len(set(ds)) < len(ds):
            out.append("formula-terms:variable-of-two-terms-read-twice")
        if any(cons[k].get("bounds") and not (o.get("bounds") and o["axes"][0] in cons[k]["axes"]) for k in ds):
            out.append("formula-terms:term-bounds-not-linked")
        n_eq = sum(1 for g0 in gms if g0["datum"] == r["datum"])
        if len(gms) == 1 and not r["datum"] and gms[0]["datum"]:
            # CF has one datum per data variable: a lone grid mapping's datum is also the vertical reference's
            out.append("formula-terms:vertical-reference-takes-the-datum-of-the-lone-grid-mapping")
        elif not ((not gms and not r["datum"]) or (len(gms) == 1 and n_eq == 1) or
                  (len(gms) > 1 and (not r["datum"] or n_eq == 1))):
            out.append("formula-terms:vertical-datum-not-carried-by-a-grid-mapping")
        if any(j in g0["coords"] for g0 in gms for j in r["coords"]):
            out.append("formula-terms:grid-mapping-lists-the-vertical-coordinate")
    # the extended form of grid_mapping ("var: coord ...") is used when several grid mapping variables are written:
    # several grid mappings, or one plus the one the writer makes for the datum of a vertical reference
    made = any("dancs" in r and r["datum"] and all(r["datum"] != g0["datum"] for g0 in gms) for r in spec["refs"])
    if (len(gms) > 1 or (gms and made)) and any(not g0["coords"] for g0 in gms):
        out.insert(0, "grid-mapping-without-coordinates-among-several")
    if spec["kind"] == "domain" and any(ax["unlimited"] and not any(a in c["axes"] for c in cons)
                                        for a, ax in enumerate(spec["axes"])):
        out.append("domain-unlimited-axis-without-constructs-read-with-size-zero")
    # two axes of one size with indistinguishable 1-d constructs: equals pairs them in key order (C05 twin-axes-order)
    def axis_content(a):
        out = []
        for j, c in enumerate(cons):
            if c["axes"] == [a] and not c.get("nodata"):
                b = c.get("bounds")
                out.append(lib.canon([c["type"], c["props"], c.get("dtype"), c.get("vbase", ("own", j)), c.get("vdelta"),
                                      bool(c.get("mask")), c.get("vp"), c.get("measure"),
                                      None if not b else [b["n"], b["props"], b.get("vbase", ("own", j)), b.get("vdelta")]]))
        return sorted(out)
    clim_axes = {tuple(c["axes"]) for c in cons if c.get("climatology")}
    if spec["kind"] == "domain" and any(c.get("bounds") and not c.get("climatology") and tuple(c["axes"]) in clim_axes
                                        and c["type"] in ("dim", "aux") for c in cons):
        out.append("bounds-beside-climatological-coordinate-written-as-climatology")   # repaired by C01-fix3-4
    dimc = {}
    for j, c in enumerate(cons):
        if c["type"] == "dim" and len(c["axes"]) == 1:
            b = c.get("bounds")
            dimc.setdefault(lib.canon([c["props"], c.get("dtype"), spec["axes"][c["axes"][0]]["size"], c.get("vbase", ("own", j)),
                                       c.get("vdelta"), c.get("vp"), bool(c.get("climatology")),
                                       None if not b else [b["n"], b["props"], b.get("vbase", ("own", j)), b.get("vdelta")]]),
                            set()).add(c["axes"][0])
    if any(len(v) > 1 for v in dimc.values()):
        out.append("equal-dimension-coordinates-share-a-netcdf-dimension")     # repaired by C01-fix3-2
    ac = [axis_content(a) for a in range(len(spec["axes"]))]
    if any(ac[a] and ac[a] == ac[b] and spec["axes"][a]["size"] == spec["axes"][b]["size"]
           for a in range(len(ac)) for b in range(a)):
        out.append("twin-axes:equals-cannot-pair-indistinguishable-axes")
    # flattening a grouped dataset parsed cell_methods into a dict keyed by axis name: a name that occurs twice lost
    # its first method (repaired by C01-fix3-5)
    toks = [a for cm in spec["cms"] for a in cm["axes"]]
    if spec.get("groups") and opts.get("group", True) is not False and len(toks) > len(set(map(str, toks))):
        out.append("grouped:cell-methods-naming-an-axis-twice-misread")
    # netCDF-C 4.9.3 / HDF5 1.14.6: a dataset is open; its netCDF-string variables are read through further handles
    # (what cfdm.read does for string-valued scalar coordinate variables): the third such read crashes the interpreter.
    # Seen with three scalar string coordinates, and with two plus a cell method over one of them plus a 1-d string
    # coordinate; never with one.  The class explains a crash only: any other failure of such a case is reported.
    if n_string_scalars(spec) >= 2 and opts.get("fmt", "NETCDF4") == "NETCDF4" and opts.get("string", True) and \
            (opts.get("read") or {}).get("netcdf_backend") != "h5netcdf":
        out.insert(0, "netcdf-string-scalar-coordinates-crash-the-netcdf-library")
    # size-1 axes that the data do not span
    for a in range(len(spec["axes"])):
        if a in sp:
            continue
        on = [c for c in cons if a in c["axes"]]
        dims = [c for c in on if c["type"] == "dim"]
        if not on:
            out.append("unspanned-size1-axis:no-coordinate")
        elif dims and len(on) >= 2:
            out.append("unspanned-size1-axis:data-gain-a-dimension")
        elif not dims:
            if len(on) == 1 and on[0]["type"] == "aux" and on[0]["axes"] == [a] and on[0]["dtype"] == "S":
                pass    # a string-valued scalar coordinate variable is read as an auxiliary coordinate: exact round trip
            elif len(on) == 1 and on[0]["type"] == "aux" and on[0]["axes"] == [a]:
                out.append("unspanned-size1-axis:auxiliary-becomes-dimension-coordinate")
            elif all(c["type"] == "aux" and c["axes"] == [a] for c in on):
                out.append("unspanned-size1-axis:several-scalar-coordinates")
            else:
                out.append("unspanned-size1-axis:data-gain-a-dimension")
    return out


def row_ok(r):
    return (r.get("n_read") == 1 and r.get("eq_fg") is True and r.get("eq_gf") is True and r.get("fp_equal") is True
            and not r.get("names_lost") and r.get("source_unchanged", True) and r.get("read_stable", True))


def symptoms(r):
    """What is wrong with a row, component by component."""
    s = set()
    for k in ("write_err", "read_err", "equals_err", "realise_err", "crash", "harness_err"):
        if k in r:
            s.add(k)
    if "n_read" in r and r["n_read"] != 1:
        s.add("n_read")
    if r.get("eq_fg") is False or r.get("eq_gf") is False:
        s.add("equals")
    if r.get("fp_equal") is False:
        for d in r.get("fp_diff") or []:
            s.add("fp:" + d)
    for n in r.get("names_lost") or []:
        s.add("names:" + n[1])
    if r.get("source_unchanged") is False:
        s.add("source")
    if r.get("read_stable") is False:
        s.add("read-unstable")
    return s


# The components a known-finding class can affect.  A class that is absent here changes the structure of the
# field (content hashes, hence every label) and explains any symptom; for the others, a symptom outside the
# set is a second, unrelated failure of the same case and is reported on its own.
SIG_SYMPTOMS = {
    "netcdf-string-scalar-coordinates-crash-the-netcdf-library": {"crash"},
    "endian-big-read-back-dtype-not-equal": {"equals"},
    "construct-without-axes-equals-raises": {"equals", "equals_err"},
    "grid-mapping-coordinates-not-implied-by-name": {"equals", "fp:refs"},
    "bounds-dimension-name-shared-by-size": {"names:bdim"},
    "equal-constructs-share-a-variable": {"names:var", "names:bvar", "names:listvar"},
    "netcdf4-classic-fill-value-after-data": {"write_err"},
    "unspanned-size1-axis:no-coordinate": {"equals", "fp:axes", "fp:cell_methods"},   # a cell method may name the axis
    "twin-axes:equals-cannot-pair-indistinguishable-axes": {"equals"},
    "index-variable-sample-dimension-name": {"names:indexsampledim"},
}


# classes repaired by handoff/C01-fix2-*.diff (status fixed-pending): not expected to manifest on the repaired tree
FIXED = {
    "bounds-of-a-domain-ancillary-on-a-climatological-axis-raise",   # C01-fix4-2
    "gathered-items-with-different-list-variables",                # C01-fix4-1
    "grouped:cell-methods-naming-an-axis-twice-misread",           # C01-fix3-5
    "endian-big-read-back-dtype-not-equal",                        # C01-fix2-4
    "bounds-property-inherited-from-parent-dropped",               # C01-fix2-5, -7
    "where-over-cell-method-taken-as-climatology",                 # C01-fix2-6
    "netcdf4-classic-fill-value-after-data",                       # C01-fix2-2
    "construct-without-axes-equals-raises",                        # C01-fix2-1
    "second-external-variable-not-resolved",                       # C01-fix2-3
    "formula-terms:term-bounds-not-linked",                        # C01-fix2-21
    "formula-terms:variable-of-two-terms-read-twice",              # C01-fix2-22
    "formula-terms:vertical-datum-not-carried-by-a-grid-mapping",  # C01-fix2-23, -24
    "formula-terms:grid-mapping-lists-the-vertical-coordinate",    # C01-fix2-23
    "bounds-dimension-name-shared-by-size",                        # C01-fix3-3
    "index-variable-sample-dimension-name",                        # C01-fix3-1 (names of a compressed case)
    "bounds-beside-climatological-coordinate-written-as-climatology",   # C01-fix3-4
    "equal-dimension-coordinates-share-a-netcdf-dimension",        # C01-fix3-2 (square family)
}


def residual_signature(extra, r):
    if "write_err" in extra:
        return "write-raises"
    if "read_err" in extra:
        return "read-raises"
    if "realise_err" in extra:
        return "data-read-back-cannot-be-realised"
    if "crash" in extra:
        return "worker-crash"
    if "n_read" in extra:
        return "not-exactly-one-construct"
    fp = sorted(x[3:] for x in extra if x.startswith("fp:"))
    if fp:
        return "fingerprint-differs:" + ",".join(fp)
    if "equals" in extra or "equals_err" in extra:
        return "equals-false"
    nm = sorted(x[6:] for x in extra if x.startswith("names:"))
    if nm:
        return "netcdf-name-lost:" + ",".join(nm)
    if "read-unstable" in extra:
        return "read-construct-changes-when-returned-array-is-overwritten"
    if "source" in extra:
        return "source-changed"
    return "harness-error"


def describe(r):
    for k in ("build_err", "write_err", "read_err", "realise_err", "equals_err", "harness_err"):
        if k in r:
            return f"{k}: {r[k][:160]}"
    return (f"n_read={r.get('n_read')} equals={r.get('eq_fg')}/{r.get('eq_gf')} fingerprint_equal={r.get('fp_equal')} "
            f"differs_in={r.get('fp_diff')} names_lost={r.get('names_lost')} source_unchanged={r.get('source_unchanged')}")


# ---------------------------------------------------------------- running the implementation
def run_cases(cases, scratch, nworkers=14):
    """Run every case; a worker that dies is an observation: the case it was on gets a 'crash' row and the
    rest of its shard is run again in a fresh worker."""
    for i, c in enumerate(cases):
        c["i"] = i
    rows = [None] * len(cases)
    pending = [cases[k::nworkers] for k in range(nworkers)]
    pending = [s for s in pending if s]
    rounds = 0
    while pending and rounds < 12:
        rounds += 1
        res = lib.run_workers_parallel("drive/c01.py", [{"scratch": scratch, "cases": s} for s in pending], timeout=3000)
        nxt = []
        for s, (rc, out, err) in zip(pending, res):
            for r in out:
                if isinstance(r, dict) and "i" in r:
                    rows[r["i"]] = r
            left = [c for c in s if rows[c["i"]] is None]
            if left:
                rows[left[0]["i"]] = {"i": left[0]["i"], "crash": f"worker died rc={rc}: {err[-200:]}"}
                if left[1:]:
                    nxt.append(left[1:])
        pending = nxt
    return rows


EXAMPLE_OPTIONS = [{}, {"fmt": "NETCDF4_CLASSIC"}, {"fmt": "NETCDF3_CLASSIC"}, {"fmt": "NETCDF3_64BIT_DATA"},
                   {"string": False}, {"compress": 4, "shuffle": True, "fletcher32": True}, {"endian": "little"},
                   {"group": False, "coordinates": True}, {"hdf5_chunks": "contiguous", "shuffle": False},
                   {"fmt": "NETCDF3_64BIT_OFFSET", "coordinates": True}, {"compress": 9, "hdf5_chunks": "1 KiB"}]


def build_cases(chk):
    rng = chk.rng
    T = chk.tier == "thorough"
    cases = []
    # corpus: the public example fields (incl. DSG 3-5, geometry 6, field 7) and their domains
    for n in list(range(8)) + [11]:      # (8-10 are UGRID fields: the writer refuses them, NotImplementedError)
        for o in (EXAMPLE_OPTIONS if T else EXAMPLE_OPTIONS[:8]):
            if n in (3, 4, 5, 6) and o.get("fmt", "NETCDF4") != "NETCDF4" and False:
                continue
            cases.append({"example": n, "options": o, "fam": "example"})
        cases.append({"example": n, "domain": True, "options": {}, "fam": "example-domain"})
        cases.append({"example": n, "domain": True, "options": {"fmt": "NETCDF3_CLASSIC", "group": False}, "fam": "example-domain"})
    for spec, o in CORPUS:
        cases.append({"spec": copy.deepcopy(spec), "options": dict(o), "fam": "corpus"})
    cases.append({"spec": copy.deepcopy(F01M), "options": {}, "fam": "corpus",
                  "expect_attr": ["air_temperature", "cell_methods", "longitude: mean"]})
    cases.append({"spec": copy.deepcopy(CRASH3), "options": {}, "fam": "corpus"})                      # crashes (open finding)
    cases.append({"spec": copy.deepcopy(CRASH3), "options": {"string": False}, "fam": "corpus"})      # does not
    cases.append({"spec": copy.deepcopy(CRASH3), "options": {}, "read": {"netcdf_backend": "h5netcdf"}, "fam": "corpus"})
    nfull, ncore = (2400, 1500) if T else (420, 330)
    for _ in range(nfull):
        spec = gen_spec(rng, "full")
        cases.append({"spec": spec, "options": gen_options(rng, spec, default=rng.random() < 0.25), "fam": "generated"})
        if rng.random() < (0.8 if T else 0.5):
            cases.append({"spec": spec, "options": gen_options(rng, spec), "fam": "generated"})
    nsq, nvp, ncs = (300, 500, 600) if T else (70, 110, 130)
    for _ in range(nsq):
        spec = gen_square(rng)
        o = {}
        if rng.random() < 0.4:
            o = gen_options(rng, spec)
            o.pop("endian", None)
        cases.append({"spec": spec, "options": o, "fam": "square"})
    for _ in range(nvp):
        spec = gen_spec(rng, "full" if rng.random() < 0.5 else "core")
        if not add_validity(rng, spec):
            continue
        cases.append({"spec": spec, "options": gen_options(rng, spec, default=rng.random() < 0.4), "fam": "validity",
                      "expect_masked": True})
    for _ in range(ncs):
        cs, o = gen_compressed(rng)
        cases.append({"cs": cs, "options": o, "fam": "compressed"})
    for _ in range(ncore):
        spec = gen_spec(rng, "core")
        o = {}
        if rng.random() < 0.5:
            o = gen_options(rng, spec)
            o.pop("endian", None)
        cases.append({"spec": spec, "options": o, "fam": "core"})
    # string-valued scalar coordinates x every format x string option
    for fmt in FORMATS:
        for st in (True, False):
            for _ in range(6 if T else 2):
                spec = make_classic(gen_scalar_string(rng)) if fmt != "NETCDF4" else gen_scalar_string(rng)
                o = {} if fmt == "NETCDF4" else {"fmt": fmt}
                if not st:
                    o["string"] = False
                if rng.random() < 0.3:
                    o["coordinates"] = True
                cases.append({"spec": limit_string_scalars(rng, spec, o), "options": o, "fam": "scalar-string"})
    mcases, pairs = gen_matrix(rng, T)
    cases += mcases
    MATRIX_PAIRS.clear()
    MATRIX_PAIRS.update({k: sorted(v) for k, v in pairs.items()})
    return cases


MATRIX_PAIRS = {}


# F01m: a scalar auxiliary coordinate was registered under the LAST domain axis of the field, so a cell
# method of that axis was written with the scalar coordinate's name ("height: mean")
F01M = {"kind": "field", "props": {"standard_name": "air_temperature"}, "ncvar": None,
        "axes": [{"size": 1, "ncdim": None, "unlimited": False}, {"size": 3, "ncdim": None, "unlimited": False}],
        "data": {"axes": [1], "dtype": "f8", "mask": False},
        "cons": [{"type": "dim", "axes": [1], "props": {"standard_name": "longitude"}, "dtype": "f8", "ncvar": None, "mask": False},
                 {"type": "aux", "axes": [0], "props": {"standard_name": "height"}, "dtype": "f8", "ncvar": None, "mask": False}],
        "cms": [{"axes": [1], "method": "mean", "quals": {}}], "refs": []}

# minimised earlier failures (spec, options); each is a witness through the public API
CRASH3 = {"kind": "field", "props": {"long_name": "a"}, "ncvar": None,
          "axes": [{"size": 5, "ncdim": None, "unlimited": False}] + [{"size": 1, "ncdim": None, "unlimited": False}] * 3,
          "data": {"axes": [0], "dtype": "f8", "mask": False},
          "cons": [{"type": "aux", "axes": [k], "props": {"long_name": "s%d" % k}, "dtype": "S", "ncvar": None, "mask": False}
                   for k in (1, 2, 3)], "cms": [], "refs": []}

CORPUS = [
    # F01b: a netCDF dimension name set on a domain axis was replaced by the coordinate's standard name
    ({"kind": "field", "props": {"standard_name": "air_temperature"}, "ncvar": "ta",
      "axes": [{"size": 3, "ncdim": "t", "unlimited": False}],
      "data": {"axes": [0], "dtype": "f8", "mask": False},
      "cons": [{"type": "dim", "axes": [0], "props": {"standard_name": "time", "units": "days since 2000-01-01"},
                "dtype": "f8", "ncvar": None, "mask": False}], "cms": [], "refs": []}, {}),
    # F01c: endian='little' with a string-valued coordinate / a grid mapping
    ({"kind": "field", "props": {"standard_name": "air_temperature"}, "ncvar": None,
      "axes": [{"size": 2, "ncdim": None, "unlimited": False}],
      "data": {"axes": [0], "dtype": "f4", "mask": False},
      "cons": [{"type": "dim", "axes": [0], "props": {"standard_name": "latitude"}, "dtype": "f8", "ncvar": None, "mask": False},
               {"type": "aux", "axes": [0], "props": {"long_name": "station"}, "dtype": "S", "ncvar": None, "mask": False}],
      "cms": [], "refs": [{"coords": [0], "ncvar": None, "params": {"grid_mapping_name": "latitude_longitude"},
                           "datum": {"earth_radius": 6371007.0}}]}, {"endian": "little"}),
]


def oracle(chk, cases, rows, stats):
    """The property itself on the implementation: exactly one construct read, equal both ways, equal
    fingerprints, every set netCDF name kept, source untouched."""
    explained = set()
    for c, r in zip(cases, rows):
        fam = c["fam"]
        stats["fam:" + fam] = stats.get("fam:" + fam, 0) + 1
        if r is None:
            chk.fail("correspondence", "worker-no-row", "no observation for a case", {"correspondence": "drive/c01.py", "input": c})
            continue
        if "build_err" in r:
            stats["not-buildable"] = stats.get("not-buildable", 0) + 1
            stats["not-buildable:" + fam] = stats.get("not-buildable:" + fam, 0) + 1
            stats.setdefault("not-buildable-examples", [])
            if len(stats["not-buildable-examples"]) < 4:
                stats["not-buildable-examples"].append(fam + ": " + r["build_err"][:160])
            continue
        exp = expected_findings(c["spec"], dict(c["options"], read=c.get("read"))) if "spec" in c else (
            ["endian-big-read-back-dtype-not-equal"] if c["options"].get("endian") == "big" else [])
        if "cs" in c and c["cs"]["ckind"] == "gathered":
            lists = {tuple(x["list"]) if x.get("list") is not None else tuple(c["cs"]["list"])
                     for x in c["cs"]["cons"] if x.get("comp")}
            if not c["cs"].get("data_plain"):
                lists.add(tuple(c["cs"]["list"]))
            if len(lists) > 1:
                exp.append("gathered-items-with-different-list-variables")        # repaired by C01-fix4-1
            named = {}
            for x in c["cs"]["cons"]:
                if x.get("comp") and x.get("list") is not None:
                    named.setdefault(tuple(x["list"]), set()).add(x.get("list_name"))
            named.setdefault(tuple(c["cs"]["list"]), set()).add((c["cs"].get("names") or {}).get("list"))
            if any(len(v) > 1 for v in named.values()):
                exp.append("equal-constructs-share-a-variable")     # equal list variables are one netCDF variable
        if "cs" in c and c["cs"]["ckind"] == "indexed" and c["cs"]["origin"] == "api" and (c["cs"].get("names") or {}).get("sample"):
            exp.append("index-variable-sample-dimension-name")                 # repaired by C01-fix3-1
        if "example" in c and c["example"] in (3, 4, 7) and c["options"].get("fmt") == "NETCDF4_CLASSIC":
            exp.append("netcdf4-classic-fill-value-after-data")
        if "example" in c and c["example"] == 1:
            exp.append("equal-constructs-share-a-variable")
        if c.get("expect_attr") and "raw" in r:
            vn, an, val = c["expect_attr"]
            got = r["raw"]["vars"].get(vn, {}).get("attrs", {}).get(an)
            if got != val:
                chk.fail("property", "cell-method-names-scalar-coordinate-of-another-axis",
                         f"attribute {vn}:{an} is {got!r}, expected {val!r}",
                         {"input": {k: v for k, v in c.items() if k != "i"}, "expected": val, "observed": got})
        if r.get("pre_fail"):
            # independent of any round trip: a CF dataset encoded by hand, decoded with numpy, read with cfdm.read
            stats["sig:hand-encoded-compressed-dataset-misread"] = stats.get("sig:hand-encoded-compressed-dataset-misread", 0) + 1
            chk.fail("property", "hand-encoded-compressed-dataset-misread",
                     f"cfdm.read of a hand-encoded {c['cs']['ckind']} dataset: {r['pre_fail'][:3]}",
                     {"input": {k: v for k, v in c.items() if k != "i"}, "expected": "the arrays CF 8.2 / 9.3 define",
                      "observed": r["pre_fail"]})
        if "crash" in r:
            explained.add(c["i"])
            chk.fail("property", exp[0] if exp and exp[0].startswith("netcdf-string-scalar") else "worker-crash", f"the interpreter died while writing/reading: {r['crash'][:120]}",
                     {"input": c, "expected": "a round trip", "observed": r})
            continue
        if "harness_err" in r and "n_read" not in r:
            chk.fail("correspondence", "harness-error", r["harness_err"], {"correspondence": "drive/c01.py", "input": c})
            continue
        if "write_err" in r and "_FillValue or missing_value at unmasked point" in r["write_err"] and "spec" in c and any(
                (x.get("vp") or {}).get("kind") in ("missing_value", "_FillValue") and x["vp"]["rel"] == "coincide"
                for x in c["spec"]["cons"] + ([c["spec"]["data"]] if c["spec"].get("data") else [])):
            # unmasked data equal to their own missing value: the writer refuses the construct (not one it accepts)
            stats["writer-refuses-unmasked-missing-value"] = stats.get("writer-refuses-unmasked-missing-value", 0) + 1
            continue
        if row_ok(r):
            stats["round-trips"] = stats.get("round-trips", 0) + 1
            continue
        explained.add(c["i"])
        stats["failures"] = stats.get("failures", 0) + 1
        sy = symptoms(r)
        # a class that has been repaired (fixed-pending) is not expected to manifest: the other classes of the
        # case come first; a case that only has repaired classes is reported under the repaired signature
        exp = [e for e in exp if e not in FIXED] or exp
        wild = [e for e in exp if e not in SIG_SYMPTOMS]
        if wild:
            sig = wild[0]           # a structure-changing class explains every symptom
        elif exp:
            hit = [e for e in exp if SIG_SYMPTOMS[e] & sy]
            sig = (hit or exp)[0]
        elif "write_err" in r:
            sig = "write-raises"
        elif "read_err" in r:
            sig = "read-raises"
        elif "realise_err" in r:
            sig = "data-read-back-cannot-be-realised"
        elif r.get("n_read") != 1:
            sig = "not-exactly-one-construct"
        elif r.get("fp_equal") is False:
            sig = "fingerprint-differs:" + ",".join(r.get("fp_diff") or [])
        elif not (r.get("eq_fg") and r.get("eq_gf")):
            sig = "equals-false"
        elif r.get("names_lost"):
            sig = "netcdf-name-lost:" + ",".join(sorted({n[1] for n in r["names_lost"]}))
        elif r.get("read_stable") is False:
            sig = "read-construct-changes-when-returned-array-is-overwritten"
        else:
            sig = "source-changed"
        stats["sig:" + sig] = stats.get("sig:" + sig, 0) + 1
        if exp and not wild:
            # the known classes of this case explain only some components: anything else is a second failure
            allowed = set().union(*(SIG_SYMPTOMS[e] for e in exp))
            extra = sy - allowed
            if extra:
                sig2 = residual_signature(extra, r)
                stats["sig2:" + sig2] = stats.get("sig2:" + sig2, 0) + 1
                chk.fail("property", sig2, f"second failure of a case of class {exp}: unexplained {sorted(extra)}: {describe(r)}",
                         {"input": {k: v for k, v in c.items() if k != "i"}, "expected": f"only {sorted(allowed)} may differ",
                          "observed": {k: v for k, v in r.items() if k not in ("raw", "rskel")}})
        chk.fail("property", sig, f"write/read of a {c.get('fam')} case ({c['options']}): {describe(r)}",
                 {"input": {k: v for k, v in c.items() if k != "i"}, "expected": "exactly one equal construct, equal fingerprint, names kept",
                  "observed": {k: v for k, v in r.items() if k not in ("raw", "rskel")}})
    return explained


# ---------------------------------------------------------------- correspondence with the Coq model
WORDS = ["a", "bc", "def", "gh", "ijklm", "n", "opq"]


def str_width(shape_n, base, mask=False):
    """Width of the char storage of drive/c01.py make_array(dtype 'S'): the longest unmasked element."""
    n = max(shape_n, 1)
    hidden = ((base % (n - 1)) + 1 if n > 2 else 1) if (mask and n > 1) else None
    return max(len(WORDS[(base + j) % len(WORDS)] + str((base + j) % 3)) for j in range(n) if j != hidden)


def scalar_string_aux(spec, c):
    """A string-valued 1-d auxiliary coordinate that is the only construct of a size-1 axis the data do not span:
    written as a scalar coordinate variable (netCDF string or char), read back as an auxiliary coordinate."""
    if c["type"] != "aux" or c.get("dtype") != "S" or len(c["axes"]) != 1 or c.get("bounds"):
        return False
    a = c["axes"][0]
    return a not in spanned(spec) and sum(1 for x in spec["cons"] if a in x["axes"]) == 1


def n_string_scalars(spec):
    sp = spanned(spec)
    return sum(1 for c in spec["cons"] if c["type"] == "aux" and c.get("dtype") == "S" and len(c["axes"]) == 1
               and c["axes"][0] not in sp)


def limit_string_scalars(rng, spec, opts):
    """One netCDF-string scalar coordinate (see netcdf-string-scalar-coordinates-crash-...; two or three in a 15 % probe):
    the others become numeric scalar dimension coordinates."""
    if opts.get("fmt", "NETCDF4") != "NETCDF4" or opts.get("string", True) is False:
        return spec
    sp, k = spanned(spec), 0
    keep = 1 if rng.random() >= 0.15 else 3
    for c in spec["cons"]:
        if c["type"] == "aux" and c.get("dtype") == "S" and len(c["axes"]) == 1 and c["axes"][0] not in sp:
            k += 1
            if k > keep:
                c.update({"type": "dim", "dtype": "f8", "props": {"long_name": c["props"].get("long_name", "x")}})
    return spec


def has_scalar_string_aux(spec):
    return any(scalar_string_aux(spec, c) for c in spec["cons"])


def in_model(spec, opts):
    """Is this case inside the fragment the Coq model covers?"""
    if spec["kind"] != "field" or spec["refs"] or (spec["data"] or {}).get("dtype") == "S" or spec.get("groups"):
        return False
    sp = spanned(spec)
    for c in spec["cons"]:
        if c["type"] not in ("dim", "aux", "measure", "fanc") or c.get("external") or c.get("climatology") or c.get("nodata"):
            return False
        if c["type"] != "dim" and any(a not in sp for a in c["axes"]) and not scalar_string_aux(spec, c):
            return False
        if c.get("bounds") and c["bounds"]["props"]:
            return False
    for a in range(len(spec["axes"])):
        if a not in sp and not any(c["type"] == "dim" and c["axes"] == [a] for c in spec["cons"]) and \
                not any(scalar_string_aux(spec, c) and c["axes"] == [a] for c in spec["cons"]):
            return False
    for cm in spec["cms"]:
        if cm["quals"] or any(not isinstance(a, int) for a in cm["axes"]):
            return False
    if opts.get("group") is False:
        pass
    return True


def g_ostr(x):
    return gopt(x, gstr)


def g_skel(spec, opts):
    axes = glist(spec["axes"], lambda a: "{| a_size := %s; a_ncdim := %s; a_unlim := %s |}" % (
        gz(a["size"]), g_ostr(a["ncdim"]), gbool(a["unlimited"])))
    T = {"dim": "CDim", "aux": "CAux", "measure": "CMeasure", "fanc": "CFanc"}

    def g_con(jc):
        j, c = jc
        b = c.get("bounds")
        gb = "None" if not b else "(Some {| b_n := %s; b_ncvar := %s; b_ncdim := %s |})" % (
            gz(b["n"]), g_ostr(b["ncvar"]), g_ostr(b["ncdim"]))
        sl = "None"
        if c.get("dtype") == "S":      # (the model decides from fmt / string whether it is a netCDF string or char)
            n = 1
            for a in c["axes"]:
                n *= spec["axes"][a]["size"]
            sl = "(Some %s)" % gz(str_width(n, 11 * (j + 1), c.get("mask")))
        return "{| c_type := %s; c_axes := %s; c_std := %s; c_ncvar := %s; c_bounds := %s; c_strlen := %s; c_measure := %s |}" % (
            T[c["type"]], glist(c["axes"], lib.gnat), g_ostr(c["props"].get("standard_name")), g_ostr(c["ncvar"]), gb, sl,
            gstr(c.get("measure", "")))
    cons = glist(list(enumerate(spec["cons"])), g_con)
    cms = glist(spec["cms"], lambda m: "{| m_axes := %s; m_method := %s |}" % (glist(m["axes"], lib.gnat), gstr(m["method"])))
    return "{| f_std := %s; f_ncvar := %s; f_axes := %s; f_data_axes := %s; f_cons := %s; f_cms := %s |}" % (
        g_ostr(spec["props"].get("standard_name")), g_ostr(spec["ncvar"]), axes, glist(spec["data"]["axes"], lib.gnat), cons, cms)


def g_opts(o):
    return ("{| o_fmt := %d; o_compress := %d; o_shuffle := %s; o_fletcher32 := %s; o_endian := %d; o_chunks := %d; "
            "o_coordinates := %s; o_string := %s |}") % (
        FORMATS.index(o.get("fmt", "NETCDF4")), int(o.get("compress", 0)), gbool(o.get("shuffle", True)),
        gbool(o.get("fletcher32", False)), ["native", "little", "big"].index(o.get("endian", "native")),
        ["4 MiB", "contiguous", "1 KiB", 64].index(o.get("hdf5_chunks", "4 MiB")), gbool(o.get("coordinates", False)),
        gbool(o.get("string", True)))


MODEL_ATTRS = ("bounds", "coordinates", "cell_measures", "ancillary_variables", "cell_methods", "compress")


def g_kind(dtype):
    """storage kind of a netCDF variable as the reader tests it: netCDF string / char / anything else"""
    return "KStr" if dtype == "str" else ("KChar" if dtype.startswith("S") else "KNum")


def printable(s):
    return all(32 <= ord(ch) < 127 for ch in s)


def raw_in_model(raw):
    for v in raw["vars"].values():
        for k, x in v["attrs"].items():
            if k not in MODEL_ATTRS or not printable(x):
                return False
        if "(" in v["attrs"].get("cell_methods", "") or any(
                w in v["attrs"].get("cell_methods", "").split() for w in ("where", "over", "within")):
            return False
    return not raw.get("gattrs", {}).get("external_variables") and not raw.get("groups")


def g_ads(raw):
    dims = glist(sorted(raw["dims"].items()), lambda kv: "(%s, (%s, %s))" % (gstr(kv[0]), gz(kv[1][0]), gbool(kv[1][1])))
    vs = glist(list(raw["vars"].items()), lambda kv: "{| v_name := %s; v_dims := %s; v_attrs := %s; v_kind := %s |}" % (
        gstr(kv[0]), glist(kv[1]["dims"], gstr),
        glist(sorted((k, x) for k, x in kv[1]["attrs"].items() if k in MODEL_ATTRS), lambda p: "(%s, %s)" % (gstr(p[0]), gstr(p[1]))),
        g_kind(kv[1]["dtype"])))
    return "{| d_dims := %s; d_vars := %s |}" % (dims, vs)


def g_rskel(r):
    T = {"dim": "CDim", "aux": "CAux", "measure": "CMeasure", "fanc": "CFanc"}
    cons = glist(r["cons"], lambda c: "{| r_type := %s; r_ncvar := %s; r_axes := %s; r_bounds := %s; r_bdim := %s; r_measure := %s |}" % (
        T[c["type"]], gstr(c["ncvar"] or "?"), glist(c["axes"], gstr), g_ostr(c["bounds"]), g_ostr(c["bdim"]), gstr(c["measure"] or "")))
    axes = glist(r["axes"], lambda a: "(%s, (%s, %s))" % (gstr(a[0]), gz(a[1]), gbool(a[2])))
    cms = glist(r["cms"], lambda m: "(%s, %s)" % (glist([str(a) for a in m["axes"]], gstr), gstr(m["method"] or "")))
    return "{| rs_ncvar := %s; rs_data_axes := %s; rs_axes := %s; rs_cons := %s; rs_cms := %s |}" % (
        gstr(r["ncvar"] or "?"), glist(r["data_axes"], gstr), axes, cons, cms)


def correspondence(chk, cases, rows, explained, stats):
    wl, wc, rl, rc = [], [], [], []
    for c, r in zip(cases, rows):
        if r is None or "raw" not in r:
            continue
        if "cs" in c:
            # a field compressed by gathering: the file (list variable with a `compress' attribute) against the
            # reader model's implied dimensions
            if c["cs"]["ckind"] == "gathered" and raw_in_model(r["raw"]) and "rskel" in r and r.get("n_read") == 1 and \
                    all(v["dtype"] != "str" and not v["dtype"].startswith("S") for v in r["raw"]["vars"].values()):
                rl.append("(%s, [%s])" % (g_ads(r["raw"]), g_rskel(r["rskel"])))
                rc.append((c, r))
                stats["model-read-gathered"] = stats.get("model-read-gathered", 0) + 1
            continue
        if "spec" not in c:
            continue
        spec, opts = c["spec"], c["options"]
        names_ok = all(printable(x) for x in json.dumps(spec))
        if in_model(spec, opts) and names_ok and not [e for e in expected_findings(spec, {}) if e not in FIXED]:
            wl.append("(%s, %s, %s)" % (g_opts(opts), g_skel(spec, opts), g_ads(r["raw"])))
            wc.append((c, r))
        if raw_in_model(r["raw"]) and "rskel" in r and r.get("n_read") == 1 and spec["kind"] == "field" and \
                (spec["data"] or {}).get("dtype") != "S" and \
                all(x["type"] != "danc" for x in r["rskel"]["cons"]):
            rl.append("(%s, [%s])" % (g_ads(r["raw"]), g_rskel(r["rskel"])))
            rc.append((c, r))
    n = 0
    if wl:
        ol = ["(%s, %s)" % (g_opts(c["options"]), g_skel(c["spec"], c["options"])) for c, r in wc]
        # (skeletons with a string-valued scalar auxiliary coordinate are outside the proved guard wf; for them the
        # model round trip is evaluated case by case: check_types)
        gi = [i for i, (c, r) in enumerate(wc) if not has_scalar_string_aux(c["spec"])]
        bad0 = [gi[k] for k in lib.coq_bad_indices("C01", REQ, "check_wf", [ol[i] for i in gi], chunk=100)]
        stats["model-guard-cases"] = len(gi)
        stats["model-scalar-string-cases"] = len(ol) - len(gi)
        badt = lib.coq_bad_indices("C01", REQ, "check_types", ol, chunk=100)
        for i in badt[:10]:
            c, r = wc[i]
            chk.fail("correspondence", "model-roundtrip-types", "read_skel (write_skel o f) does not have the constructs of the skeleton, type by type",
                     {"correspondence": "C01.Run.check_types", "input": {k: v for k, v in c.items() if k != "i"}})
        for i in bad0[:10]:
            c, r = wc[i]
            chk.fail("correspondence", "model-guard", "an in-fragment case lies outside the guard (wf, dim_unique) of C01_roundtrip_checked",
                     {"correspondence": "C01.Run.check_wf", "input": {k: v for k, v in c.items() if k != "i"}})
        bad1 = lib.coq_bad_indices("C01", REQ, "check_one", ol, chunk=100)
        stats["model-roundtrip-cases"] = len(ol)
        for i in bad1[:10]:
            c, r = wc[i]
            chk.fail("correspondence", "model-roundtrip", "read_skel (write_skel o f) is not a single construct for a skeleton of the fragment",
                     {"correspondence": "C01.Run.check_one", "input": {k: v for k, v in c.items() if k != "i"}})
        bad = lib.coq_bad_indices("C01", REQ, "check_write", wl, chunk=60)
        n += len(wl)
        stats["model-write-cases"] = len(wl)
        for i in bad[:25]:
            c, r = wc[i]
            if c["i"] in explained:
                continue
            chk.fail("correspondence", "model-vs-impl:write",
                     "the file written differs from write_skel of the skeleton (dimensions / variables / reference attributes)",
                     {"correspondence": "C01.Run.check_write", "input": {k: v for k, v in c.items() if k != "i"},
                      "observed": r["raw"]})
    if rl:
        bad = lib.coq_bad_indices("C01", REQ, "check_read", rl, chunk=60)
        n += len(rl)
        stats["model-read-cases"] = len(rl)
        for i in bad[:25]:
            c, r = rc[i]
            if c["i"] in explained:
                continue
            chk.fail("correspondence", "model-vs-impl:read",
                     "the construct cfdm.read made differs from read_skel of the file",
                     {"correspondence": "C01.Run.check_read", "input": {k: v for k, v in c.items() if k != "i"},
                      "observed": {"raw": r["raw"], "rskel": r["rskel"]}})
    return n


def run(chk, model_ok):
    cases = build_cases(chk)
    rows = run_cases(cases, chk.scratch)
    stats = {}
    explained = oracle(chk, cases, rows, stats)
    ncorr = correspondence(chk, cases, rows, explained, stats) if model_ok else 0
    feats = {}
    distinct = set()
    for c in cases:
        if "cs" in c:
            cs = c["cs"]
            tags = ["compressed:" + cs["ckind"], "compressed-origin:" + cs["origin"]]
            if cs["ckind"] == "gathered":
                last = len(cs["shape"]) - cs["k"]
                tags.append("gathered-list-dimension:" + ("only" if last == 0 else "first" if cs["pos"] == 0 else
                                                          "last" if cs["pos"] == last else "middle"))
                tags.append("gathered-axes:%d" % cs["k"])
            if any(x.get("comp") for x in cs["cons"]):
                tags.append("compressed-metadata-construct")
            for x in cs["cons"]:
                if x.get("comp") and x.get("list") is not None:
                    tags.append("gathered-own-list:" + ("equal" if list(x["list"]) == list(cs["list"]) else
                                                        "different-same-length" if len(x["list"]) == len(cs["list"])
                                                        else "different-length"))
            if cs.get("data_plain"):
                tags.append("gathered-constructs-under-uncompressed-data")
            for t in tags:
                feats[t] = feats.get(t, 0) + 1
            distinct.add(lib.canon([cs, c["options"]]))
            continue
        if "spec" not in c:
            continue
        sp = c["spec"]
        tags = ["kind:" + sp["kind"], "axes:%d" % len(sp["axes"])]
        if c.get("fam") in ("square", "validity", "scalar-string") or str(c.get("fam", "")).startswith("matrix:"):
            tags.append("family:" + c["fam"])
        if has_scalar_string_aux(sp):
            tags.append("string-scalar-coordinate:%s" % ("netcdf-string" if c["options"].get("fmt", "NETCDF4") == "NETCDF4"
                                                         and c["options"].get("string", True) else "char"))
        for x in sp["cons"] + ([sp["data"]] if sp.get("data") else []):
            if x.get("vp"):
                tags.append("validity:%s:%s" % (x["vp"]["kind"], x["vp"]["rel"]))
        tags += sorted({"con:" + x["type"] for x in sp["cons"]})
        tags += ["fmt:" + c["options"].get("fmt", "NETCDF4")]
        tags += sorted("opt:" + k for k in c["options"] if k != "fmt")
        if any(x.get("bounds") for x in sp["cons"]):
            tags.append("bounds")
        if any(x.get("dtype") == "S" for x in sp["cons"]) or (sp.get("data") or {}).get("dtype") == "S":
            tags.append("string-data")
        if any(a["unlimited"] for a in sp["axes"]):
            tags.append("unlimited")
        if sp["cms"]:
            tags.append("cell-methods")
        if sp["refs"]:
            tags.append("coordinate-references")
        if any("dancs" in r for r in sp["refs"]):
            tags.append("formula-terms")
        if any(x.get("external") for x in sp["cons"]):
            tags.append("external-measure")
        if set(range(len(sp["axes"]))) - spanned(sp) and sp["kind"] == "field":
            tags.append("scalar-coordinate-axis")
        for t in tags:
            feats[t] = feats.get(t, 0) + 1
        if len(sp["cons"]) >= 1:
            distinct.add(lib.canon([sp, c["options"]]))
    sample = [c for c in cases if c.get("fam") == "generated"][:2]
    chk.coverage.update({
        "evaluations": len(cases),
        "distinct_nontrivial": len(distinct),
        "rule": "a case is a (field or domain skeleton, write options) pair built through the public API, written with cfdm.write "
                "and read with cfdm.read; non-trivial = at least one metadata construct; distinct by canonical JSON of skeleton+options. "
                "Skeletons: 0-4 axes (sizes 1,2,3,5; equal sizes frequent), data of every netCDF dtype incl. strings with/without masks, "
                "dimension/auxiliary/scalar coordinates with/without bounds, climatology, cell measures incl. external, field and domain "
                "ancillaries, cell methods, grid-mapping and formula-terms coordinate references, vector-valued properties, netCDF names "
                "set/unset/colliding defaults, unlimited axes; plus the eight example fields (DSG, geometry) and their domains",
        "samples": [{k: v for k, v in c.items() if k != "i"} for c in sample],
        "traces_validated_against_impl": ncorr,
        "disagreements_checked": ncorr,
        "features": feats,
        "outcomes": stats,
        "exhaustive": False,
        "option_family_matrix": {
            "families": FAMILIES,
            "write_options": {k: [str(x) for x in v] for k, v in W_OPTS},
            "read_options": {k: [str(x) for x in v] for k, v in R_OPTS},
            "pairs_covered": {fam: len(MATRIX_PAIRS.get(fam, [])) for fam in FAMILIES},
            "pairs_possible_per_family": sum(len(v) for _, v in W_OPTS + R_OPTS),
            "tier_rule": "quick: every (option value, family) pair at least once; thorough: every (value of option A, value of "
                         "option B, family) triple for A != B, but those the netCDF / HDF5 libraries exclude",
            "combinations_excluded_by_library_rules": len(MATRIX_PAIRS.get("illegal", [])),
            "matrix_cases": sum(1 for c in cases if str(c.get("fam", "")).startswith("matrix:")),
        },
    })
    chk.assumptions += [
        "HDF5 / netCDF-C / netCDF4-python are trusted to return the bytes and attributes that were stored",
        "set netCDF names are CF-style names (letters, digits, underscore) and pairwise distinct: a file cannot hold two objects of one name, "
        "and the writer deliberately replaces blanks by underscores",
        "a dimension coordinate's netCDF variable name and its axis's netCDF dimension name are one name in a file; when both are set and "
        "differ the dimension name is not required to survive; a size-1 axis written as a scalar coordinate variable has no netCDF dimension",
        "the Coq model covers the core fragment only (fields; dimension/auxiliary/scalar coordinates, bounds, cell measures, field ancillaries, "
        "cell methods, name allocation); domains, coordinate references, domain ancillaries, external variables, climatology, DSG, geometries, "
        "groups are carried by the oracle alone",
        "byte order is a storage attribute: the fingerprint compares numpy dtype names (float64), cfdm's equals compares dtypes exactly",
    ]


def replay(chk, path):
    d = json.load(open(path))
    bad = 0
    for x in d.get("cases", []):
        c = x.get("input")
        if not c or ("spec" not in c and "example" not in c):
            continue
        c = dict(c)
        rows = run_cases([c], chk.scratch, nworkers=1)
        r = rows[0]
        print(json.dumps(c)[:400], "->", describe(r) if r else None)
        bad += 0 if (r and row_ok(r)) else 1
    return 1 if bad else 0
