"""C16 - subsampled coordinates are reconstituted by the stated interpolation
(DESIGN.md section 4, C16)."""
import itertools
import json
from fractions import Fraction as Fr

import numpy as np

import lib
from lib import gbool, gnat

REQ = ("From CfdmV Require Import Common.Base C16.Model C16.Run.\n"
       "From Coq Require Import QArith.\nOpen Scope nat_scope.")

NV = {1: 2, 2: 4}  # bounds vertices per number of subsampled dimensions


# ---------------------------------------------------------------------------
# independent reference implementation (CF 8.3 / Appendix J, exact rationals)
# ---------------------------------------------------------------------------
def fl(ua, ub, s):
    return ua + s * (ub - ua)


def fq(ua, ub, w, s):
    return fl(ua, ub, s) + 4 * w * s * (1 - s)


def zones(tpi):
    """Interpolation subareas of one dimension, from the CF definition: two
    consecutive tie point indices more than one apart bound a subarea; a
    subarea starts a continuous area if it is the first pair or follows a
    pair of adjacent indices.  -> list of (k, ia, ib, first, number)"""
    out = []
    first = True
    for k in range(len(tpi) - 1):
        ia, ib = tpi[k], tpi[k + 1]
        if ib - ia <= 1:
            first = True
            continue
        out.append((k, ia, ib, first, len(out)))
        first = False
    return out


def orphans(tpi):
    """Tie point indices that belong to no interpolation subarea (one-point
    continuous areas)."""
    z = zones(tpi)
    used = {ia for _, ia, _, _, _ in z} | {ib for _, _, ib, _, _ in z}
    return sorted(set(tpi) - used)


def areas_ok(tpi):
    return not orphans(tpi)


def locate(tpi, i, bounds):
    """-> (k, number, s) for coordinates, (k, number, s_lo, s_hi) for bounds, or None"""
    for k, ia, ib, first, num in zones(tpi):
        if not bounds:
            if ia <= i <= ib:
                return (k, num, Fr(i - ia, ib - ia))
        else:
            lo = ia if first else ia + 1
            if lo <= i <= ib:
                m = ib - lo + 1
                return (k, num, Fr(i - lo, m), Fr(i - lo + 1, m))
    return None


def reference(name, tp, tpi, shape, bounds, w=None, wdim=None):
    """tp: numpy object array of Fractions; tpi: {dim: [..]}; shape: the
    uncompressed shape (with the trailing bounds dimension when bounds).
    Returns a numpy object array (None = missing)."""
    sd = sorted(tpi)
    out = np.empty(shape, dtype=object)
    cshape = shape[:-1] if bounds else shape
    for idx in np.ndindex(*cshape):
        loc = [locate(tpi[d], idx[d], bounds) for d in sd]
        if any(x is None for x in loc):
            continue

        def corner(*offs):
            j = list(idx)
            for d, x, o in zip(sd, loc, offs):
                j[d] = x[0] + o
            return tp[tuple(j)]

        if len(sd) == 1:
            ua, ub = corner(0), corner(1)
            if name == "quadratic" and w is not None:
                f = lambda s: fq(ua, ub, w[loc[0][1]], s)  # noqa
            else:
                f = lambda s: fl(ua, ub, s)  # noqa
            if bounds:
                out[idx + (0,)] = f(loc[0][2])
                out[idx + (1,)] = f(loc[0][3])
            else:
                out[idx] = f(loc[0][2])
        else:
            ua, ub, uc, ud = corner(0, 0), corner(0, 1), corner(1, 0), corner(1, 1)
            f = lambda s2, s1: fl(fl(ua, uc, s2), fl(ub, ud, s2), s1)  # noqa
            if bounds:
                l2, h2 = loc[0][2], loc[0][3]
                l1, h1 = loc[1][2], loc[1][3]
                out[idx + (0,)] = f(l2, l1)
                out[idx + (1,)] = f(l2, h1)
                out[idx + (2,)] = f(h2, h1)
                out[idx + (3,)] = f(h2, l1)
            else:
                out[idx] = f(loc[0][2], loc[1][2])
    return out


# ---------------------------------------------------------------------------
# Gallina printers
# ---------------------------------------------------------------------------
def gq(x):
    x = Fr(x)
    n = f"({x.numerator})" if x.numerator < 0 else str(x.numerator)
    return f"({n} # {x.denominator})%Q"


def gnl(l):
    return "[" + "; ".join(gnat(i) for i in l) + "]"


def gql(l):
    return "[" + "; ".join(gq(x) for x in l) + "]"


def goq(x):
    return "None" if x is None else f"(Some {gq(x)})"


def gidx(ix):
    if ix == "first":
        return "IFirst"
    if ix == "last":
        return "ILast"
    return f"(IPos {gnl(ix)})"


def gobs(o):
    if o is None:
        return "ObsErr"
    shape, vals = o
    return f"(ObsArr {gnl(shape)} [" + "; ".join(goq(v) for v in vals) + "])"


def gmeth(name, w):
    if name == "quadratic":
        return "(Quadratic None)" if w is None else f"(Quadratic (Some {gql(w)}))"
    return "Linear"


def g_c1(bounds, name, w, n, tpi, tp, ix, o):
    return (f"(C1 {gbool(bounds)} {gmeth(name, w)} {gnat(n)} {gnl(tpi)} {gql(tp)} "
            f"[{'; '.join(gidx(i) for i in ix)}] {gobs(o)})")


def g_c2(bounds, n2, n1, tpi2, tpi1, T, ix, o):
    rows = "[" + "; ".join(gql(r) for r in T) + "]"
    return (f"(C2 {gbool(bounds)} {gnat(n2)} {gnat(n1)} {gnl(tpi2)} {gnl(tpi1)} {rows} "
            f"[{'; '.join(gidx(i) for i in ix)}] {gobs(o)})")


INAME = {"linear": "ILinear", "quadratic": "IQuadratic", "bi_linear": "IBilinear"}
STY = {"i2": "SI16", "i4": "SI32", "i8": "SI64", "f4": "SF32", "f8": "SF64"}


def gsnum(x, dtype):
    """a stored tie point: an integer, or m * 2^e"""
    x = Fr(x)
    if dtype[0] == "i":
        assert x.denominator == 1
        return f"(NInt {lib.gz(x.numerator)})"
    e = -(x.denominator.bit_length() - 1)
    assert x.denominator == 1 << -e, x
    return f"(NFlt {lib.gz(x.numerator)} {lib.gz(e)})"


def g_c3(c, pi, o):
    """A whole array in canonical layout with its constructor arguments, the
    dictionaries in the insertion order that was used."""
    tp, dt = c["tp"], c["tp_dtype"]
    if len(tp.shape) == 1:
        gtp = "(TP1 [" + "; ".join(gsnum(x, dt) for x in tp.tolist()) + "])"
    else:
        gtp = "(TP2 [" + "; ".join("[" + "; ".join(gsnum(x, dt) for x in r) + "]" for r in tp.tolist()) + "])"
    cshape = c["shape"][:-1] if c["bounds"] else c["shape"]
    tpis = "[" + "; ".join(f"({gnat(d)}, {gnl(c['tpi'][d])})" for d in c["tpi_order"]) + "]"
    pv = {"w": c["w"], "zz": c.get("zz")}
    params = "[" + "; ".join(f"({lib.gstr(k)}, {gql(pv[k])})" for k in c["param_order"] if pv.get(k) is not None) + "]"
    pdims = "[" + "; ".join(f"({lib.gstr(k)}, {gnl([c['wdim']])})" for k in c["pdim_order"] if pv.get(k) is not None) + "]"
    prec = "None" if c.get("comp_prec") is None else f"(Some {lib.gstr(c['comp_prec'])})"
    return (f"(C3 {INAME[c['name']]} {gbool(c['bounds'])} {gnl(cshape)} {STY[dt]} {gtp} {tpis} {params} {pdims} {prec} "
            f"[{'; '.join(gidx(i) for i in pi)}] {gobs(o)})")


# ---------------------------------------------------------------------------
# index handling (what Data._parse_indices hands to SubsampledArray.__getitem__)
# ---------------------------------------------------------------------------
def parse_index(index, shape):
    """JSON index -> per dimension 'first' | 'last' | list of positions."""
    index = list(index) + [{"s": [None, None, None]}] * (len(shape) - len(index))
    out = []
    for i, n in zip(index, shape):
        if isinstance(i, int):
            if i < 0:
                i += n
            out.append("first" if i == 0 else [i])
        elif "s" in i:
            a, b, c = i["s"]
            if (a, b, c) == (0, 1, 1):
                out.append("first")
            elif (a, b, c) == (-1, None, 1):
                out.append("last")
            else:
                out.append(list(range(*slice(a, b, c).indices(n))))
        else:
            out.append([x + n if x < 0 else x for x in i["l"]])
    return out


def pos_of(p, n):
    return [0] if p == "first" else [n - 1] if p == "last" else p


def rand_index(rng, n, neg_step=True):
    r = rng.random()
    if r < 0.2:
        return rng.randrange(-n, n)
    if r < 0.75:
        for _ in range(20):
            a = rng.choice([None, None, rng.randrange(-n, n + 1)])
            b = rng.choice([None, None, rng.randrange(-n, n + 1)])
            c = rng.choice([None, 1, 1, 2, 3, -1, -2] if neg_step else [None, 1, 1, 2, 3])
            if len(range(*slice(a, b, c).indices(n))) > 0:
                return {"s": [a, b, c]}
        return {"s": [None, None, None]}
    k = rng.randrange(1, min(n, 4) + 1)
    l = sorted(rng.sample(range(n), k))
    if neg_step and rng.random() < 0.3:
        l.reverse()
    return {"l": l}


# ---------------------------------------------------------------------------
# generators
# ---------------------------------------------------------------------------
def gen_tpi(rng, mode, orphan_p=0.0, max_areas=3, max_sub=3, bounds_cells=False):
    """A tie point index vector: continuous areas separated by adjacent
    indices, each area a chain of subareas.  mode 'coords': every gap a power
    of two (exact float arithmetic for coordinates); 'bounds': every subarea's
    cell count a power of two; 'general': any gap >= 2."""
    tpi = [0]
    nareas = rng.randint(1, max_areas)
    for a in range(nareas):
        if a > 0:
            tpi.append(tpi[-1] + 1)
        nsub = rng.randint(1, max_sub)
        if rng.random() < orphan_p:
            nsub = 0
        for s in range(nsub):
            if mode == "coords":
                gap = rng.choice([2, 2, 4, 4, 8, 16])
            elif mode == "bounds":
                gap = rng.choice([3, 3, 7, 15]) if s == 0 else rng.choice([2, 2, 4, 8])
            elif mode == "nondyadic":  # 3, 5, 6 or 7 intervals (cells for bounds): s = k/n is not a binary fraction
                n = rng.choice([3, 3, 5, 6, 7])
                gap = n if not bounds_cells else (n - 1 if s == 0 else n)
                gap = max(gap, 2)
            else:
                gap = rng.choice([2, 3, 3, 5, 6, 7, 9, 10, 11])
            tpi.append(tpi[-1] + gap)
    if len(tpi) == 1:
        tpi.append(1)
    return tpi


def rand_vals(rng, shape):
    style = rng.random()
    size = int(np.prod(shape))
    if style < 0.5:
        v = [Fr(rng.randint(-4000, 4000), 4) for _ in range(size)]
    elif style < 0.8:
        v = [Fr(rng.randint(-100, 100)) for _ in range(size)]
    else:  # monotone-ish, like real coordinates
        acc, v = Fr(rng.randint(-500, 500)), []
        for _ in range(size):
            acc += Fr(rng.randint(1, 64), 2)
            v.append(acc)
    a = np.empty(size, dtype=object)
    a[:] = v
    return a.reshape(shape)


DTYPES = ["f8", "f8", "f8", "f4", "f4", "f4", "i2", "i4", "i8"]


def rand_stored(rng, shape, dtype):
    """Tie point values exactly representable in the storage type.  f4: full
    24-bit significands over 14 binades (differences are not float32 numbers);
    i2 / i4: the whole range (differences overflow the type); every value and
    every difference is exact in float64."""
    if dtype == "f8":
        return rand_vals(rng, shape)
    size = int(np.prod(shape))
    style = rng.random()
    v = []
    for _ in range(size):
        if dtype == "f4":
            if style < 0.7:
                m = rng.randrange(1 << 23, 1 << 24) * rng.choice([-1, 1])
                x = Fr(m, 1 << rng.randint(14, 28))
            else:
                x = Fr(rng.randint(-4000, 4000), 4)
        elif dtype == "i2":
            x = Fr(rng.choice([-32768, 32767, rng.randint(-32768, 32767), rng.randint(-32768, 32767), rng.randint(-100, 100)]))
        elif dtype == "i4":
            x = Fr(rng.choice([-2 ** 31, 2 ** 31 - 1, rng.randint(-2 ** 31, 2 ** 31 - 1), rng.randint(-2 ** 31, 2 ** 31 - 1),
                               rng.randint(-1000, 1000)]))
        else:
            x = Fr(rng.randint(-2 ** 40, 2 ** 40))
        v.append(x)
    a = np.empty(size, dtype=object)
    a[:] = v
    return a.reshape(shape)


def tolist_f(a):
    return np.vectorize(float, otypes=[object])(a).tolist() if a.size else []


def gen_arr_case(rng, fam):
    """One directly constructed SubsampledArray."""
    name = fam["name"]
    bounds = fam["bounds"]
    mode = fam.get("mode") or ("bounds" if bounds else "coords")
    nsd = 2 if name == "bi_linear" else 1
    nextra = fam.get("extra", 0)
    ndim = nsd + nextra
    sdims = sorted(rng.sample(range(ndim), nsd))
    tpi, tp_shape, shape = {}, [], []
    for d in range(ndim):
        if d in sdims:
            t = gen_tpi(rng, mode, orphan_p=fam.get("orphan_p", 0.0),
                        max_areas=2 if nsd == 2 else 3, max_sub=2 if nsd == 2 else 3, bounds_cells=bounds)
            tpi[d] = t
            tp_shape.append(len(t))
            shape.append(t[-1] + 1)
        else:
            e = rng.choice([1, 2, 3])
            tp_shape.append(e)
            shape.append(e)
    if bounds:
        shape.append(NV[nsd])
    dtype = rng.choice(fam.get("dtypes", DTYPES))
    tp = rand_stored(rng, tp_shape, dtype)
    w = zz = None
    if name == "quadratic" and fam.get("w", True):
        nz = len(zones(tpi[sdims[0]]))
        w = [Fr(rng.randint(-64, 64), 2) for _ in range(nz)] if nz else None
        if w is not None and rng.random() < 0.5:
            zz = [Fr(rng.randint(-9, 9)) for _ in range(nz)]  # a parameter the method does not use
    # insertion order of every dictionary argument of SubsampledArray
    tpi_order = list(sdims)
    rng.shuffle(tpi_order)
    param_order = ["w", "zz"]
    rng.shuffle(param_order)
    pdim_order = ["w", "zz"]
    rng.shuffle(pdim_order)
    case = {"kind": "arr", "fam": fam["tag"], "name": name, "bounds": bounds, "sdims": sdims,
            "tp": tp, "tpi": tpi, "shape": shape, "w": w, "zz": zz, "wdim": sdims[0],
            "exact": mode not in ("general", "nondyadic"),
            "tp_dtype": dtype, "w_dtype": rng.choice(["f8", "f4"]), "comp_prec": rng.choice([None, "32", "64"]),
            "tpi_order": tpi_order, "param_order": param_order, "pdim_order": pdim_order}
    ops = [{"op": "array"}, {"op": "first"}, {"op": "last"}]
    if rng.random() < 0.3:
        ops.append({"op": "copy_array"})
    nd = len(shape)
    ops.append({"op": "getitem", "index": [0] * nd})
    ops.append({"op": "getitem", "index": [{"s": [-1, None, 1]}] * nd})
    for _ in range(fam.get("nsub", 2)):
        ops.append({"op": "getitem", "index": [rand_index(rng, n) for n in shape[:rng.randint(1, nd)]]})
    case["ops"] = ops
    return case


def mal_case(rng):
    """Malformed tie point index vectors (1-d linear): not increasing, not
    starting at 0, not reaching the end, reaching beyond it."""
    t = gen_tpi(rng, "coords")
    n = t[-1] + 1
    kind = rng.choice(["dup", "decr", "start", "short", "long"])
    if kind == "dup" and len(t) > 2:
        k = rng.randrange(1, len(t) - 1)
        t = t[:k] + [t[k]] + t[k:]
    elif kind == "decr" and len(t) > 2:
        k = rng.randrange(1, len(t) - 1)
        t = t[:k] + [max(0, t[k] - rng.choice([1, 2, 3]))] + t[k:]
    elif kind == "start":
        t = [x + 2 for x in t]
        n = t[-1] + 1
    elif kind == "short":
        n += rng.choice([1, 2, 4])
    else:
        n -= rng.choice([1, 2])
    tp = rand_vals(rng, [len(t)])
    exact = all(b - a <= 1 or (b - a) & (b - a - 1) == 0 for a, b in zip(t[:-1], t[1:]))
    return {"kind": "arr", "fam": "malformed-" + kind, "name": "linear", "bounds": False, "sdims": [0],
            "tp": tp, "tpi": {0: t}, "shape": [max(n, 1)], "w": None, "wdim": 0, "exact": exact,
            "tp_dtype": "f8", "malformed": True, "tpi_order": [0], "param_order": [], "pdim_order": [],
            "ops": [{"op": "array"}]}


def gen_file_case(rng, k):
    """A hand-encoded CF-netCDF file with subsampled coordinates."""
    two = rng.random() < 0.4
    has_bounds = rng.random() < 0.6
    mode = rng.choice(["coords", "bounds", "nondyadic"]) if has_bounds else rng.choice(["coords", "coords", "nondyadic"])
    fdtype = rng.choice(["f8", "f4", "f4"])  # tie points in files are usually 32-bit floats
    dims, tpi = [], {}
    names = ["track", "scan"] if two else ["track"]
    layout = list(names)
    if rng.random() < 0.6:
        layout.insert(rng.randrange(len(layout) + 1), "chan")
    for nm in layout:
        if nm == "chan":
            dims.append(["chan", rng.choice([1, 2, 3]), None])
        else:
            t = gen_tpi(rng, mode, max_areas=2, max_sub=2)
            tpi[nm] = t
            dims.append([nm, t[-1] + 1, len(t)])
    tp_shape = [d[2] if d[2] is not None else d[1] for d in dims]
    # the coordinates span the subsampled dimensions and, sometimes, the extra one
    axes = [i for i, d in enumerate(dims) if d[2] is not None or rng.random() < 0.5]
    coords = []
    for nm, sn, un in ([("lat", "latitude", "degrees_north"), ("lon", "longitude", "degrees_east")] if two
                       else [("lat", "latitude", "degrees_north")]):
        shp = [tp_shape[i] for i in axes]
        coords.append({"ncvar": nm, "standard_name": sn, "units": un, "axes": axes, "dtype": fdtype,
                       "tp": rand_stored(rng, shp, fdtype), "btp": rand_stored(rng, shp, fdtype) if has_bounds else None})
    ushape = [dims[i][1] for i in axes]
    ops = [{"op": "array", "on": "c"}, {"op": "array", "on": "b"}]
    # (a reversing subspace of a 1-d construct also swaps its bounds: outside this property)
    cops = [{"index": [rand_index(rng, n, neg_step=False) for n in ushape]} for _ in range(2)]
    return {"kind": "file", "fam": "file-" + ("bi_linear" if two else "linear") + ("-bounds" if has_bounds else "") + "-" + fdtype,
            "name": "bi_linear" if two else "linear", "dims": dims, "tpi": tpi, "coords": coords, "axes": axes,
            "mode": mode, "ops": ops, "cops": cops}


FAMILIES = [
    # tag, name, bounds, extra dims, weight
    {"tag": "linear", "name": "linear", "bounds": False, "extra": 0, "weight": 5, "nsub": 3},
    {"tag": "linear-extra", "name": "linear", "bounds": False, "extra": 1, "weight": 2},
    {"tag": "linear-extra2", "name": "linear", "bounds": False, "extra": 2, "weight": 1},
    {"tag": "linear-bounds", "name": "linear", "bounds": True, "extra": 0, "weight": 4, "nsub": 3},
    {"tag": "linear-bounds-extra", "name": "linear", "bounds": True, "extra": 1, "weight": 2},
    {"tag": "quadratic", "name": "quadratic", "bounds": False, "extra": 0, "weight": 3},
    {"tag": "quadratic-now", "name": "quadratic", "bounds": False, "extra": 0, "weight": 1, "w": False},
    {"tag": "quadratic-bounds", "name": "quadratic", "bounds": True, "extra": 0, "weight": 2},
    {"tag": "bi_linear", "name": "bi_linear", "bounds": False, "extra": 0, "weight": 4},
    {"tag": "bi_linear-extra", "name": "bi_linear", "bounds": False, "extra": 1, "weight": 2},
    {"tag": "bi_linear-bounds", "name": "bi_linear", "bounds": True, "extra": 0, "weight": 3},
    {"tag": "bi_linear-bounds-extra", "name": "bi_linear", "bounds": True, "extra": 1, "weight": 1},
    {"tag": "one-point-area", "name": "linear", "bounds": False, "extra": 0, "weight": 1, "orphan_p": 0.5},
    {"tag": "one-point-area-bounds", "name": "linear", "bounds": True, "extra": 0, "weight": 1, "orphan_p": 0.5},
    {"tag": "one-point-area-2d", "name": "bi_linear", "bounds": False, "extra": 0, "weight": 1, "orphan_p": 0.4},
    # subarea sizes for which s = k/n is not a binary fraction: float64 rounding, compared to 2^-46 * scale
    {"tag": "nondyadic-linear", "name": "linear", "bounds": False, "extra": 0, "weight": 3, "mode": "nondyadic",
     "dtypes": ["f4", "f4", "i2", "f8", "i4", "i8"]},
    {"tag": "nondyadic-linear-bounds", "name": "linear", "bounds": True, "extra": 0, "weight": 2, "mode": "nondyadic",
     "dtypes": ["f4", "f4", "i2", "f8", "i4", "i8"]},
    {"tag": "nondyadic-quadratic", "name": "quadratic", "bounds": False, "extra": 0, "weight": 2, "mode": "nondyadic",
     "dtypes": ["f4", "f4", "i2", "f8", "i4", "i8"]},
    {"tag": "nondyadic-bi_linear", "name": "bi_linear", "bounds": False, "extra": 0, "weight": 2, "mode": "nondyadic",
     "dtypes": ["f4", "f4", "i2", "f8", "i4", "i8"]},
    {"tag": "nondyadic-bi_linear-bounds", "name": "bi_linear", "bounds": True, "extra": 0, "weight": 1, "mode": "nondyadic",
     "dtypes": ["f4", "f4", "i2", "f8", "i4", "i8"]},
    {"tag": "nondyadic-linear-extra", "name": "linear", "bounds": False, "extra": 1, "weight": 1, "mode": "nondyadic",
     "dtypes": ["f4", "f4", "i2", "f8", "i4", "i8"]},
    {"tag": "general-lengths", "name": "linear", "bounds": False, "extra": 0, "weight": 1, "mode": "general"},
    {"tag": "general-lengths-bounds", "name": "linear", "bounds": True, "extra": 0, "weight": 1, "mode": "general"},
    {"tag": "general-lengths-2d", "name": "bi_linear", "bounds": False, "extra": 0, "weight": 1, "mode": "general"},
]

# minimised past failures, run first
CORPUS = [
    # F16a: the element of a one-point continuous area is left missing
    {"tag": "corpus-F16a", "name": "linear", "bounds": False, "tpi": {0: [0, 1, 5]}, "tp": [0, 16, 32]},
    {"tag": "corpus-F16a", "name": "linear", "bounds": False, "tpi": {0: [0, 4, 5]}, "tp": [0, 16, 32]},
    {"tag": "corpus-F16a", "name": "linear", "bounds": False, "tpi": {0: [0, 2, 3, 4, 8]}, "tp": [0, 8, 16, 48, 64]},
    # F16b: first-element shortcut on bounds tie points returned shape (1,) for bounds[0, 0]
    {"tag": "corpus-F16b", "name": "linear", "bounds": True, "tpi": {0: [0, 3, 7]}, "tp": [0, 16, 32]},
    # F16c: last element of bi_linear bounds is vertex 3 of the last cell, not the last bounds tie point
    {"tag": "corpus-F16c", "name": "bi_linear", "bounds": True, "tpi": {0: [0, 3], 1: [0, 3, 7]},
     "tp": [[0, 64, 128], [1024, 2048, 4096]]},
    # F16d: float32 tie points: ub - ua was formed in float32, tie points 1 and 2 came back inexact
    {"tag": "corpus-F16d", "name": "linear", "bounds": False, "tpi": {0: [0, 4, 8]}, "dtype": "f4",
     "tp": [float(np.float32(0.1)), float(np.float32(1000.7)), float(np.float32(3.3))]},
    # F16d: int16 tie points: ub - ua wrapped around
    {"tag": "corpus-F16d", "name": "linear", "bounds": False, "tpi": {0: [0, 4, 8]}, "dtype": "i2",
     "tp": [-30000, 30000, 100]},
    # seeded change (third pass): coefficient s in float32 for float32 tie points, 3 intervals
    {"tag": "corpus-s32", "name": "linear", "bounds": False, "tpi": {0: [0, 3, 6]}, "dtype": "f4", "exact": False,
     "tp": [float(np.float32(0.1)), float(np.float32(1000.7)), float(np.float32(3.3))]},
    # seeded change (third pass): tie_point_indices given as {1: ..., 0: ...} swapped bounds vertices 1 and 3
    {"tag": "corpus-dict-order", "name": "bi_linear", "bounds": True, "tpi": {0: [0, 3], 1: [0, 3, 7]},
     "tp": [[0, 64, 128], [1024, 2048, 4096]], "tpi_order": [1, 0]},
]


def corpus_cases():
    out = []
    for c in CORPUS:
        tp = np.array(c["tp"], dtype=object)
        tp = np.vectorize(Fr, otypes=[object])(tp)
        sd = sorted(c["tpi"])
        shape = [c["tpi"][d][-1] + 1 for d in sd] + ([NV[len(sd)]] if c["bounds"] else [])
        nd = len(shape)
        out.append({"kind": "arr", "fam": c["tag"], "name": c["name"], "bounds": c["bounds"], "sdims": sd,
                    "tp": tp, "tpi": dict(c["tpi"]), "shape": shape, "w": None, "zz": None, "wdim": 0,
                    "exact": c.get("exact", True), "tp_dtype": c.get("dtype", "f8"), "w_dtype": "f8", "comp_prec": None,
                    "tpi_order": c.get("tpi_order", sd), "param_order": [], "pdim_order": [],
                    "ops": [{"op": "array"}, {"op": "copy_array"}, {"op": "first"}, {"op": "last"},
                            {"op": "getitem", "index": [0] * nd},
                            {"op": "getitem", "index": [{"s": [-1, None, 1]}] * nd}]})
    return out


def to_payload(c):
    d = {k: v for k, v in c.items() if k not in ("tp", "w", "zz", "coords", "tpi")}
    if c["kind"] == "arr":
        d["tp"] = tolist_f(c["tp"])
        d["w"] = None if c["w"] is None else [float(x) for x in c["w"]]
        d["zz"] = None if c.get("zz") is None else [float(x) for x in c["zz"]]
        d["tpi"] = {str(k): v for k, v in c["tpi"].items()}
    else:
        d["tpi"] = c["tpi"]
        d["coords"] = [dict(co, tp=tolist_f(co["tp"]), btp=None if co["btp"] is None else tolist_f(co["btp"]))
                       for co in c["coords"]]
    return d


def describe(c):
    """JSON-able description of a case (for replays and samples)."""
    return json.loads(json.dumps(to_payload(c), default=str))


# ---------------------------------------------------------------------------
# comparison helpers
# ---------------------------------------------------------------------------
def obs_fr(r):
    """driver result -> (shape, [Fraction|None]) or None for an error"""
    if "err" in r:
        return None
    return (list(r["shape"]), [None if v is None else Fr(v) for v in r["vals"]])


def flat(a):
    return [x for x in a.ravel().tolist()] if isinstance(a, np.ndarray) else [a]


# Where float64 arithmetic cannot be exact (s = k/n with n not a power of two) the
# implementation must be within the rounding error of a float64 evaluation of the
# Appendix J formula: at most 3 nested operations of <= 9 half-ulps each at the
# magnitude of the largest operand, i.e. well inside 2^-46 * scale (64 ulp).  An
# evaluation in (or through) float32 is off by ~2^-24 * scale.
TOL = Fr(1, 2 ** 46)


def diff_positions(exp, got_vals, shape, exact, scale):
    """indices (tuples) where the observed flat values differ from the expected array"""
    bad = []
    ev = flat(exp)
    for n, (e, g) in enumerate(zip(ev, got_vals)):
        if e is None or g is None:
            ok = e is None and g is None
        elif exact:
            ok = e == g
        else:
            ok = abs(e - g) <= scale * TOL
        if not ok:
            bad.append(tuple(int(x) for x in np.unravel_index(n, shape)) if shape else ())
    return bad


def classify(c, badpos, pos_lists=None):
    """Signature of a property failure.  A failure confined to elements that lie
    in a one-point continuous area (a tie point index belonging to no
    interpolation subarea) is the known finding F16a."""
    tpi = c["tpi"]
    if c["kind"] == "arr":
        orph = {d: set(orphans(t)) for d, t in tpi.items()}
    else:
        orph = c.get("_orph", {})
    if badpos and any(orph.values()):
        def in_orphan(p):
            for d, o in orph.items():
                if d < len(p):
                    i = p[d] if pos_lists is None else pos_lists[d][p[d]]
                    if i in o:
                        return True
            return False
        if all(in_orphan(p) for p in badpos):
            return "one-point-area"
    return None


def stored_diff(dtype, ub, ua):
    """ub - ua formed in the storage type (the code before handoff/C16-fix3-1.diff)"""
    d = ub - ua
    if dtype == "f4":
        return Fr(float(np.float32(float(d)))) if d == Fr(float(d)) else None
    bits = {"i2": 16, "i4": 32}[dtype]
    return Fr((int(d) + (1 << (bits - 1))) % (1 << bits) - (1 << (bits - 1)))


def explained_by_stored_arith(c, positions, ovals, shape):
    """F16d: do the observed values at these positions (whole array, one
    subsampled dimension, coordinates, exact family) equal the Appendix J
    formula with ub - ua formed in the stored type of the tie points?"""
    if (c["kind"] != "arr" or c.get("tp_dtype") not in ("f4", "i2", "i4") or c["bounds"] or not c["exact"]
            or len(c["sdims"]) != 1 or len(c["tp"].shape) != 1 or not positions):
        return False
    tpi, tp = c["tpi"][0], c["tp"]
    for p in positions:
        loc = locate(tpi, p[0], False)
        g = ovals[int(np.ravel_multi_index(p, shape))]
        if loc is None or g is None:
            return False
        k, num, sv = loc
        d = stored_diff(c["tp_dtype"], tp[k + 1], tp[k])
        if d is None:
            return False
        e = tp[k] + sv * (d + (4 * c["w"][num] * (1 - sv) if c["name"] == "quadratic" and c["w"] is not None else 0))
        if e != g:
            return False
    return True


# ---------------------------------------------------------------------------
# the check
# ---------------------------------------------------------------------------
def check_arr(chk, c, out, lits, stats):
    """Property oracle for one directly built array + its correspondence literals."""
    name, bounds, sd = c["name"], c["bounds"], c["sdims"]
    shape = c["shape"]
    tp = c["tp"]
    exact = c["exact"]
    scale = max([abs(x) for x in flat(tp)] + [Fr(1)] + [4 * abs(x) for x in (c["w"] or [])])
    ref = reference(name, tp, c["tpi"], tuple(shape), bounds, c["w"], c["wdim"])
    desc = None
    explained = False
    res = out.get("res")
    if res is None:
        chk.fail("correspondence", "worker-crash", f"driver failed on a case: {out}", {"correspondence": "drive/c16.py", "input": describe(c)})
        return
    full = None
    for op, r in zip(c["ops"], res):
        o = obs_fr(r)
        k = op["op"]
        stats["ops"][k] = stats["ops"].get(k, 0) + 1
        if c.get("malformed"):
            stats["malformed_outcomes"][("error:" + r["err"]) if o is None else "array"] = \
                stats["malformed_outcomes"].get(("error:" + r["err"]) if o is None else "array", 0) + 1
            continue
        if o is None:
            chk.fail("property", "exception:" + r["err"], f"{k} raised {r['err']}: {r.get('msg')}",
                     {"input": describe(c), "op": op, "observed": r})
            explained = True
            continue
        oshape, ovals = o
        if k in ("array", "copy_array"):
            full = o
            if oshape != list(shape):
                chk.fail("property", "shape", f"uncompressed shape {oshape}, expected {shape}",
                         {"input": describe(c), "expected": shape, "observed": oshape})
                explained = True
                continue
            bad = diff_positions(ref, ovals, shape, exact, scale)
            # every tie point exactly at its tie point index (coordinates)
            tie_bad = []
            if not bounds:
                for kk in np.ndindex(*tp.shape):
                    u = list(kk)
                    for d in sd:
                        u[d] = c["tpi"][d][kk[d]]
                    u = tuple(u)
                    n = int(np.ravel_multi_index(u, shape))
                    # exact in every family: s is exactly 0 or 1 there and ub - ua is a float64 number
                    if ovals[n] is None or ovals[n] != tp[kk]:
                        tie_bad.append(u)
            if tie_bad:
                sig = classify(c, tie_bad) or (
                    "arithmetic-in-stored-type" if k == "array" and explained_by_stored_arith(c, tie_bad, ovals, shape)
                    else "tie-point-not-reproduced")
                chk.fail("property", sig,
                         f"{name}: tie point not reproduced at its tie point index: uncompressed index {tie_bad[0]} "
                         f"(tie point indices {c['tpi']})",
                         {"input": describe(c), "expected": "the tie point value", "observed": "missing or different",
                          "positions": tie_bad[:5]})
                explained = True
                stats["tie_fail"] += 1
            bad = [p for p in bad if p not in set(tie_bad)]
            if bad:
                sig = classify(c, bad) or (
                    "arithmetic-in-stored-type" if k == "array" and explained_by_stored_arith(c, bad, ovals, shape)
                    else "bounds-mismatch" if bounds else "value-mismatch")
                chk.fail("property", sig,
                         f"{name}{' bounds' if bounds else ''}: uncompressed values differ from the Appendix J reference at {bad[:3]}",
                         {"input": describe(c), "positions": bad[:5],
                          "expected": [str(x) for x in flat(ref)[:40]], "observed": [str(x) for x in ovals[:40]]})
                explained = True
        elif k == "getitem":
            pi = parse_index(op["index"], shape)
            pos = [pos_of(p, n) for p, n in zip(pi, shape)]
            exp = ref[np.ix_(*pos)]
            eshape = [len(p) for p in pos]
            if oshape != eshape:
                chk.fail("property", "subspace-shape",
                         f"subspace {op['index']} of shape-{shape} array has shape {oshape}, expected {eshape}",
                         {"input": describe(c), "op": op, "expected": eshape, "observed": oshape})
                explained = True
                continue
            bad = diff_positions(exp, ovals, eshape, exact, scale)
            if bad:
                sig = classify(c, bad, pos) or "subspace-mismatch"
                chk.fail("property", sig,
                         f"subspace {op['index']} differs from the same subspace of the reference at {bad[:3]}",
                         {"input": describe(c), "op": op, "expected": [str(x) for x in flat(exp)[:40]],
                          "observed": [str(x) for x in ovals[:40]]})
                explained = True
        else:  # first / last element
            e = flat(ref)[0 if k == "first" else -1]
            g = ovals[0]
            okv = (e is None and g is None) or (e is not None and g is not None and
                                                (e == g if exact else abs(e - g) <= scale * TOL))
            if not okv:
                p = tuple(0 if k == "first" else n - 1 for n in shape)
                sig = classify(c, [p]) or (k + "-element")
                chk.fail("property", sig, f"{k}_element() gives {g}, the uncompressed array has {e} there",
                         {"input": describe(c), "op": op, "expected": str(e), "observed": str(g)})
                explained = True

    # correspondence literals (exact families only)
    if not exact:
        return
    nsd = len(sd)
    extra = [d for d in range(len(tp.shape)) if d not in sd]
    for op, r in zip(c["ops"], res):
        if op["op"] not in ("array", "getitem", "copy_array"):
            continue
        o = obs_fr(r)
        if extra:
            # lanes of the whole array only
            if op["op"] != "array" or o is None or o[0] != list(shape):
                continue
            got = np.empty(len(o[1]), dtype=object)
            got[:] = o[1]
            got = got.reshape(shape)
            lanes = list(np.ndindex(*[tp.shape[d] for d in extra]))
            for lane in lanes[:3]:
                sel_tp = [slice(None)] * len(tp.shape)
                sel_u = [slice(None)] * len(shape)
                for d, i in zip(extra, lane):
                    sel_tp[d] = i
                    sel_u[d] = i
                ltp = tp[tuple(sel_tp)]
                lu = got[tuple(sel_u)]
                lshape = list(lu.shape)
                emit(lits, c, explained, name, bounds, nsd, ltp, [c["tpi"][d] for d in sd], c["w"],
                     [list(range(n)) for n in lshape], (lshape, flat(lu)), lshape)
                stats["lanes"] += 1
        else:
            if op["op"] in ("array", "copy_array"):
                pi = [list(range(n)) for n in shape]
            else:
                pi = parse_index(op["index"], shape)
            # the whole constructor call: stored type, dictionaries in insertion order
            lits.append((g_c3(c, pi, o), c, explained))
            stats["c3"] = stats.get("c3", 0) + 1


def emit(lits, c, explained, name, bounds, nsd, tp, tpis, w, pi, o, shape):
    if nsd == 1:
        lit = g_c1(bounds, name, w, shape[0], tpis[0], flat(tp), pi, o)
    else:
        lit = g_c2(bounds, shape[0], shape[1], tpis[0], tpis[1], tp.tolist(), pi, o)
    lits.append((lit, c, explained))


def check_file(chk, c, out, stats):
    """Oracle for a hand-encoded file read back through cfdm.read."""
    if "fatal" in out or out.get("nfields") != 1:
        chk.fail("property", "reader", f"subsampled file not read as one field: {out}",
                 {"input": describe(c), "observed": out})
        return
    axes = c["axes"]
    dims = c["dims"]
    ushape = [dims[i][1] for i in axes]
    tpi = {}
    for n, i in enumerate(axes):
        if dims[i][2] is not None:
            tpi[n] = c["tpi"][dims[i][0]]
    nsd = len(tpi)
    for co in c["coords"]:
        r = out["coords"].get(co["ncvar"], {})
        if r.get("missing") or "res" not in r:
            chk.fail("property", "reader", f"coordinate {co['ncvar']} not created", {"input": describe(c), "observed": r})
            continue
        if r.get("cls") != "SubsampledArray" or r.get("tpi") != {str(k): v for k, v in tpi.items()}:
            chk.fail("property", "reader-tie-point-indices",
                     f"tie point indices as read {r.get('tpi')} ({r.get('cls')}), written {tpi}",
                     {"input": describe(c), "expected": tpi, "observed": r.get("tpi")})
        refc = reference(c["name"], co["tp"], tpi, tuple(ushape), False)
        refb = reference(c["name"], co["btp"], tpi, tuple(ushape) + (NV[nsd],), True) if co["btp"] is not None else None
        exact_c = c["mode"] == "coords"
        exact_b = c["mode"] == "bounds"
        sc = max([abs(x) for x in flat(co["tp"])] + [Fr(1)])
        sb = max([abs(x) for x in flat(co["btp"])] + [Fr(1)]) if co["btp"] is not None else Fr(1)

        def cmp(tag, exp, robs, exact, scale, what):
            o = obs_fr(robs) if robs is not None else None
            if exp is None:
                return
            if o is None:
                chk.fail("property", "reader-exception", f"{what} raised {robs}", {"input": describe(c), "observed": robs})
                return
            if o[0] != list(exp.shape):
                chk.fail("property", "shape", f"{what}: shape {o[0]}, expected {list(exp.shape)}",
                         {"input": describe(c), "expected": list(exp.shape), "observed": o[0]})
                return
            bad = diff_positions(exp, o[1], list(exp.shape), exact, scale)
            if bad:
                chk.fail("property", tag, f"{what} differs from the Appendix J reference at {bad[:3]}",
                         {"input": describe(c), "expected": [str(x) for x in flat(exp)[:40]],
                          "observed": [str(x) for x in o[1][:40]]})
            stats["file_arrays"] += 1

        cmp("value-mismatch", refc, r["res"][0], exact_c, sc, f"{co['ncvar']}.array (read from file)")
        if refb is not None:
            cmp("bounds-mismatch", refb, r["res"][1], exact_b, sb, f"{co['ncvar']}.bounds.array (read from file)")
        for op, s in zip(c["cops"], r.get("sub", [])):
            if "err" in s:
                chk.fail("property", "reader-exception", f"construct subspace {op['index']} raised {s}",
                         {"input": describe(c), "observed": s})
                continue
            pi = parse_index(op["index"], ushape)
            pos = [pos_of(p, n) for p, n in zip(pi, ushape)]
            cmp("subspace-mismatch", refc[np.ix_(*pos)], s["c"], exact_c, sc, f"{co['ncvar']}[{op['index']}].array")
            if refb is not None:
                cmp("subspace-mismatch", refb[np.ix_(*(pos + [list(range(NV[nsd]))]))], s["b"], exact_b, sb,
                    f"{co['ncvar']}[{op['index']}].bounds.array")


def run(chk, model_ok):
    rng = chk.rng
    thorough = chk.tier == "thorough"
    narr = 6000 if thorough else 1500
    nmal = 400 if thorough else 120
    nfile = 300 if thorough else 60
    cases = corpus_cases()
    weights = [f["weight"] for f in FAMILIES]
    for _ in range(narr):
        cases.append(gen_arr_case(rng, rng.choices(FAMILIES, weights)[0]))
    for _ in range(nmal):
        cases.append(mal_case(rng))
    for k in range(nfile):
        cases.append(gen_file_case(rng, k))

    nw = 14
    shards = [cases[i::nw] for i in range(nw)]
    res = lib.run_workers_parallel(
        "drive/c16.py",
        [{"cases": [to_payload(c) for c in sh], "scratch": chk.scratch, "wid": w} for w, sh in enumerate(shards)])
    outs = [None] * len(cases)
    for w, (rc, rows, err) in enumerate(res):
        if rc != 0 or len(rows) != len(shards[w]):
            chk.fail("correspondence", "worker-crash", f"C16 worker {w} failed rc={rc}: {err[-600:]}",
                     {"correspondence": "drive/c16.py"})
        for j, row in enumerate(rows[:len(shards[w])]):
            outs[w + j * nw] = row

    stats = {"ops": {}, "malformed_outcomes": {}, "tie_fail": 0, "lanes": 0, "file_arrays": 0}
    lits = []
    for c, out in zip(cases, outs):
        if out is None:
            continue
        if "fatal" in out and c["kind"] == "arr":
            if c.get("malformed"):
                stats["malformed_outcomes"]["fatal:" + out["fatal"]] = stats["malformed_outcomes"].get("fatal:" + out["fatal"], 0) + 1
                continue
            chk.fail("property", "exception:" + out["fatal"], f"building the array raised {out}", {"input": describe(c), "observed": out})
            continue
        if c["kind"] == "arr":
            check_arr(chk, c, out, lits, stats)
        else:
            check_file(chk, c, out, stats)

    ncorr = 0
    if model_ok and lits:
        bad = lib.coq_bad_indices("C16", REQ, "check_case", [l for l, _, _ in lits], chunk=80)
        ncorr = len(lits)
        shown = 0
        for i in bad:
            lit, c, explained = lits[i]
            if explained:
                continue  # the property oracle already rejected this case
            if shown < 40:
                chk.fail("correspondence", "model-vs-impl",
                         "the model and the implementation disagree on an uncompressed array or subspace",
                         {"correspondence": "C16.Run.check_case", "input": describe(c), "literal": lit[:1500]})
            shown += 1

    done = [(c, o) for c, o in zip(cases, outs) if o is not None]
    fam = {}
    for c, _ in done:
        fam[c["fam"]] = fam.get(c["fam"], 0) + 1

    def nontrivial(c):
        if c["kind"] == "file":
            return True
        return any(len(zones(t)) >= 2 for t in c["tpi"].values()) or len(c["tp"].shape) > len(c["tpi"])

    distinct = {lib.canon(describe(c)) for c, _ in done if nontrivial(c)}
    nareas = {}
    for c, _ in done:
        for t in c["tpi"].values():
            z = zones(t)
            k = f"{len(z)} subareas/{sum(1 for x in z if x[3])} continuous areas"
            nareas[k] = nareas.get(k, 0) + 1
    chk.coverage.update({
        "evaluations": sum(stats["ops"].values()) + stats["file_arrays"],
        "distinct_nontrivial": len(distinct),
        "rule": "a case is one SubsampledArray (built directly, or read from a hand-encoded CF-netCDF file) with several "
                "observations (whole array, first/last element, subspaces); non-trivial = at least two interpolation subareas "
                "along some subsampled dimension, or extra non-interpolated dimensions, or a file case; distinct = distinct canonical JSON",
        "samples": [describe(done[len(CORPUS)][0]), describe(done[len(done) // 2][0])],
        "traces_validated_against_impl": ncorr,
        "disagreements_checked": ncorr,
        "families": fam,
        "operations": stats["ops"],
        "lanes_of_extra_dimension_arrays_checked_against_model": stats["lanes"],
        "file_arrays_compared": stats["file_arrays"],
        "malformed_outcomes": stats["malformed_outcomes"],
        "subarea_layouts": dict(sorted(nareas.items(), key=lambda kv: -kv[1])[:12]),
        "tie_point_storage_types": {t: sum(1 for c, _ in done if c["kind"] == "arr" and c.get("tp_dtype") == t)
                                    for t in ("f8", "f4", "i2", "i4", "i8")},
        "non_dyadic_subarea_cases": sum(1 for c, _ in done if c["kind"] == "arr" and c["fam"].startswith("nondyadic")),
        "cases_with_descending_tie_point_indices_dict": sum(
            1 for c, _ in done if c["kind"] == "arr" and len(c.get("tpi_order", [])) == 2 and c["tpi_order"][0] > c["tpi_order"][1]),
        "cases_with_two_interpolation_parameters": sum(1 for c, _ in done if c["kind"] == "arr" and c.get("zz") is not None),
        "computational_precision_values": {str(v): sum(1 for c, _ in done if c["kind"] == "arr" and c.get("comp_prec") == v)
                                           for v in (None, "32", "64")},
        "whole_constructor_cases_checked_against_model": stats.get("c3", 0),
        "cases_with_one_point_area": sum(1 for c, _ in done if c["kind"] == "arr" and any(orphans(t) for t in c["tpi"].values())),
        "exhaustive": False,
        "historical_refutations": "C16/Refuted.v: the first/last-element shortcut on bounds tie points (F16b, F16c) as at the pinned commit",
    })
    chk.assumptions += [
        "tie points are stored as f8, f4, i2, i4 or i8 (f4: full 24-bit significands over 14 binades; i2/i4: the whole range; "
        "|i8| <= 2^40) and every stored value and every difference of two of them is a float64 number; in the exact families every "
        "subarea length (cell count for bounds) is a power of two, so that each float64 operation of the implementation is exact and "
        "the rational model must agree bit-for-bit; for other lengths (3, 5, 6, 7 intervals ...) the result must lie within "
        "2^-46 x (largest |tie point|) of the exact rational Appendix J value - the error bound of a float64 evaluation; tie points "
        "themselves must be reproduced exactly in every family",
        "the stated precision is float64 (SubsampledArray.dtype); computational_precision ('32' / '64' / unset) is carried as a case "
        "dimension and must not change the result (CF 8.3.8: the arithmetic precision should match or exceed it)",
        "every dictionary argument of SubsampledArray (tie_point_indices, parameters, parameter_dimensions) is built in a random "
        "insertion order; dependent_tie_points only occur in the trigonometric methods, which are not modelled",
        "extra non-interpolated dimensions are compared with the Coq model lane by lane (each lane a 1-d or 2-d case); the full "
        "n-d arrays are compared with the independent Python reference",
        "bounds follow cfdm's reading of CF 8.3.9: a subarea that starts a continuous area covers cells ia..ib, any other ia+1..ib, "
        "bounds points equally spaced between the two bounds tie points",
        "not modelled: quadratic_latitude_longitude, bi_quadratic_latitude_longitude (trigonometric), interpolation_subarea_flags, "
        "masked tie points, computational_precision other than float64",
    ]


def replay(chk, path):
    d = json.load(open(path))
    bad = 0
    for x in d.get("cases", []):
        c = x.get("input")
        if not c or c.get("kind") != "arr":
            continue
        rc, rows, err = lib.run_worker("drive/c16.py", {"cases": [c], "scratch": chk.scratch})
        tp = np.vectorize(lambda v: Fr(v), otypes=[object])(np.array(c["tp"], dtype=object))
        cc = dict(c, tp=tp, tpi={int(k): v for k, v in c["tpi"].items()},
                  w=None if c.get("w") is None else [Fr(v) for v in c["w"]])
        sub = lib.Check("C16", "quick")
        stats = {"ops": {}, "malformed_outcomes": {}, "tie_fail": 0, "lanes": 0, "file_arrays": 0}
        check_arr(sub, cc, rows[0] if rows else {}, [], stats)
        for f in sub.failures:
            print("FAIL", f.signature, f.what[:300])
        print(("ok   " if not sub.failures else "FAIL ") + json.dumps(c)[:200])
        bad += bool(sub.failures)
    return 1 if bad else 0
