"""C02 - the construct container keeps referential integrity over any history
(DESIGN.md section 4, C02)."""
import json
import os

import lib
from lib import gz, gstr, gbool, gopt, glist

REQ = ("From CfdmV Require Import Common.Base C02.Model C02.Run.\n"
       "Open Scope string_scope.\nOpen Scope Z_scope.")

CT = {"domain_axis": "DomainAxis", "dimension_coordinate": "DimCoord",
      "auxiliary_coordinate": "AuxCoord", "domain_ancillary": "DomainAnc",
      "field_ancillary": "FieldAnc", "cell_measure": "CellMeasure",
      "coordinate_reference": "CoordRef", "cell_method": "CellMethod"}
VIA = {"f": "VField", "d": "VDomain", "core": "VCore", None: "VField"}
ERR = {"ValueErr": "ValueErr", "IndexErr": "IndexErr", "TypeErr": "TypeErr", "KeyErr": "KeyErr",
       "OtherErr": "OtherErr"}
STD_NAMES = ("area", "time", "longitude")


# ---- Gallina printers --------------------------------------------------------
import re

_BASES = {"domainaxis": "DomainAxis", "dimensioncoordinate": "DimCoord", "auxiliarycoordinate": "AuxCoord",
          "domainancillary": "DomainAnc", "fieldancillary": "FieldAnc", "cellmeasure": "CellMeasure",
          "coordinatereference": "CoordRef", "cellmethod": "CellMethod"}
_KEY = re.compile(r"^(" + "|".join(_BASES) + r")(0|[1-9][0-9]{0,2})$")


def gkey(k):
    """A construct identifier: `K <type> <n>` (Run.K) for the usual form, a
    string literal otherwise."""
    m = _KEY.match(k)
    if m:
        return f"(K {_BASES[m.group(1)]} {int(m.group(2))})"
    return gstr(k)


def g_keys(ks):
    return glist(ks, gkey)


def g_zs(zs):
    return glist(zs, gz)


def g_payload(t, p):
    if t == "domain_axis":
        return f"(PAxis {gz(p['size'])})"
    if t == "coordinate_reference":
        ancs = p["ancs"]
        if isinstance(ancs, dict):
            ancs = sorted(ancs.items())
        return (f"(PRef {g_keys(p['coords'])} "
                f"{glist(ancs, lambda ta: '(' + gstr(ta[0]) + ', ' + gopt(ta[1], gkey) + ')')})")
    if t == "cell_method":
        return f"(PCm {g_keys([a for a in p['axes'] if a not in STD_NAMES])})"
    shape, hasdata, bnd = p.get("shape"), p.get("hasdata", True), p.get("bnd")
    if shape is None or (not hasdata and bnd is None):
        shape, hasdata, bnd = None, False, None
    return f"(PArr {gopt(shape, g_zs)} {gbool(hasdata)} {gopt(bnd, gz)})"


def norm_axes(a):
    if a is None:
        return None
    if isinstance(a, str):
        return [a]
    return list(a)


ROUTE = {"domain": "RFromConstructs", "get_domain": "RFromConstructs", "fromconstructs": "RFromConstructs",
         "fromconstructs-nocopy": "RFromConstructs", "source": "RSource"}


def g_wop(op, done=()):
    """An operation of the register language (Model.wop)."""
    if op["op"] == "view":
        return f"(TakeView {int(op['of'])} {ROUTE[op['route']]})"
    if op["op"] == "sibling":
        return "(OnSibling " + glist(list(done), lambda rn: f"({gkey(rn[0])}, {gkey(rn[1])})") + ")"
    if op.get("reg"):
        return f"(Through {int(op['reg'])} {g_op(dict(op, via='d'), done)})"
    return f"(Plain {g_op(op, done)})"


def g_op(op, done=()):
    k = op["op"]
    if k == "set":
        c = op["c"]
        return (f"(SetConstruct {VIA[op.get('via')]} {CT[c['t']]} {g_payload(c['t'], c)} "
                f"{gopt(op.get('key'), gkey)} {gopt(norm_axes(op.get('axes')), g_keys)})")
    if k == "del":
        return f"(DelConstruct {VIA[op.get('via')]} {gkey(op['key'])})"
    if k == "set_data":
        return f"(SetData {g_zs(op['shape'])} {gopt(norm_axes(op.get('axes')), g_keys)})"
    if k == "del_data":
        return "DelData"
    if k == "set_data_axes":
        return f"(SetDataAxes {VIA[op.get('via')]} {g_keys(norm_axes(op['axes']))} {gopt(op.get('key'), gkey)})"
    if k == "del_data_axes":
        return f"(DelDataAxes {VIA[op.get('via')]} {gopt(op.get('key'), gkey)})"
    if k == "copy":
        return "Copy"
    if k == "subspace":
        return f"(Subspace {glist(op['sizes'], lambda n: gopt(n, gz))})"
    if k == "squeeze":
        return f"(Squeeze {gopt(op.get('axes'), g_zs)} {gbool(op['inplace'])})"
    if k == "transpose":
        return (f"(Transpose {gopt(op.get('axes'), g_zs)} {gbool(op['constructs'])} {gbool(op['inplace'])} "
                f"{g_keys(list(done))})")
    if k == "insert_dimension":
        return (f"(InsertDimension {gopt(op.get('axis'), gkey)} {gz(op['position'])} "
                f"{gbool(op['constructs'])} {gbool(op['inplace'])} {g_keys(list(done))})")
    if k == "convert":
        return f"(Convert {gkey(op['key'])} {gbool(op['full_domain'])})"
    raise ValueError(k)


def g_state(st):
    cons = glist(st["cons"], lambda e: f"({CT[e[0]]}, {gkey(e[1])}, {g_payload(e[0], e[2])})")
    ctys = glist(st["ctypes"], lambda e: f"({gkey(e[0])}, {CT[e[1]]})")
    cax = glist(st["caxes"], lambda e: f"({gkey(e[0])}, {g_keys(e[1])})")
    return f"({cons}, {ctys}, {cax}, {gopt(st['fshape'], g_zs)}, {gopt(st['faxes'], g_keys)})"


def changed_keys(before, after):
    """Keys of the constructs whose payload or data axes differ between two
    observed states: what a loop over the metadata constructs that was left by
    an exception had already dealt with (the model's [done] argument)."""
    if before is None or after is None:
        return []
    b = {e[1]: e[2] for e in before["cons"]}
    a = {e[1]: e[2] for e in after["cons"]}
    bx = {e[0]: e[1] for e in before["caxes"]}
    ax = {e[0]: e[1] for e in after["caxes"]}
    return sorted(k for k in a if k in b and (a[k] != b[k] or ax.get(k) != bx.get(k)))


def cleaned_names(before, after):
    """(reference key, name) pairs: names that a coordinate reference held
    before and no longer holds after."""
    if before is None or after is None:
        return []
    def names(st):
        out = {}
        for t, k, p in st["cons"]:
            if t == "coordinate_reference":
                out[k] = set(p["coords"]) | {v for _, v in p["ancs"] if v}
        return out
    b, a = names(before), names(after)
    return sorted((rk, n) for rk in b if rk in a for n in b[rk] - a[rk])


def g_step(s, before=None, after=None):
    e = "None" if s["out"] == "ok" else f"(Some {ERR[s['out']]})"
    ob = "Same" if s["state"] == "same" else f"(St {g_state(s['state'])})"
    done = ()
    if s["out"] != "ok" and s["op"]["op"] in ("transpose", "insert_dimension") and s["op"].get("constructs"):
        done = changed_keys(before, after)
    if s["op"]["op"] == "sibling":
        done = cleaned_names(before, after)
    return f"({g_wop(s['op'], done)}, {e}, {ob})"


def g_case(steps):
    out = []
    cur = None
    for s in steps:
        nxt = cur if s["state"] == "same" else s["state"]
        out.append(g_step(s, cur, nxt))
        cur = nxt
    return "[" + "; ".join(out) + "]"


# ---- minimised past failures (always run first) -----------------------------------
def _ax(n):
    return {"op": "set", "via": "f", "c": {"t": "domain_axis", "size": n}, "key": None, "axes": None}


def _arr(t, shape, axes, key=None, via="f", bnd=None):
    return {"op": "set", "via": via, "c": {"t": t, "shape": shape, "hasdata": True, "bnd": bnd},
            "key": key, "axes": axes}


CORPUS = [
    # F02a: delete the coordinate, then the axis the field data still spans (cfdm route)
    ("F02a", [_ax(5), _ax(8), {"op": "set_data", "shape": [5, 8], "axes": ["domainaxis0", "domainaxis1"]},
              _arr("dimension_coordinate", [5], ["domainaxis0"]),
              {"op": "del", "via": "f", "key": "dimensioncoordinate0"},
              {"op": "del", "via": "f", "key": "domainaxis0"}]),
    # the same through the domain view; and an axis spanned by a field ancillary / named by a cell method
    ("F02a-domain", [_ax(5), _ax(8), {"op": "set_data", "shape": [5, 8], "axes": ["domainaxis0", "domainaxis1"]},
                     {"op": "del", "via": "d", "key": "domainaxis0"}]),
    ("domain-del-fieldanc", [_ax(5), _arr("field_ancillary", [5], ["domainaxis0"]),
                             {"op": "del", "via": "d", "key": "domainaxis0"}]),
    ("domain-del-cellmethod", [_ax(5), {"op": "set", "via": "f", "c": {"t": "cell_method", "axes": ["domainaxis0", "area"]},
                                        "key": None, "axes": None},
                               {"op": "del", "via": "d", "key": "domainaxis0"}]),
    # F02b: a key owned by a construct of another type
    ("F02b", [_ax(5), _arr("dimension_coordinate", [5], ["domainaxis0"]),
              _arr("cell_measure", [5], ["domainaxis0"], key="dimensioncoordinate0")]),
    ("F02b-auto", [_ax(5), _arr("dimension_coordinate", [5], ["domainaxis0"], key="cellmeasure0"),
                   _arr("cell_measure", [5], ["domainaxis0"])]),
    # replace under an existing key with another shape, axes kept
    ("replace-shape", [_ax(5), _arr("dimension_coordinate", [5], ["domainaxis0"]),
                       _arr("dimension_coordinate", [7], None, key="dimensioncoordinate0")]),
    # resize a spanned axis by replacement
    ("resize-axis", [_ax(5), _arr("dimension_coordinate", [5], ["domainaxis0"]),
                     {"op": "set", "via": "f", "c": {"t": "domain_axis", "size": 7}, "key": "domainaxis0", "axes": None}]),
    # data axes for a non-array construct
    ("axes-for-axis", [_ax(5), {"op": "set_data_axes", "via": "f", "axes": ["domainaxis0"], "key": "domainaxis0"}]),
    # field data axes naming a non-existent axis while there is no data
    ("axes-no-data", [_ax(5), {"op": "set_data_axes", "via": "f", "axes": ["nope0"], "key": None}]),
    # insert_dimension with a negative position: rejected, but the data keep the new dimension
    ("insert-negative", [_ax(5), _ax(8), _ax(1),
                         {"op": "set_data", "shape": [5, 8], "axes": ["domainaxis0", "domainaxis1"]},
                         {"op": "insert_dimension", "axis": "domainaxis2", "position": -1,
                          "constructs": False, "inplace": True}]),
    # a construct inserted without axes / whose axes were deleted: str and dump
    ("no-axes", [_ax(5), _arr("auxiliary_coordinate", [5], None),
                 _arr("field_ancillary", [5], ["domainaxis0"]),
                 {"op": "del_data_axes", "via": "f", "key": "fieldancillary0"}]),
    # deleting constructs named by a coordinate reference
    ("ref-clean", [_ax(5), _arr("dimension_coordinate", [5], ["domainaxis0"]),
                   _arr("domain_ancillary", [5], ["domainaxis0"]),
                   {"op": "set", "via": "f", "c": {"t": "coordinate_reference", "coords": ["dimensioncoordinate0"],
                                                    "ancs": {"a": "domainancillary0", "b": None}},
                    "key": None, "axes": None},
                   {"op": "del", "via": "f", "key": "domainancillary0"},
                   {"op": "del", "via": "d", "key": "dimensioncoordinate0"},
                   {"op": "del", "via": "core", "key": "nope0"}]),
    # a rejected insertion under a NEW explicit key must leave no trace of the key
    # (field and domain view: membership, look-up, len, keys)
    ("fresh-key-rejected", [_ax(5),
                            _arr("auxiliary_coordinate", [7], ["domainaxis0"], key="auxiliarycoordinate31"),
                            _arr("cell_measure", [5], ["nope0"], key="cellmeasure22"),
                            _arr("field_ancillary", [5], ["domainaxis0"], key="fieldancillary40", via="d"),
                            {"op": "set", "via": "f", "c": {"t": "domain_axis", "size": 3}, "key": "domainaxis33",
                             "axes": ["domainaxis0"]},
                            {"op": "set", "via": "d", "c": {"t": "cell_method", "axes": ["domainaxis0"]},
                             "key": "cellmethod21", "axes": None},
                            _arr("auxiliary_coordinate", [5], ["domainaxis0"], key="auxiliarycoordinate31"),
                            {"op": "copy"}]),
    # a coordinate / domain ancillary named by two or three coordinate references: every one is cleaned
    ("ref-clean-shared", [_ax(5), _arr("dimension_coordinate", [5], ["domainaxis0"]),
                          _arr("auxiliary_coordinate", [5], ["domainaxis0"]),
                          _arr("domain_ancillary", [5], ["domainaxis0"]),
                          {"op": "set", "via": "f", "c": {"t": "coordinate_reference",
                                                           "coords": ["auxiliarycoordinate0", "dimensioncoordinate0"],
                                                           "ancs": {"a": "domainancillary0"}}, "key": None, "axes": None},
                          {"op": "set", "via": "f", "c": {"t": "coordinate_reference",
                                                           "coords": ["dimensioncoordinate0"],
                                                           "ancs": {"a": "domainancillary0", "b": None}}, "key": None, "axes": None},
                          {"op": "set", "via": "f", "c": {"t": "coordinate_reference",
                                                           "coords": ["auxiliarycoordinate0", "dimensioncoordinate0"],
                                                           "ancs": {"orog": "domainancillary0"}}, "key": None, "axes": None},
                          {"op": "del", "via": "f", "key": "dimensioncoordinate0"},
                          {"op": "del", "via": "d", "key": "domainancillary0"},
                          {"op": "del", "via": "core", "key": "auxiliarycoordinate0"}]),
    # through the domain view: delete / resize an axis that only a field ancillary (or a cell method) uses
    ("domain-resize-fieldanc", [_ax(5), _ax(3), _arr("field_ancillary", [5], ["domainaxis0"]),
                                {"op": "set", "via": "d", "c": {"t": "domain_axis", "size": 6}, "key": "domainaxis0", "axes": None},
                                {"op": "del", "via": "d", "key": "domainaxis0"},
                                {"op": "set", "via": "d", "c": {"t": "domain_axis", "size": 6}, "key": "domainaxis1", "axes": None},
                                {"op": "set", "via": "f", "c": {"t": "cell_method", "axes": ["domainaxis1"]}, "key": None, "axes": None},
                                {"op": "del", "via": "d", "key": "domainaxis1"},
                                {"op": "set", "via": "d", "c": {"t": "domain_axis", "size": 6}, "key": "domainaxis1", "axes": None}]),
    # constructs=True: a construct without recorded axes stops the loop part-way (in place)
    ("constructs-loop-stops", [_ax(5), _ax(1), _ax(3),
                               {"op": "set_data", "shape": [5, 3], "axes": ["domainaxis0", "domainaxis2"]},
                               _arr("auxiliary_coordinate", [3, 5], ["domainaxis2", "domainaxis0"]),
                               _arr("cell_measure", [5, 3], None),
                               _arr("field_ancillary", [5, 3], ["domainaxis0", "domainaxis2"]),
                               {"op": "insert_dimension", "axis": "domainaxis1", "position": 1,
                                "constructs": True, "inplace": True},
                               {"op": "transpose", "axes": [2, 0, 1], "constructs": True, "inplace": True},
                               {"op": "transpose", "axes": None, "constructs": True, "inplace": False}]),
    # an axis spanned twice by the data: subspace with one / two sizes, transpose(constructs=True)
    ("axis-spanned-twice", [_ax(3), _ax(2),
                            {"op": "set_data", "shape": [3, 3, 2], "axes": ["domainaxis0", "domainaxis0", "domainaxis1"]},
                            _arr("auxiliary_coordinate", [3, 2], ["domainaxis0", "domainaxis1"]),
                            {"op": "subspace", "idx": [["s", 0, 2, None], ["s", 0, 2, None], ["s", None, None, None]]},
                            {"op": "subspace", "idx": [["s", 0, 2, None], ["s", 0, 1, None], ["s", None, None, None]]},
                            {"op": "transpose", "axes": [2, 1, 0], "constructs": True, "inplace": True}]),
    # convert of a construct without axes / without data
    ("convert-no-axes", [_ax(3), _arr("dimension_coordinate", [3], ["domainaxis0"]),
                         _arr("auxiliary_coordinate", [3], None),
                         {"op": "convert", "key": "auxiliarycoordinate0", "full_domain": True},
                         {"op": "del_data_axes", "via": "f", "key": "dimensioncoordinate0"},
                         {"op": "convert", "key": "auxiliarycoordinate0", "full_domain": False},
                         {"op": "convert", "key": "auxiliarycoordinate0", "full_domain": True}]),
    # views of views: an axis only the field's data span, deleted / resized through a nested domain
    ("nested-view-axis", [_ax(5), {"op": "set_data", "shape": [5], "axes": ["domainaxis0"]},
                          {"op": "view", "of": 0, "route": "source"},
                          {"op": "insert_dimension", "axis": None, "position": 0, "constructs": False, "inplace": True},
                          {"op": "view", "of": 0, "route": "domain"},
                          {"op": "view", "of": 2, "route": "fromconstructs"},
                          {"op": "view", "of": 1, "route": "source"},
                          {"op": "view", "of": 4, "route": "fromconstructs"},
                          {"op": "del", "via": "d", "reg": 3, "key": "domainaxis1"},
                          {"op": "del", "via": "d", "reg": 4, "key": "domainaxis1"},
                          {"op": "del", "via": "d", "reg": 5, "key": "domainaxis1"},
                          {"op": "set", "via": "d", "reg": 3, "c": {"t": "domain_axis", "size": 3}, "key": "domainaxis1", "axes": None},
                          {"op": "set", "via": "d", "reg": 5, "c": {"t": "domain_axis", "size": 2}, "key": "domainaxis0", "axes": None},
                          _arr("field_ancillary", [1], ["domainaxis1"]),
                          {"op": "del_data_axes", "via": "f", "key": None},
                          {"op": "del", "via": "d", "reg": 5, "key": "domainaxis1"},
                          {"op": "set", "via": "d", "reg": 4, "c": {"t": "domain_axis", "size": 2}, "key": "domainaxis1", "axes": None},
                          dict(_arr("auxiliary_coordinate", [5], ["domainaxis0"], via="d"), reg=5),
                          {"op": "del", "via": "d", "reg": 3, "key": "auxiliarycoordinate0"}]),
    # insert_dimension(constructs=True) leaves dimension coordinates (and their data axes) alone;
    # the field can still be copied, subspaced, transposed
    ("insert-dimension-constructs-dimcoord", [
        _ax(5), _ax(3), {"op": "set_data", "shape": [5, 3], "axes": ["domainaxis0", "domainaxis1"]},
        _arr("dimension_coordinate", [5], ["domainaxis0"], bnd=2),
        _arr("dimension_coordinate", [3], ["domainaxis1"]),
        _arr("auxiliary_coordinate", [3, 5], ["domainaxis1", "domainaxis0"]),
        _arr("cell_measure", [5], ["domainaxis0"]),
        {"op": "insert_dimension", "axis": None, "position": 1, "constructs": True, "inplace": True},
        {"op": "copy"},
        {"op": "insert_dimension", "axis": None, "position": -1, "constructs": True, "inplace": False},
        {"op": "transpose", "axes": None, "constructs": True, "inplace": False},
        {"op": "subspace", "idx": [["s", None, None, None], ["s", 0, 2, None], ["s", None, None, None], ["s", 1, 4, None]]},
        {"op": "squeeze", "axes": None, "inplace": False},
        {"op": "convert", "key": "auxiliarycoordinate0", "full_domain": True}]),
    # g = Field(source=f, copy=False): what is done to g's collection must not reach f
    ("sibling-field", [_ax(5), {"op": "set_data", "shape": [5], "axes": ["domainaxis0"]},
                       {"op": "insert_dimension", "axis": None, "position": 0, "constructs": False, "inplace": True},
                       _arr("auxiliary_coordinate", [5], ["domainaxis0"]),
                       {"op": "sibling", "ops": [{"op": "del_data_axes", "key": None, "via": "f"},
                                                 {"op": "del", "via": "f", "key": "domainaxis1"}]},
                       {"op": "sibling", "ops": [{"op": "del_data_axes", "key": None, "via": "f"}]},
                       {"op": "del", "via": "d", "key": "domainaxis1"},
                       {"op": "sibling", "ops": [{"op": "del", "via": "f", "key": "auxiliarycoordinate0"},
                                                 {"op": "del_data"},
                                                 {"op": "del_data_axes", "key": None, "via": "f"},
                                                 {"op": "set", "via": "d", "c": {"t": "domain_axis", "size": 7},
                                                  "key": "domainaxis0", "axes": None},
                                                 _arr("cell_measure", [7], ["domainaxis0"])]},
                       {"op": "copy"}]),
    # a scalar coordinate (axes=()) named by a coordinate reference: convert must carry it with the reference
    ("convert-scalar-coordinate", [_ax(3), _ax(2), _arr("dimension_coordinate", [3], ["domainaxis0"]),
                                   _arr("auxiliary_coordinate", [], []),
                                   _arr("auxiliary_coordinate", [2], ["domainaxis1"]),
                                   _arr("domain_ancillary", [], []),
                                   {"op": "set", "via": "f", "c": {"t": "coordinate_reference",
                                                                    "coords": ["auxiliarycoordinate0", "auxiliarycoordinate1",
                                                                               "dimensioncoordinate0"],
                                                                    "ancs": {"a": "domainancillary0"}},
                                    "key": None, "axes": None},
                                   {"op": "convert", "key": "dimensioncoordinate0", "full_domain": True}]),
    # two coordinate references naming the same domain ancillary, then convert(full_domain):
    # the ancillary is set twice under one key (a model slip found by the thorough tier)
    ("convert-shared-ancillary", [_ax(3), _ax(2), _arr("dimension_coordinate", [3], ["domainaxis0"]),
                                  _arr("domain_ancillary", [3, 2], ["domainaxis0", "domainaxis1"]),
                                  {"op": "set", "via": "f", "c": {"t": "coordinate_reference",
                                                                   "coords": ["dimensioncoordinate0"],
                                                                   "ancs": {"t0": "domainancillary0"}},
                                   "key": None, "axes": None},
                                  {"op": "set", "via": "f", "c": {"t": "coordinate_reference",
                                                                   "coords": ["dimensioncoordinate0"],
                                                                   "ancs": {"t0": "domainancillary0"}},
                                   "key": None, "axes": None},
                                  {"op": "convert", "key": "domainancillary0", "full_domain": True}]),
]


# ---- classification -----------------------------------------------------------------
def signature(step, b):
    """Stable class of a property failure: violated clause, operation, whether
    the call completed."""
    op = step["op"]
    name = op["op"]
    if name in ("set", "del", "set_data_axes", "del_data_axes") and op.get("via") == "d":
        name += "-via-domain"
        if any(t.startswith("through-view-depth-") and int(t.rsplit("-", 1)[1]) >= 2 for t in step.get("sit", ())):
            name += "-nested"
    return f"{b[0]}:{name}:{'completed' if step['out'] == 'ok' else 'rejected'}"


def new_failures(steps):
    """(index, step, finding) for findings that were not already present after
    the previous step; the scan of a history ends at its first failing step
    (later findings would be consequences of the broken state)."""
    prev = []
    for i, s in enumerate(steps):
        fresh = [b for b in s["bad"] if b not in prev]
        if fresh:
            return [(i, s, b) for b in fresh]
        prev = s["bad"]
    return []


def is_nontrivial(steps):
    kinds = {s["op"]["op"] for s in steps}
    return len(steps) >= 4 and len(kinds) >= 2


# ---- the check ------------------------------------------------------------------------
def drive(cases, nw=14):
    shards = [cases[i::nw] for i in range(nw)]
    shards = [sh for sh in shards if sh]
    res = lib.run_workers_parallel("drive/c02.py", [{"cases": sh} for sh in shards])
    rows = {}
    crashed = []
    for w, (rc, out, err) in enumerate(res):
        for row in out:
            rows[row["id"]] = row
        if rc != 0 or len(out) != len(shards[w]):
            crashed.append((w, rc, err[-600:]))
    return rows, crashed


def run(chk, model_ok):
    rng = chk.rng
    thorough = chk.tier == "thorough"
    cases = []
    for i, (name, ops) in enumerate(CORPUS):
        cases.append({"id": len(cases), "ops": ops, "fam": "corpus:" + name})
    n_hist = 5000 if thorough else 450
    for i in range(n_hist):
        r = rng.random()
        if r < 0.7:
            fam, nops, mal, prefix = "structured", rng.choice([10, 15, 20, 25] + ([60, 120, 200] if thorough else [])), 0.12, True
        elif r < 0.85:
            fam, nops, mal, prefix = "malformed", rng.choice([10, 20, 30]), 0.6, True
        else:
            fam, nops, mal, prefix = "from-empty", rng.choice([8, 16, 30]), 0.15, False
        cases.append({"id": len(cases), "seed": rng.randrange(1 << 30), "nops": nops,
                      "malformed": mal, "prefix": prefix, "fam": fam})

    rows, crashed = drive(cases)
    for w, rc, err in crashed:
        chk.fail("correspondence", "worker-crash", f"C02 worker {w} failed rc={rc}: {err}",
                 {"correspondence": "drive/c02.py"})
    done = []
    for c in cases:
        row = rows.get(c["id"])
        if row is None:
            continue
        if "error" in row:
            chk.fail("correspondence", "driver-error", f"driver failed on case {c['id']}: {row['error']}",
                     {"correspondence": "drive/c02.py", "input": c})
            continue
        done.append((c, row["steps"]))

    # ---- property oracle on the implementation ------------------------------------
    explained = set()
    nsteps = 0
    outcomes = {}
    opkinds = {}
    situations = {}
    for c, steps in done:
        nsteps += len(steps)
        for s in steps:
            for tag in s.get("sit", ()):
                tag = tag + (":completed" if s["out"] == "ok" else ":rejected")
                situations[tag] = situations.get(tag, 0) + 1
            if s["op"]["op"] in ("transpose", "insert_dimension") and s["op"].get("constructs"):
                tag = "constructs=True:" + ("completed" if s["out"] == "ok" else
                                            "rejected-state-changed" if s["state"] != "same" else "rejected")
                situations[tag] = situations.get(tag, 0) + 1
            key = s["op"]["op"] + ("/" + s["op"]["via"] if s["op"].get("via") in ("d", "core") else "") + \
                ("/reg" if s["op"].get("reg") else "")
            opkinds[key] = opkinds.get(key, 0) + 1
            o = "ok" if s["out"] == "ok" else "rejected:" + s["out"]
            outcomes[o] = outcomes.get(o, 0) + 1
        for i, s, b in new_failures(steps):
            explained.add(c["id"])
            chk.fail("property", signature(s, b),
                     f"after step {i} ({s['op']['op']}, {'completed' if s['out'] == 'ok' else 'rejected with ' + s['out']}): {b[1]}",
                     {"input": {"ops": [x["op"] for x in steps[:i + 1]]}, "clause": b[0],
                      "expected": "invariant (i)-(vi) of the property holds after every call",
                      "observed": b[1]})

    # ---- correspondence with the model ---------------------------------------------
    ncorr = 0
    if model_ok:
        lits = [g_case(steps) for c, steps in done]
        bad = lib.coq_bad_indices("C02", REQ, "check_case", lits, chunk=10 if thorough else 30, timeout=2400)
        ncorr = len(lits)
        shown = 0
        for i in bad:
            c, steps = done[i]
            if c["id"] in explained:
                continue
            shown += 1
            if shown > 25:
                break
            where = None
            try:
                ans = lib.coq_eval(REQ, f"first_bad_case {lits[i]}")
                where = ans
            except Exception:  # noqa
                pass
            chk.fail("correspondence", "model-vs-impl",
                     f"model and implementation disagree on a history ({c['fam']}); first bad step: {where}",
                     {"correspondence": "C02.Run.check_case", "input": {"ops": [x["op"] for x in steps]},
                      "observed": [[x["out"], x["state"]] for x in steps][-3:], "first_bad": where})

    # how many histories leave the model's scope somewhere (comparison stops there): measured on a sample
    cut_sample = None
    if model_ok and ncorr:
        sample = lits[len(CORPUS):len(CORPUS) + 150]
        cut = lib.coq_bad_indices(
            "C02", REQ,
            "(fun l => Nat.eqb (in_model_steps (map (fun x => fst (fst x)) l)) (length l))",
            sample, chunk=30)
        cut_sample = {"histories_in_sample": len(sample), "cut_by_out_of_model_step": len(cut)}

    distinct = {lib.canon([s["op"] for s in steps]) for c, steps in done if is_nontrivial(steps)}
    fam = {}
    for c, steps in done:
        f = c["fam"].split(":")[0]
        fam[f] = fam.get(f, 0) + 1
    lengths = {}
    for c, steps in done:
        b = min(len(steps) // 10 * 10, 200)
        lengths[str(b)] = lengths.get(str(b), 0) + 1
    chk.coverage.update({
        "evaluations": nsteps,
        "histories": len(done),
        "distinct_nontrivial": len(distinct),
        "rule": "a history is non-trivial when it has at least 4 steps of at least 2 different operation kinds; "
                "distinct = distinct canonical JSON of the operation list; evaluations = steps (after each one the "
                "abstract state is read back, the invariant is evaluated on the live object and repr/str/dump are run)",
        "samples": [[x["op"] for x in done[len(CORPUS)][1][:6]], [x["op"] for x in done[-1][1][:6]]] if len(done) > len(CORPUS) else [],
        "traces_validated_against_impl": ncorr,
        "disagreements_checked": ncorr,
        "families": fam,
        "history_lengths": lengths,
        "operations": dict(sorted(opkinds.items())),
        "outcomes": dict(sorted(outcomes.items())),
        "situations": dict(sorted(situations.items())),
        "exhaustive": False,
        "model_scope": cut_sample,
        "historical_refutations": "C02/Refuted.v: witnesses against the code as it stood at the pinned commit "
                                  "(F02a and its domain-view forms, F02b, replacement keeping axes, axis resize, "
                                  "axes for a non-array construct, field axes without data, insert_dimension(-1), "
                                  "str/dump of a construct without axes); seeded variants: _view_source = source (views of views), convert "
                                  "dropping scalar coordinates, Field(source=f, copy=False) sharing the container",
    })
    chk.assumptions += [
        "the abstract state is what the public API shows: constructs per type, construct_types(), data_axes(), shapes, "
        "bounds, coordinate-reference and cell-method contents, the field's data shape and data axes (Model.cstate)",
        "inserted coordinate references and cell methods are the caller's data: the container is required not to leave a "
        "name dangling by its own action (deletion, convert), not to validate what the caller inserts; generated references "
        "name coordinate constructs as coordinates and domain ancillaries as terms (C02_untyped_reference_refuted otherwise)",
        "a loop over the metadata constructs (constructs=True) that is left by an exception has dealt with an "
        "order-dependent subset of the constructs (python set order): the model takes the subset from the observed state "
        "and is proved for every subset",
        "dictionaries and lists returned by construct_types(), data_axes(), todict(), get_data_axes() are overwritten "
        "after every read, so a returned alias of the container's state would corrupt the next observation",
        "the history language has registers: the field, views of it taken by f.domain / get_domain() / "
        "Domain.fromconstructs(x.constructs) / Domain(source=x, copy=False) from any register (depth up to 4), and "
        "set/del construct and set/del data axes issued through any register; registers are dropped when the field "
        "variable is rebound to a derived field",
        "g = Field(source=f, copy=False) shares the construct and data OBJECTS with f by request: only container-level "
        "calls are made on g (no in-place transposition / squeeze of shared data); what they may do to f is remove "
        "names from shared coordinate reference objects (observed and handed to the model; proved harmless for any list)",
        "Constructs.replace() is documented as unchecked and is not an operation of the model; constructs fetched by "
        "reference and then mutated directly (f.domain_axis(k).set_size(9)) are outside the listed API",
        "index semantics of f[...] are taken from numpy (the size each index selects); property C03 covers them",
        "Constructs._field_data_axes is assumed equal to the field's data_axes component (it is private; the repaired "
        "del_data_axes keeps it in step)",
        "construct keys used by the generator end in digits (str/dump derive a suffix from them)",
    ]


def replay(chk, path):
    d = json.load(open(path))
    bad = 0
    cases = []
    for x in d.get("cases", []):
        inp = x.get("input") or {}
        if "ops" in inp:
            cases.append({"id": len(cases), "ops": inp["ops"]})
    rows, crashed = drive(cases, nw=4)
    for c in cases:
        row = rows.get(c["id"])
        if row is None or "error" in row:
            print("FAIL (driver)", row)
            bad += 1
            continue
        nf = new_failures(row["steps"])
        for i, s, b in nf:
            print(f"FAIL step {i} {json.dumps(s['op'])} -> {s['out']}: [{b[0]}] {b[1]}")
        if not nf:
            print("ok  ", len(row["steps"]), "steps")
        bad += bool(nf)
    return 1 if bad else 0
