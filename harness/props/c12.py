"""C12 - backends and lazy access give the same data as eager access (DESIGN.md section 4, C12)."""
import json

import numpy as np

import lib
from lib import gz, gnat, gbool, gopt, glist
from props import c03 as C03

REQ = "From CfdmV Require Import Common.Base C03.Model C12.Model C12.Run."
DEPENDS = ["C03"]
BACKENDS = [None, "netCDF4", "h5netcdf"]
CLS = {None: "NetCDF4Array", "netCDF4": "NetCDF4Array", "h5netcdf": "H5netcdfArray"}
COUNT_ROLES = ("RCount", "RIndex", "RNodeCount", "RPartNodeCount")

TAGS = ["i1", "i2", "i4", "i8", "u1", "u2", "u4", "u8", "f4", "f8"]
CODE = {t: k for k, t in enumerate(TAGS)}
NPNAME = {"i1": "int8", "i2": "int16", "i4": "int32", "i8": "int64", "u1": "uint8", "u2": "uint16", "u4": "uint32",
          "u8": "uint64", "f4": "float32", "f8": "float64"}
TAG_OF = {v: k for k, v in NPNAME.items()}
CTOR = {t: t.upper() for t in TAGS}          # Gallina constructor of Model.dt
NOT_INTEGRAL = 1000003                       # stands for "a value that is neither 0 nor 1" in a Gallina pack


# the _FillValue each stored type is written with (the same table as in drive/c12.py)
FILLS = {"i1": -99, "u1": 250, "u2": 60000, "u4": 60000, "u8": 60000}
OPTS = [{"mask": True, "unpack": True}, {"mask": False, "unpack": True}, {"mask": True, "unpack": False},
        {"mask": False, "unpack": False}]


def fill_of(tag):
    return FILLS.get(tag, -999)


def optkey(o):
    o = o or {}
    return ("m" if o.get("mask", True) else "-") + ("u" if o.get("unpack", True) else "-")


def rand_opts(rng):
    """The read options of a case: the defaults 40 % of the time, else one of the three other combinations."""
    return dict(OPTS[0]) if rng.random() < 0.4 else dict(rng.choice(OPTS[1:]))


def ex(v, key):
    """What eager access under the read options `key` sees of variable v: (flat, dtype tag)."""
    e = v["exp"][key]
    return e["flat"], e["dtype"]


def pk(unsigned=False, scale=None, offset=None):
    return {"unsigned": unsigned, "scale": scale, "offset": offset}


# minimised earlier failures (run first)
_EQ_OWN_COPY = [["copy", 0], ["tomem", 1], ["eq", 0, 1], ["eq", 1, 0], ["arr", 0],
                ["sub", 0, [["list", [1, 0]]]], ["arr", 2], ["first", 0]]
_COPY_FIRST = [["copy", 0], ["sub", 1, [["slice", 1, 3, None]]], ["arr", 2], ["eq", 0, 1], ["arr", 1], ["tomem", 1],
               ["arr", 1], ["eq", 1, 0], ["arr", 0]]
CORPUS_OPS = [
    # seed C12-s5: a copy of a file array must keep the read options (run under all four combinations):
    # copy, then subspace of the copy, then its array - before anything else has been fetched
    {"vars": [{"name": "a", "shape": [4], "flat": [1, 2, None, 4], "dtype": "i2", "pack": pk(scale=["f4", 2], offset=["f4", 7])}],
     "heap": ["a"], "ops": _COPY_FIRST},
    # F12e / seed C12-s3: packed variables whose declared data type must be the realised one
    # (short data, float32 scale_factor 2, float64 add_offset exactly 0: float64)
    {"vars": [{"name": "a", "shape": [3], "flat": [4, -5, 6], "dtype": "i2", "pack": pk(scale=["f4", 2], offset=["f8", 0])}],
     "heap": ["a"], "ops": _EQ_OWN_COPY},
    # (only add_offset = 0.0: no arithmetic, the type the arithmetic would have given)
    {"vars": [{"name": "a", "shape": [3], "flat": [4, None, 6], "dtype": "i2", "pack": pk(offset=["f8", 0])}],
     "heap": ["a"], "ops": _EQ_OWN_COPY},
    # (scale_factor exactly 1 AND add_offset exactly 0: cast to the type of the scale_factor alone)
    {"vars": [{"name": "a", "shape": [3], "flat": [4, -5, 6], "dtype": "i2", "pack": pk(scale=["f4", 1], offset=["f8", 0])}],
     "heap": ["a"], "ops": _EQ_OWN_COPY},
    {"vars": [{"name": "a", "shape": [3], "flat": [4, 5, 6], "dtype": "i4", "pack": pk(scale=["f4", 1])}],
     "heap": ["a"], "ops": _EQ_OWN_COPY},
    # (_Unsigned alone, and with integer packing attributes)
    {"vars": [{"name": "a", "shape": [3], "flat": [-1, 5, None], "dtype": "i1", "pack": pk(unsigned=True)}],
     "heap": ["a"], "ops": _EQ_OWN_COPY},
    {"vars": [{"name": "a", "shape": [3], "flat": [-3, 5, 6], "dtype": "i2", "pack": pk(unsigned=True, scale=["i2", 3], offset=["f4", 0])}],
     "heap": ["a"], "ops": _EQ_OWN_COPY},

    # F12b: the fetch raises (out-of-range list reaches dask's normalize_index with the file open)
    {"vars": [{"name": "a", "shape": [3, 4], "flat": list(range(12))}], "heap": ["a"],
     "ops": [["sub", 0, [["list", [0, 9]], ["slice", None, None, None]]], ["arr", 0],
             ["sub", 0, [["slice", None, None, None], ["list", [3, 0, 3]]]], ["arr", 1]]},
    # a missing file: nothing is opened, every access raises, the parse errors still come first
    {"vars": [{"name": "a", "shape": [2], "flat": [1, None]}], "heap": ["a", "?2"],
     "ops": [["arr", 1], ["first", 1], ["sub", 1, [["int", 0], ["int", 0]]], ["eq", 0, 1], ["copy", 1], ["arr", 2],
             ["set", 1, [["int", 0]], 5], ["tomem", 1]]},
]


# ---------------------------------------------------------------- printers
def g_oz(x):
    return "None" if x is None else f"(Some {gz(x)})"


def g_op(o):
    k = o[0]
    if k == "copy":
        return f"(OCopy {gnat(o[1])})"
    if k == "sub":
        return f"(OSub {gnat(o[1])} {glist(o[2], C03.g_index)})"
    if k == "tomem":
        return f"(OToMem {gnat(o[1])})"
    if k == "arr":
        return f"(OArr {gnat(o[1])})"
    if k == "set":
        return f"(OSet {gnat(o[1])} {glist(o[2], C03.g_index)} {g_oz(o[3])})"
    if k == "first":
        return f"(OFirst {gnat(o[1])})"
    if k == "eq":
        return f"(OEq {gnat(o[1])} {gnat(o[2])})"
    raise ValueError(o)


def g_dt(npname):
    return CTOR.get(TAG_OF.get(str(npname), "f8"), "F8")


def g_attr(a):
    if not a:
        return "None"
    v = a[1]
    v = int(v) if float(v).is_integer() else NOT_INTEGRAL
    return f"(Some ({CODE[a[0]]}%Z, {gz(v)}))"


def g_pack(p):
    p = p or {}
    return f"({gbool(bool(p.get('unsigned')))}, {g_attr(p.get('scale'))}, {g_attr(p.get('offset'))})"


def g_flat_oz(x):
    # (an observed value that is not an integer is printed as a number no model value equals)
    return g_oz(x) if (x is None or isinstance(x, int)) else "(Some 999999937%Z)"


def g_obs(o):
    if "none" in o:
        return "ONone"
    if "arr" in o:
        return f"(OArray {glist(o['arr']['shape'], gz)} {g_dt(o['arr'].get('dtype'))} {glist(o['arr']['flat'], g_flat_oz)})"
    if "bool" in o:
        return f"(OBool {gbool(o['bool'])})"
    return f"(OErr {o['err']})"


def g_event(e):
    if e[0] == "open":
        return f"(EOpen {gz(e[1])})"
    if e[0] == "close":
        return f"(EClose {gz(e[1])})"
    return f"(EFetch {gz(e[1])} {gz(e[2])} {glist(e[3], lambda p: glist(p, gnat))})"


# ---------------------------------------------------------------- index generation
def rand_axis_index(rng, n):
    """An index for an axis of size n: in range, never an empty sequence, never a negative-step
    slice starting below -n (both are C03 findings about dependencies, not re-reported here)."""
    if n == 0:
        return ["slice", rng.choice([None, 0]), rng.choice([None, 0, 1]), rng.choice([None, 1, 2])]
    while True:
        i = C03.rand_axis_index(rng, n)
        if i[0] == "list" and not i[1]:
            continue
        if i[0] == "bool" and not any(i[1]):
            continue
        if i[0] == "slice" and i[3] is not None and i[3] < 0 and i[1] is not None and i[1] < -n:
            continue
        return i


def rand_idx(rng, shape, prefer_lists=False):
    idx = []
    for n in shape:
        while True:
            i = rand_axis_index(rng, n)
            if not prefer_lists or i[0] in ("list", "bool") or rng.random() < 0.4:
                break
        idx.append(i)
    r = rng.random()
    if r < 0.15 and shape:
        idx = idx[:rng.randint(0, len(shape))]
    elif r < 0.3:
        a = rng.randint(0, len(idx))
        b = rng.randint(a, len(idx))
        idx = idx[:a] + [["ellipsis"]] + idx[b:]
    return idx


def malformed_idx(rng, shape):
    kind = rng.choice(["too_many", "bool_len", "list_oob", "list_oob", "list_oob2"])
    idx = [rand_axis_index(rng, n) for n in shape]
    if kind == "too_many" or not shape:
        return idx + [["int", 0]], "too_many"
    k = rng.randrange(len(shape))
    n = shape[k]
    if kind == "bool_len":
        idx[k] = ["bool", [True] * (n + rng.choice([1, 2]))]
    elif kind == "list_oob":
        idx[k] = ["list", [0, rng.choice([n, n + 1, -n - 1])]]
    else:
        idx[k] = ["list", [rng.choice([n, n + 2]), 0, 0]]
    return idx, kind


# ---------------------------------------------------------------- numpy oracle for a history
class OCell:
    def __init__(self, shape, flat, missing=False, disk=True, dtype="i8"):
        self.shape, self.flat, self.missing, self.disk, self.dtype = list(shape), list(flat), missing, disk, dtype
        self.origin = None     # index of the starting object this one is a copy (of a copy ...) of

    def size(self):
        return int(np.prod(self.shape)) if self.shape else 1


def oracle_step(heap, op):
    """Expected observation of one operation under eager numpy semantics.  Mutates the heap.
    Returns (obs | {"err": None}, info) where info describes the expected fetch."""
    k = op[0]
    c = heap[op[1]]
    info = {"disk": c.disk, "missing": c.missing, "want": None}
    if k == "copy":
        heap.append(OCell(c.shape, c.flat, c.missing, c.disk, c.dtype))
        heap[-1].origin = c.origin
        info["disk"] = False
        return {"none": True}, info
    if k == "sub":
        poss = C03.oracle_positions(c.shape, op[2])
        if poss is None:
            info["want"] = "error"
            return {"err": None}, info
        if c.missing:
            return {"err": "OtherErr"}, info
        r = C03.oracle_get(c.shape, c.flat, op[2])
        heap.append(OCell(r["shape"], r["flat"], False, False, c.dtype))
        info["want"] = poss
        return {"none": True}, info
    if k in ("tomem", "arr"):
        if c.missing:
            return {"err": "OtherErr"}, info
        info["want"] = [list(range(n)) for n in c.shape]
        if k == "tomem":
            c.disk = False
            return {"none": True}, info
        return {"arr": {"shape": c.shape, "flat": c.flat, "dtype": NPNAME[c.dtype]}}, info
    if k == "set":
        poss = C03.oracle_positions(c.shape, op[2])
        if poss is None:
            info["want"] = "error"
            return {"err": None}, info
        if c.missing:
            return {"err": "OtherErr"}, info
        info["want"] = [list(range(n)) for n in c.shape]
        value = "masked" if op[3] is None else {"shape": [], "flat": [op[3]]}
        r = C03.oracle_set(c.shape, c.flat, op[2], value)
        c.flat = r["flat"]
        c.disk = False
        return {"none": True}, info
    if k == "first":
        if c.missing:
            return {"err": "OtherErr"}, info
        if c.size() == 0:
            info["want"] = [list(range(min(1, n))) for n in c.shape]
            return {"err": "ValueErr"}, info
        info["want"] = [[0] for _ in c.shape]
        # .item(): a Python int or float; numpy's masked constant is a float64
        kind = "float64" if (c.flat[0] is None or c.dtype[0] == "f") else "int64"
        return {"arr": {"shape": [], "flat": [c.flat[0]], "dtype": kind}}, info
    if k == "eq":
        d = heap[op[2]]
        if op[1] == op[2]:
            info["disk"] = False
            return {"bool": True}, info
        if c.shape != d.shape:
            info["disk"] = False
            return {"bool": False}, info
        if c.dtype != d.dtype:
            # different data types: not equal, and nothing needs to be fetched to know it
            info["disk"] = False
            return {"bool": False}, info
        if c.missing or d.missing:
            info["want"] = "some"
            return {"err": "OtherErr"}, info
        info["want"] = "both"
        info["disk2"] = d.disk
        return {"bool": c.flat == d.flat}, info
    raise ValueError(op)


def is_plain(v):
    p = v.get("pack") or {}
    return not (p.get("unsigned") or p.get("scale") or p.get("offset"))


def plain_fallback(v):
    """A plain int64 variable of the same shape (stands in for a variable whose eager reference is not exact)."""
    n = int(np.prod(v["shape"])) if v["shape"] else 1
    w = {"name": v["name"], "shape": v["shape"], "flat": [(5 * k) % 23 - 7 for k in range(n)], "dtype": "i8", "pack": None}
    if v.get("group"):
        w["group"] = v["group"]
    set_plain_exp(w)
    return w


def set_plain_exp(v):
    """A variable without packing attributes is its own reference; unmasked, a missing element shows the fill value."""
    fill = fill_of(v["dtype"])
    v["exp"] = {}
    for o in OPTS:
        v["exp"][optkey(o)] = {"flat": [x if (x is not None or o["mask"]) else fill for x in v["flat"]],
                               "dtype": v["dtype"]}
    v["exp_flat"], v["exp_dtype"] = ex(v, "mu")


def usable(flat, raw, tag):
    """Integral values, exact in their type and inside the int64 range the numpy oracle of the histories uses."""
    if tag not in CODE or len(flat) != len(raw):
        return False
    lim = {"f4": 2 ** 24, "f8": 2 ** 53}.get(tag, 2 ** 62)
    return all(isinstance(y, int) and abs(y) < lim for y in flat)


def resolve_vars(var_lists):
    """Fill in what eager access sees (exp_flat, exp_dtype) for every variable of every file, in place.
    For a variable without packing attributes that is what is stored.  For a packed or unsigned variable
    the reference is obtained from the tree under test: netcdf_indexer applied to the whole array in
    memory (worker mode "unpack") - NOT from a packing rule written down here: which type and values
    unpacking gives is C07's subject, C12's is that lazy access gives the same as eager access.
    Returns the number of variables replaced because their reference was not exact."""
    todo = []
    for vs in var_lists:
        for v in vs:
            if "twin_values_of" in v or "twin_of" in v:
                continue
            v.setdefault("dtype", "i8")
            v.setdefault("pack", None)
            if is_plain(v):
                set_plain_exp(v)
            else:
                todo.append(v)
    replaced = 0
    if todo:
        rc, out, err = lib.run_worker("drive/c12.py", {"mode": "unpack", "vars": [
            {"dtype": v["dtype"], "pack": v["pack"], "shape": v["shape"], "flat": v["flat"]} for v in todo]})
        rows = {r["i"]: r for r in out if isinstance(r, dict) and "i" in r}
        if rc != 0 or len(rows) != len(todo):
            raise RuntimeError("C12 unpack reference worker failed: rc=%s %s" % (rc, err[-400:]))
        for k, v in enumerate(todo):
            r = rows[k]
            good = "err" not in r and len(r.get("opt", {})) == 4
            for key, e in (r.get("opt") or {}).items():
                vals = [y for y in e["flat"] if y is not None]
                good = good and usable(vals, vals, e["dtype"]) and len(e["flat"]) == len(v["flat"])
                if key[0] == "m":
                    # masking on: exactly the elements written as the fill value are missing
                    good = good and [y is None for y in e["flat"]] == [x is None for x in v["flat"]]
                else:
                    good = good and all(y is not None for y in e["flat"])
            if not good:
                v["__bad"] = True
                continue
            v["exp"] = r["opt"]
            v["exp_flat"], v["exp_dtype"] = ex(v, "mu")
    for vs in var_lists:
        for k, v in enumerate(vs):
            if v.get("__bad"):
                vs[k] = plain_fallback(v)
                replaced += 1
        for k, v in enumerate(vs):
            if "twin_of" in v:
                src = vs[v.pop("twin_of")]
                for key in ("shape", "flat", "dtype", "pack", "exp_flat", "exp_dtype", "exp"):
                    v[key] = json.loads(json.dumps(src[key]))
            elif "twin_values_of" in v:
                # the same VALUES with another data type: equal values, different types, so equals must say
                # False before and after either is brought into memory
                src = vs[v.pop("twin_values_of")]
                ok = src["exp_dtype"] != "f8" and all(x is None or 0 <= x < 100 for x in src["exp_flat"])
                if ok:
                    v.update({"shape": src["shape"], "flat": list(src["exp_flat"]), "dtype": "f8", "pack": None})
                    set_plain_exp(v)
                else:
                    v["__drop"] = True
        vs[:] = [v for v in vs if not v.get("__drop")]
    return replaced


def rand_attr(rng, trivial_value, values):
    tag = rng.choice(["f4", "f4", "f8", "f8", "f8"] + TAGS)
    if rng.random() < 0.4:
        return [tag, trivial_value]
    x = rng.choice(values)
    if tag[0] == "u":
        x = abs(x)
    return [tag, x]


def rand_typed_var(rng, name, shape):
    """A variable of a random numeric type with random packing attributes (every combination of
    types; scale_factor one / not one; add_offset zero / not zero; only one of them; _Unsigned)."""
    dt = rng.choice(["i1", "i2", "i2", "i4", "i4", "i8", "u1", "u2", "u4", "u8", "f4", "f8"])
    r = rng.random()
    unsigned = dt in ("i1", "i2", "i4") and rng.random() < 0.25
    if r < 0.12:
        pack = pk(unsigned=unsigned)
    else:
        which = rng.choice(["both", "both", "both", "scale", "offset"])
        pack = pk(unsigned=unsigned,
                  scale=rand_attr(rng, 1, [2, 3]) if which != "offset" else None,
                  offset=rand_attr(rng, 0, [5, 7, -4]) if which != "scale" else None)
    n = int(np.prod(shape)) if shape else 1
    # (no negative stored value where a conversion to an unsigned type could come in: 2**64 - 3 is not a
    #  float64, 2**32 - 3 not a float32)
    utyped = any(a and a[0][0] == "u" for a in (pack["scale"], pack["offset"]))
    lo = 0 if (dt[0] == "u" or utyped or (unsigned and dt == "i4")) else -20
    flat = [lo + (7 * k + rng.randint(0, 3)) % 41 for k in range(n)]
    if shape and rng.random() < 0.4:
        for j in range(n):
            if rng.random() < 0.2:
                flat[j] = None
    return {"name": name, "shape": shape, "flat": flat, "dtype": dt, "pack": pack}


def rand_file(rng):
    """The variables of one file; exp_flat / exp_dtype are filled in afterwards by resolve_vars."""
    nv = rng.randint(2, 4)
    vars_ = []
    for k in range(nv):
        shape = C03.rand_shape(rng, max_rank=3)
        if rng.random() < 0.45:
            flat = C03.rand_flat(rng, shape, bool(shape) and rng.random() < 0.4)
            v = {"name": "v%d" % k, "shape": shape, "flat": flat, "dtype": "i8", "pack": None}
        else:
            v = rand_typed_var(rng, "v%d" % k, shape)
        if rng.random() < 0.2:
            v["group"] = rng.choice(["g1", "g1/g2"])
        vars_.append(v)
    if rng.random() < 0.5:
        # a twin with the same values (equals -> True needs two different variables)
        vars_.append({"name": "tw", "twin_of": rng.randrange(len(vars_))})
    elif rng.random() < 0.5:
        vars_.append({"name": "tw", "twin_values_of": rng.randrange(len(vars_))})
    return {"vars": vars_}


def vname(v):
    return ("/" + v["group"] + "/" if v.get("group") else "") + v["name"]


def rand_history(rng, spec, nops, key="mu"):
    """(heap description, ops) with every operand index valid according to the oracle; `key`: the read
    options.  Half of the histories begin with copy -> subspace of the copy -> its array, before anything
    else has been fetched."""
    vs = spec["vars"]
    heap_desc, heap = [], []
    for _ in range(rng.randint(1, 3)):
        if rng.random() < 0.08:
            shape = C03.rand_shape(rng, max_rank=2)
            heap_desc.append({"missing": True, "shape": shape})
            heap.append(OCell(shape, [0] * (int(np.prod(shape)) if shape else 1), True, True))
        else:
            v = rng.choice(vs)
            heap_desc.append({"var": vname(v)})
            heap.append(OCell(v["shape"], ex(v, key)[0], dtype=ex(v, key)[1]))
    ops = []
    if rng.random() < 0.5:
        i0 = rng.randrange(len(heap))
        pre = [["copy", i0], ["sub", len(heap), rand_idx(rng, heap[i0].shape, prefer_lists=rng.random() < 0.5)]]
        oracle_step(heap, pre[0])
        ops.append(pre[0])
        if "err" not in oracle_step(heap, pre[1])[0]:
            ops.append(pre[1])
            pre.append(["arr", len(heap) - 1])
            oracle_step(heap, pre[2])
            ops.append(pre[2])
        else:
            ops.append(pre[1])
    for _ in range(nops):
        i = rng.randrange(len(heap))
        # prefer objects still on disk
        for _t in range(2):
            if not heap[i].disk:
                i = rng.randrange(len(heap))
        c = heap[i]
        r = rng.random()
        if r < 0.34:
            if rng.random() < 0.1:
                idx, _k = malformed_idx(rng, c.shape)
            else:
                idx = rand_idx(rng, c.shape, prefer_lists=rng.random() < 0.5)
            op = ["sub", i, idx]
        elif r < 0.46:
            op = ["arr", i]
        elif r < 0.56:
            op = ["copy", i]
        elif r < 0.66:
            op = ["tomem", i]
        elif r < 0.78:
            idx = rand_idx(rng, c.shape, prefer_lists=rng.random() < 0.3)
            if rng.random() < 0.08:
                # (out-of-range lists in assignments are C03's business: numpy semantics there)
                idx, _k = malformed_idx(rng, c.shape)
                if _k.startswith("list_oob"):
                    idx = idx + [["int", 0]] * (len(c.shape) + 1)
            # (cfdm.masked is not assigned to 0-d data: subspacing a masked 0-d array in memory turns
            #  its data type into float64 - numpy's masked constant - which is not about files at all)
            val = rng.randint(1, 9) if c.dtype[0] == "u" else rng.randint(-9, -1)
            op = ["set", i, idx, None if (rng.random() < 0.3 and c.shape) else val]
        elif r < 0.88:
            op = ["first", i]
        else:
            j = rng.randrange(len(heap))
            same = [k for k, d in enumerate(heap) if d.shape == c.shape and k != i]
            if same and rng.random() < 0.7:
                j = rng.choice(same)
            op = ["eq", i, j]
        oracle_step(heap, op)
        ops.append(op)
    return heap_desc, ops


# ---------------------------------------------------------------- traces
def positions_of(idx, shape):
    """Per-axis positions of an index handed to a file array (slices, lists; '...' = everything)."""
    if idx == "...":
        return [list(range(n)) for n in shape]
    out = []
    dims = list(shape)
    k = 0
    for i in idx:
        if i == "...":
            return None
        n = dims[k]
        k += 1
        if i[0] == "slice":
            if i[3] == 0:
                return None
            out.append(list(range(*slice(i[1], i[2], i[3]).indices(n))))
        elif i[0] == "list":
            if any(not (-n <= x < n) for x in i[1]):
                return None
            out.append([x % n for x in i[1]])
        else:
            if not (-n <= i[1] < n):
                return None
            out.append([i[1] % n])
    if k != len(dims):
        return None
    return out


def to_trace(log, var_ids, missing_name):
    """Model events of the calls logged during one operation, and per-call summaries."""
    events, calls = [], []
    cur = None
    for e in log:
        if e["e"] == "raw" and cur is None:
            continue
        if e["e"] == "get":
            cur = {"var": e["var"], "file": e["file"], "idx": e["idx"], "shape": e["shape"],
                   "open": 0, "close": 0}
        elif cur is None:
            events.append(("stray", e["e"]))
        elif e["e"] == "open":
            cur["open"] += 1
        elif e["e"] == "close":
            cur["close"] += 1
        elif e["e"] == "raw":
            cur["raw"] = cur.get("raw", 0) + e["size"]
        else:
            f = 1 if (cur["file"] or "").endswith(missing_name) else 0
            v = var_ids.get(cur["var"], 0) if f == 0 else 0
            for _ in range(cur["open"]):
                events.append(("open", f))
            poss = None
            if e["e"] == "ret":
                poss = positions_of(cur["idx"], cur["shape"])
                events.append(("fetch", f, v, poss if poss is not None else [[4999]]))
            for _ in range(cur["close"]):
                events.append(("close", f))
            cur.update({"ret": e["e"] == "ret", "poss": poss, "rshape": e.get("shape"), "rsize": e.get("size")})
            calls.append(cur)
            cur = None
    return events, calls


# ---------------------------------------------------------------- hand-encoded datasets for read
def hand_plain(rng, grouped=False):
    nx, ny = rng.randint(2, 5), rng.randint(1, 4)
    dims = {"x": nx, "y": ny, "bnd": 2, "strlen": 6}
    g = "grp" if grouped else None
    fl = lambda n, lo=0: [float(lo + k) + 0.5 for k in range(n)]  # noqa: E731
    packed = [int(rng.randint(-20, 20)) for _ in range(nx * ny)]
    if rng.random() < 0.7:
        packed[rng.randrange(len(packed))] = -99
    vars_ = [
        {"name": "x", "dims": ["x"], "dtype": "f8", "values": fl(nx), "attrs": {"standard_name": "longitude", "units": "degrees_east", "bounds": "x_bnds"}},
        {"name": "x_bnds", "dims": ["x", "bnd"], "dtype": "f8", "values": [v for k in range(nx) for v in (k, k + 1.0)]},
        {"name": "y", "dims": ["y"], "dtype": "f8", "values": fl(ny, 10), "attrs": {"standard_name": "latitude", "units": "degrees_north"}},
        {"name": "height", "dims": [], "dtype": "f8", "values": [2.0], "attrs": {"standard_name": "height", "units": "m"}},
        {"name": "t0", "dims": [], "dtype": "i4", "values": [rng.randint(0, 99)], "attrs": {"standard_name": "time", "units": "days since 2000-01-01"}},
        {"name": "label", "dims": ["strlen"], "dtype": "char", "values": ["site_%d" % rng.randint(0, 9)], "attrs": {"long_name": "site label"}},
        {"name": "lat2", "dims": ["y", "x"], "dtype": "f4", "values": fl(nx * ny, 100), "attrs": {"long_name": "two-d aux", "units": "1"}},
        {"name": "cellarea", "dims": ["y", "x"], "dtype": "f8", "values": fl(nx * ny, 1000), "attrs": {"standard_name": "cell_area", "units": "m2"}},
        {"name": "flag0", "dims": [], "dtype": "i2", "values": [rng.randint(0, 3)], "attrs": {"long_name": "zero-d ancillary", "units": "1"}},
        {"name": "flag1", "dims": ["x"], "dtype": "i1", "values": [rng.randint(0, 3) for _ in range(nx)], "attrs": {"long_name": "one-d ancillary"}},
        {"name": "tas", "dims": ["y", "x"], "dtype": "f8", "values": fl(nx * ny, 270), "group": g,
         "attrs": {"standard_name": "air_temperature", "units": "K", "coordinates": "height t0 label lat2",
                   "cell_measures": "area: cellarea", "ancillary_variables": "flag0 flag1",
                   "missing_value": 270.5 + rng.randrange(nx * ny)}},
        {"name": "pr", "dims": ["y", "x"], "dtype": "i2", "values": packed,
         "attrs": {"standard_name": "precipitation_flux", "units": "kg m-2 s-1", "scale_factor": {"v": 0.5, "dtype": "f8"},
                   "add_offset": {"v": 10.0, "dtype": "f8"}, "_FillValue": -99, "valid_min": {"v": -18, "dtype": "i2"},
                   "coordinates": "height"}},
        {"name": "scalar_field", "dims": [], "dtype": "f8", "values": [42.25], "attrs": {"standard_name": "surface_altitude", "units": "m"}},
        {"name": "ub", "dims": ["x"], "dtype": "i1", "values": [rng.choice([-1, -2, 3, 100, -128]) for _ in range(nx)],
         "attrs": {"long_name": "unsigned bytes", "_Unsigned": "true", "_FillValue": -1}},
    ]
    return {"kind": "hand", "label": "plain-grouped" if grouped else "plain", "packed": True, "dims": dims,
            "gattrs": {"Conventions": "CF-1.11"}, "vars": vars_}


def A(v, dtype):
    return {"v": v, "dtype": dtype}


def rand_packing_attrs(rng, stored):
    """scale_factor / add_offset / _Unsigned attributes for a hand-encoded variable: every pairing of
    attribute types, values one / zero / other (also non-integral), only one of the two attributes."""
    attrs = {}
    which = rng.choice(["both", "both", "both", "scale", "offset", "none"])
    atypes = ["f4", "f8", "f8", "i2", "i4"]
    unsigned = stored in ("i1", "i2", "i4") and rng.random() < 0.3
    if unsigned:
        # (a scale of one WITH an offset of zero casts the unsigned view to the scale_factor's type, which then has
        #  to hold it: netcdf_indexer wraps 65531 back to -5 for an int16 scale_factor where netCDF4-python keeps
        #  uint16 - a difference in unpacking, C07's subject, identical lazily and eagerly; since repository commit
        #  0554e88 a single attribute at its identity value no longer does this)
        atypes = ["f8"] if stored == "i4" else ["f4", "f8", "f8", "i4"]
    if which in ("both", "scale"):
        t = rng.choice(atypes)
        attrs["scale_factor"] = A(rng.choice([1, 1, 2, 3] if t[0] == "i" else [1.0, 1.0, 0.5, 2.0, 0.25]), t)
    if which in ("both", "offset"):
        t = rng.choice(atypes)
        attrs["add_offset"] = A(rng.choice([0, 0, 7, -4] if t[0] == "i" else [0.0, 0.0, 10.5, -3.0]), t)
    if unsigned:
        attrs["_Unsigned"] = "true"
    return attrs


def hand_packed(rng):
    """Packed and unsigned variables in every role: data variables (also zero-dimensional), dimension
    coordinate with bounds, auxiliary coordinate, scalar coordinate, cell measure, ancillary variables."""
    nx, ny = rng.randint(2, 4), rng.randint(1, 3)
    dims = {"x": nx, "y": ny, "bnd": 2}
    ints = lambda n, lo=-5: [lo + 3 * k for k in range(n)]  # noqa: E731
    common = {"coordinates": "height lat2", "cell_measures": "area: cellarea", "ancillary_variables": "flag1 anc2"}
    vars_ = [
        {"name": "x", "dims": ["x"], "dtype": "i2", "values": ints(nx, 0),
         "attrs": {"standard_name": "longitude", "units": "degrees_east", "bounds": "x_bnds", "scale_factor": A(0.5, "f4")}},
        {"name": "x_bnds", "dims": ["x", "bnd"], "dtype": "i2", "values": [v for k in range(nx) for v in (3 * k - 1, 3 * k + 2)],
         "attrs": {"scale_factor": A(0.5, "f4")}},
        {"name": "y", "dims": ["y"], "dtype": "i4", "values": ints(ny, 10),
         "attrs": {"standard_name": "latitude", "units": "degrees_north", "add_offset": A(0.0, "f8")}},
        {"name": "height", "dims": [], "dtype": "i1", "values": [rng.randint(1, 9)],
         "attrs": {"standard_name": "height", "units": "m", "scale_factor": A(2.0, "f4")}},
        {"name": "lat2", "dims": ["y", "x"], "dtype": "i2", "values": ints(nx * ny, 100),
         "attrs": {"long_name": "two-d aux", "units": "1", "scale_factor": A(1.0, "f8"), "add_offset": A(0.0, "f8")}},
        {"name": "cellarea", "dims": ["y", "x"], "dtype": "i4", "values": ints(nx * ny, 1000),
         "attrs": {"standard_name": "cell_area", "units": "m2", "scale_factor": A(1.0, "f4")}},
        {"name": "flag1", "dims": ["x"], "dtype": "i1", "values": [rng.choice([-1, -2, 3, 100, -128]) for _ in range(nx)],
         "attrs": {"long_name": "unsigned bytes", "_Unsigned": "true"}},
        {"name": "anc2", "dims": ["x"], "dtype": "i2", "values": [rng.choice([-3, 2, 500]) for _ in range(nx)],
         "attrs": {"long_name": "unsigned shorts, integer scale", "_Unsigned": "true", "scale_factor": A(3, "i2")}},
        # the witnesses: a zero add_offset wider than the scale_factor; only a zero add_offset; scale one
        {"name": "w1", "dims": ["y", "x"], "dtype": "i2", "values": ints(nx * ny),
         "attrs": dict(common, standard_name="air_temperature", units="K", scale_factor=A(0.5, "f4"), add_offset=A(0.0, "f8"))},
        {"name": "w2", "dims": ["y", "x"], "dtype": "i2", "values": ints(nx * ny), "fill": -5,
         "attrs": dict(common, standard_name="air_pressure", units="Pa", add_offset=A(0.0, "f8"))},
        {"name": "w3", "dims": ["y", "x"], "dtype": "i2", "values": ints(nx * ny),
         "attrs": dict(common, standard_name="relative_humidity", units="1", scale_factor=A(1.0, "f4"), add_offset=A(0.0, "f8"))},
        {"name": "w4", "dims": ["y", "x"], "dtype": "i4", "values": ints(nx * ny),
         "attrs": dict(common, standard_name="wind_speed", units="m s-1", scale_factor=A(1.0, "f4"))},
        # zero-dimensional packed data variables
        {"name": "z0", "dims": [], "dtype": "i2", "values": [rng.randint(-9, 9)],
         "attrs": {"standard_name": "surface_altitude", "units": "m", "scale_factor": A(2.0, "f8")}},
        {"name": "z1", "dims": [], "dtype": "i1", "values": [-3],
         "attrs": {"standard_name": "sea_surface_height", "units": "m", "_Unsigned": "true", "add_offset": A(1.5, "f4")}},
    ]
    names = ["eastward_wind", "northward_wind", "upward_air_velocity", "specific_humidity", "sea_water_salinity"]
    for k in range(5):
        stored = rng.choice(["i1", "i2", "i2", "i4", "u1", "f4"])
        vals = ints(nx * ny, 0 if stored == "u1" else -5)
        v = {"name": "r%d" % k, "dims": ["y", "x"], "dtype": stored, "values": vals,
             "attrs": dict(common if rng.random() < 0.6 else {}, standard_name=names[k], units="1",
                           **rand_packing_attrs(rng, stored))}
        if rng.random() < 0.4 and stored != "f4":
            v["attrs"]["_FillValue"] = vals[rng.randrange(len(vals))]
        vars_.append(v)
    for v in vars_:
        if "fill" in v:
            v["attrs"]["_FillValue"] = v.pop("fill")
    return {"kind": "hand", "label": "packed", "packed": True, "dims": dims, "gattrs": {"Conventions": "CF-1.11"},
            "vars": vars_}


def hand_strings(rng):
    nx = rng.randint(1, 4)
    dims = {"x": nx, "strlen": 5}
    names = ["n%d" % rng.randint(0, 999) for _ in range(nx)]
    vars_ = [
        {"name": "x", "dims": ["x"], "dtype": "i4", "values": list(range(nx)), "attrs": {"long_name": "x"}},
        {"name": "vname", "dims": ["x"], "dtype": "str", "values": names, "attrs": {"long_name": "vlen strings"}},
        {"name": "cname", "dims": ["x", "strlen"], "dtype": "char", "values": [s[:5] for s in names], "attrs": {"long_name": "char strings"}},
        {"name": "one", "dims": [], "dtype": "str", "values": ["single"], "attrs": {"long_name": "scalar vlen string"}},
        {"name": "q", "dims": ["x"], "dtype": "f8", "values": [float(k) for k in range(nx)],
         "attrs": {"standard_name": "specific_humidity", "units": "1", "coordinates": "vname cname one"}},
    ]
    return {"kind": "hand", "label": "strings", "dims": dims, "gattrs": {"Conventions": "CF-1.11"}, "vars": vars_}


def hand_dsg(rng, indexed):
    ns = rng.randint(1, 4)
    counts = [rng.randint(1, 4) for _ in range(ns)]
    nobs = sum(counts)
    dims = {"station": ns, "obs": nobs}
    vars_ = [
        {"name": "lon", "dims": ["station"], "dtype": "f8", "values": [float(k) for k in range(ns)], "attrs": {"standard_name": "longitude", "units": "degrees_east"}},
        {"name": "lat", "dims": ["station"], "dtype": "f8", "values": [float(-k) for k in range(ns)], "attrs": {"standard_name": "latitude", "units": "degrees_north"}},
        {"name": "time", "dims": ["obs"], "dtype": "f8", "values": [float(k) for k in range(nobs)], "attrs": {"standard_name": "time", "units": "days since 2000-01-01"}},
        {"name": "humidity", "dims": ["obs"], "dtype": "f8", "values": [0.25 * k for k in range(nobs)],
         "attrs": {"standard_name": "specific_humidity", "units": "1", "coordinates": "time lat lon"}},
    ]
    if indexed:
        index = [k for k, c in enumerate(counts) for _ in range(c)]
        rng.shuffle(index)
        vars_.append({"name": "stationIndex", "dims": ["obs"], "dtype": "i4", "values": index,
                      "attrs": {"long_name": "which station", "instance_dimension": "station"}})
    else:
        vars_.append({"name": "row_size", "dims": ["station"], "dtype": "i4", "values": counts,
                      "attrs": {"long_name": "observations per station", "sample_dimension": "obs"}})
    return {"kind": "hand", "label": "dsg-indexed" if indexed else "dsg-contiguous", "dims": dims,
            "gattrs": {"Conventions": "CF-1.11", "featureType": "timeSeries"}, "vars": vars_}


def hand_geometry(rng, parts):
    ncell = rng.randint(1, 3)
    cells = [[rng.randint(3, 4) for _ in range(rng.randint(1, 3) if parts else 1)] for _ in range(ncell)]
    node_count = [sum(c) for c in cells]
    pnc = [p for c in cells for p in c]
    nnode = sum(node_count)
    nt = 2
    dims = {"instance": ncell, "node": nnode, "time": nt}
    gc = {"geometry_type": "polygon", "node_count": "node_count", "node_coordinates": "x y"}
    vars_ = [
        {"name": "time", "dims": ["time"], "dtype": "i4", "values": list(range(nt)), "attrs": {"standard_name": "time", "units": "days since 2000-01-01"}},
        {"name": "x", "dims": ["node"], "dtype": "f8", "values": [float(k) for k in range(nnode)], "attrs": {"units": "degrees_east", "standard_name": "longitude", "axis": "X"}},
        {"name": "y", "dims": ["node"], "dtype": "f8", "values": [float(2 * k) for k in range(nnode)], "attrs": {"units": "degrees_north", "standard_name": "latitude", "axis": "Y"}},
        {"name": "lon", "dims": ["instance"], "dtype": "f8", "values": [float(k) for k in range(ncell)], "attrs": {"units": "degrees_east", "standard_name": "longitude", "nodes": "x"}},
        {"name": "lat", "dims": ["instance"], "dtype": "f8", "values": [float(k) for k in range(ncell)], "attrs": {"units": "degrees_north", "standard_name": "latitude", "nodes": "y"}},
        {"name": "node_count", "dims": ["instance"], "dtype": "i4", "values": node_count, "attrs": {"long_name": "nodes per cell"}},
        {"name": "someData", "dims": ["instance", "time"], "dtype": "f8", "values": [float(k) for k in range(ncell * nt)],
         "attrs": {"standard_name": "air_temperature", "units": "K", "coordinates": "lat lon", "geometry": "geometry_container"}},
    ]
    if parts:
        dims["part"] = len(pnc)
        gc["part_node_count"] = "part_node_count"
        gc["interior_ring"] = "interior_ring"
        vars_.append({"name": "part_node_count", "dims": ["part"], "dtype": "i4", "values": pnc, "attrs": {"long_name": "nodes per part"}})
        vars_.append({"name": "interior_ring", "dims": ["part"], "dtype": "i4", "values": [0] * len(pnc), "attrs": {"long_name": "interior ring flag"}})
    vars_.append({"name": "geometry_container", "dims": [], "dtype": "i4", "values": [0], "attrs": gc})
    return {"kind": "hand", "label": "geometry-parts" if parts else "geometry", "dims": dims,
            "gattrs": {"Conventions": "CF-1.11"}, "vars": vars_}


def read_specs(chk):
    rng = chk.rng
    T = chk.tier == "thorough"
    specs = []
    for n in range(8):
        specs.append({"kind": "example", "n": n, "label": f"example{n}"})
    for m in ("contiguous", "indexed"):
        specs.append({"kind": "example", "n": 3, "compress": m, "label": "example3-" + m})
    specs.append({"kind": "example", "n": 4, "compress": "indexed_contiguous", "label": "example4-indexed_contiguous"})
    specs.append({"kind": "example", "n": 0, "group": ["forecast", "model"], "label": "example0-grouped"})
    reps = 10 if T else 2
    for _ in range(reps):
        specs += [hand_packed(rng), hand_plain(rng), hand_plain(rng, grouped=True), hand_strings(rng), hand_dsg(rng, False),
                  hand_dsg(rng, True), hand_geometry(rng, False), hand_geometry(rng, True)]
    return specs


def field_cases(rng, fspecs, nper):
    fcases = []
    for s in fspecs:
        for be in BACKENDS:
            if s["label"] in ("example1", "strings"):
                # corpus (F12d): a subspace of string-valued file data against its in-memory twin
                fcases.append({"spec": s, "backend": be, "backend2": be, "ops": [
                    ["sub", 0, [["list", [0]], ["list", [5]], ["slice", 0, 2, 1]]], ["arr", 1],
                    ["sub", 0, [["list", [1, 0]], ["slice", None, None, None], ["slice", None, None, None]]],
                    ["eq", 1, 2], ["tomem", 2], ["str", 2]]})
            for _ in range(nper):
                ops = []
                sl = lambda: ["slice", rng.choice([None, 0, 1]), rng.choice([None, 2, 3]), None]  # noqa: E731
                variant = rng.random()
                if variant < 0.35:
                    # copy the field before anything is fetched, subspace the copy, look at all its arrays
                    ops += [["copy", 0], ["sub", 1, [sl(), sl(), sl()]], ["arr", 2]]
                elif variant < 0.7:
                    # subspace the field before anything is fetched, then its constructs' arrays one by one
                    ops += [["sub", 0, [sl(), sl(), sl()]]] + [["arr1", 1, k_] for k_ in range(rng.randint(2, 6))] + [["arr", 1]]
                for _k in range(rng.randint(3, 10)):
                    r = rng.random()
                    i = rng.randint(0, 5)
                    if r < 0.25:
                        idx = []
                        for _a in range(3):
                            q = rng.random()
                            if q < 0.5:
                                idx.append(["slice", rng.choice([None, 0, 1, -2]), rng.choice([None, 2, 3, -1]), rng.choice([None, 1, 2, -1])])
                            elif q < 0.8:
                                idx.append(["list", [rng.randint(0, 7) for _z in range(rng.randint(1, 3))]])
                            else:
                                idx.append(["slice", None, None, None])
                        ops.append(["sub", i, idx])
                    elif r < 0.35:
                        ops.append(["copy", i])
                    elif r < 0.45:
                        ops.append(["tomem", i])
                    elif r < 0.6:
                        ops.append(["tomem1", i, rng.randint(0, 20)])
                    elif r < 0.7:
                        ops.append(["arr", i])
                    elif r < 0.85:
                        ops.append(["arr1", i, rng.randint(0, 20)])
                    elif r < 0.92:
                        ops.append(["str", i])
                    else:
                        ops.append(["eq", i, rng.randint(0, 5)])
                ops.append(["arr", 0])
                be2 = rng.choice(BACKENDS)
                fcases.append({"spec": s, "backend": be, "backend2": be2, "opts": rand_opts(rng), "ops": ops})
    return fcases


# ---------------------------------------------------------------- running workers
def run_sharded(mode, cases, scratch, extra=None, nworkers=12):
    for i, c in enumerate(cases):
        c["i"] = i
    shards = [cases[k::nworkers] for k in range(nworkers)]
    shards = [s for s in shards if s]
    payloads = []
    for s in shards:
        p = {"mode": mode, "scratch": scratch, "cases": s}
        if extra:
            p.update(extra)
        payloads.append(p)
    res = lib.run_workers_parallel("drive/c12.py", payloads)
    rows = [None] * len(cases)
    crashed = []
    for s, (rc, out, err) in zip(shards, res):
        for r in out:
            if isinstance(r, dict) and "i" in r:
                rows[r["i"]] = r
        if rc != 0 or sum(1 for r in out if isinstance(r, dict) and "i" in r) != len(s):
            crashed.append((rc, err[-500:]))
    return rows, crashed


def pack_kind(v):
    p = v.get("pack") or {}
    k = []
    if p.get("unsigned"):
        k.append("unsigned")
    if p.get("scale"):
        k.append("scale=1" if p["scale"][1] == 1 else "scale")
    if p.get("offset"):
        k.append("offset=0" if p["offset"][1] == 0 else "offset")
    return "+".join(k) or "plain"


def sig_open(step_has_error):
    return "file-left-open-when-access-raises" if step_has_error else "file-left-open-after-access"


def judge_history(chk, c, r, spec, stats):
    """Property oracle for one history and its Gallina literal.  c: the case, r: the worker's row."""
    out = {"lit": None, "bad": False, "nsteps": 0, "key": None}
    c["vars"] = spec["vars"]      # makes the case replayable on its own
    stats["backends"][str(c["backend"])] = stats["backends"].get(str(c["backend"]), 0) + 1
    var_ids = {vname(v): k for k, v in enumerate(spec["vars"])}
    byname = {vname(v): v for v in spec["vars"]}
    # --- laziness and backend selection of the read that produced the objects
    if r.get("read_log"):
        chk.fail("property", "read-fetches-array", f"reading an integer file fetched {r['read_log'][:3]}",
                 {"input": c, "observed": r["read_log"][:5]})
    if r.get("read_open"):
        chk.fail("property", "file-left-open-after-read", f"files open after read: {r['read_open']}", {"input": c})
    for hc, w in zip(c["heap"], r["start"]):
        if w != "disk:" + CLS[c["backend"]]:
            chk.fail("property", "read-array-not-lazy-or-wrong-backend",
                     f"backend {c['backend']}: data of {hc} is {w} after read, expected disk:{CLS[c['backend']]}",
                     {"input": c, "observed": r["start"]})
    # --- oracle heap; the data type each object declares while on disk is the one its data will have
    heap = []
    key = optkey(c.get("opts"))
    want_flags = [key[0] == "m", key[1] == "u"]
    stats["read_options"][key] = stats["read_options"].get(key, 0) + 1

    def check_flags(when, cells):
        for k, fl in enumerate(r.get(when) or []):
            if fl is None or fl == want_flags:
                continue
            if cells is not None and k < len(cells) and cells[k].missing:
                continue      # (the stand-in for a missing file is made with the default options)
            if cells is None and k < len(c["heap"]) and "missing" in c["heap"][k]:
                continue
            out["bad"] = True
            chk.fail("property", "read-options-lost-by-derived-array",
                     f"backend {c['backend']}, read(mask={want_flags[0]}, unpack={want_flags[1]}): the file array of "
                     f"object {k} has (mask, unpack) = {fl} ({'a copy of the data read' if when == 'start_flags' else 'after the history'})",
                     {"input": c, "expected": want_flags, "observed": fl})
            break

    check_flags("start_flags", None)
    start_dt = r.get("start_dtype") or []
    declared = []
    if r.get("dtype_log"):
        chk.fail("property", "read-fetches-array", f"asking for Data.dtype fetched {r['dtype_log'][:2]}",
                 {"input": c, "observed": r["dtype_log"][:3]})
    for k, hc in enumerate(c["heap"]):
        got_dt = start_dt[k] if k < len(start_dt) else None
        declared.append(got_dt)
        if "missing" in hc:
            heap.append(OCell(hc["shape"], [0] * (int(np.prod(hc["shape"])) if hc["shape"] else 1), True, True))
        else:
            v = byname[hc["var"]]
            eflat, edt = ex(v, key)
            heap.append(OCell(v["shape"], eflat, dtype=edt))
            stats["stored_types"][v["dtype"]] = stats["stored_types"].get(v["dtype"], 0) + 1
            stats["pack_kinds"][pack_kind(v)] = stats["pack_kinds"].get(pack_kind(v), 0) + 1
            if got_dt != NPNAME[edt]:
                out["bad"] = True
                chk.fail("property", "declared-dtype-differs-from-realised",
                         f"backend {c['backend']}: Data.dtype of {hc['var']} ({v['dtype']}, packing {v.get('pack')}) is "
                         f"{got_dt} while the data are on disk, {NPNAME[edt]} once they are in memory (read options {key})",
                         {"input": c, "expected": NPNAME[edt], "observed": got_dt})
    observed = []
    bad_case = out["bad"]
    for op, st in zip(c["ops"], r["steps"]):
        out["nsteps"] += 1
        stats["ops"][op[0]] = stats["ops"].get(op[0], 0) + 1
        exp, info = oracle_step(heap, op)
        got = st["obs"]
        events, calls = to_trace(st["log"], var_ids, "c12_no_such_file.nc")
        is_err = "err" in got
        if is_err:
            stats["errors"][got["err"]] = stats["errors"].get(got["err"], 0) + 1
        # (a) no file left open
        if st["open"] or st.get("open_in_handler"):
            bad_case = True
            chk.fail("property", sig_open(is_err), f"{op} left {st['open'] or st.get('open_in_handler')} open",
                     {"input": c, "op": op, "observed": st["open"]})
        nopen = sum(1 for e in events if e[0] == "open")
        nclose = sum(1 for e in events if e[0] == "close")
        if nopen != nclose:
            bad_case = True
            chk.fail("property", sig_open(is_err),
                     f"{op}: {nopen} open call(s) but {nclose} close call(s) inside the file array's __getitem__",
                     {"input": c, "op": op, "expected": "every open followed by its close", "observed": st["log"]})
        # (b) same result as eager numpy access, and as the eager twin Data
        ok = True
        if "err" in exp:
            ok = is_err and (exp["err"] is None or exp["err"] == got["err"])
        elif "arr" in exp:
            ok = "arr" in got and got["arr"]["shape"] == exp["arr"]["shape"] and got["arr"]["flat"] == exp["arr"]["flat"] \
                and got["arr"]["dtype"] == exp["arr"]["dtype"]
        else:
            ok = got == exp
        if not ok:
            bad_case = True
            chk.fail("property", "lazy-differs-from-eager",
                     f"{op} on backend {c['backend']}: expected {exp}, got {got}",
                     {"input": c, "op": op, "expected": exp, "observed": got})
        if "eager" in st:
            e2 = st["eager"]
            same = (("err" in e2 and "err" in got and e2["err"] == got["err"]) or
                    ({k: v for k, v in e2.items() if k != "msg"} == {k: v for k, v in got.items() if k != "msg"}))
            if not same:
                bad_case = True
                chk.fail("property", "lazy-differs-from-eager",
                         f"{op}: file-backed Data gave {got}, the same history on in-memory Data gave {e2}",
                         {"input": c, "op": op, "expected": e2, "observed": got})
        # (c) fetch only what is asked
        gets = [x for x in calls]
        fetched = sum((x.get("rsize") or 0) for x in gets if x.get("ret"))
        want = info["want"]
        if not info["disk"] and (op[0] != "eq" or info["want"] is None):
            # (equals: same object, different shapes or different data types - nothing to fetch)
            if gets:
                bad_case = True
                chk.fail("property", "in-memory-data-refetched", f"{op}: data already in memory, yet the file was read",
                         {"input": c, "op": op, "observed": st["log"]})
        elif isinstance(want, list) and not info["missing"]:
            size = int(np.prod([len(p) for p in want])) if want else 1
            poss_ok = len(gets) == 1 and gets[0].get("poss") == want
            if fetched != size or not poss_ok:
                bad_case = True
                chk.fail("property", "fetch-not-what-was-asked",
                         f"{op}: asked for positions {want} ({size} elements); the file array was asked "
                         f"{[x.get('poss') for x in gets]} and returned {fetched} elements",
                         {"input": c, "op": op, "expected": want, "observed": st["log"]})
            # ... also below the file array: elements actually read from the file variable.
            # netCDF4 selects orthogonally by itself (exactly the request); h5py takes one list
            # index per read, so with several list indices the slab of one of them is read.
            raw = sum(x.get("raw", 0) for x in gets)
            if len(gets) == 1 and isinstance(gets[0]["idx"], list):
                laxes = [k for k, i in enumerate(gets[0]["idx"]) if i != "..." and i[0] == "list" and len(i[1]) > 1]
            else:
                laxes = []
            bound = size
            if CLS[c["backend"]] == "H5netcdfArray" and len(laxes) > 1:
                dims = gets[0]["shape"]
                bound = max(int(np.prod([len(p) if (k not in laxes or k == j) else dims[k] for k, p in enumerate(want)]))
                            for j in laxes)
            if raw > bound:
                bad_case = True
                chk.fail("property", "fetch-more-than-asked",
                         f"{op}: {size} elements asked for, {raw} elements read from the file variable (allowed: {bound})",
                         {"input": c, "op": op, "expected": bound, "observed": raw})
        elif want == "error" and gets and not info["missing"] and op[0] == "sub":
            # an index error must not have fetched anything
            if fetched:
                bad_case = True
                chk.fail("property", "fetch-not-what-was-asked", f"{op}: raised, but {fetched} elements were fetched first",
                         {"input": c, "op": op, "observed": st["log"]})
        observed.append((got, events))
    check_flags("final_flags", heap)
    bad_case = bad_case or out["bad"]
    out["bad"] = bad_case
    if any(any(e[0] == "stray" for e in ev) for _, ev in observed):
        chk.fail("correspondence", "trace-shape", "open/close logged outside a file array __getitem__",
                 {"correspondence": "C12.Run.check_ops", "input": c})
        return out
    # --- literal for the model
    vars_lit = glist(list(enumerate(spec["vars"])),
                     lambda kv: f"(0%Z, {gz(kv[0])}, {glist(kv[1]['shape'], gnat)}, {CODE[kv[1].get('dtype', 'i8')]}%Z, "
                                f"{g_pack(kv[1].get('pack'))}, {gz(fill_of(kv[1].get('dtype', 'i8')))}, "
                                f"{glist(kv[1]['flat'], g_oz)})")
    g_fl = f"(mk_flags ({gbool(want_flags[0])}, {gbool(want_flags[1])}))"
    heap_lit = glist(list(zip(c["heap"], declared)), lambda hd: (
        f"(OnDisk 1%Z 0%Z {glist(hd[0]['shape'], gz)} I8 flags_default)" if "missing" in hd[0] else
        f"(OnDisk 0%Z {gz(var_ids[hd[0]['var']])} {glist(byname[hd[0]['var']]['shape'], gz)} {g_dt(hd[1])} {g_fl})"))
    obs_lit = glist(observed, lambda oe: f"({g_obs(oe[0])}, {glist(oe[1], g_event)})")
    out["lit"] = (f"(({vars_lit}, {heap_lit}, {gbool(c['backend'] == 'h5netcdf')}, {glist(c['ops'], g_op)}, {obs_lit}) : ops_case)")
    nontriv = any(o[0] in ("sub", "set") and not C03.trivial_idx(o[2]) for o in c["ops"])
    if nontriv:
        out["key"] = lib.canon({"f": spec, "h": c["heap"], "o": c["ops"], "b": c["backend"], "k": key})
    return out


def judge_sweep(chk, label, roles, options, stats, olits, olit_case):
    """Dataset cases under non-default read options (worker mode "sweep")."""
    base = {}
    for k in roles:
        base.setdefault(k.split("/")[-1], k)
    var_ids = {k: n for n, k in enumerate(sorted(roles))}

    def cf_shape(k):
        sh = roles[k]["shape"]
        return sh[:-1] if roles[k]["dtype"] == "|S1" and sh else sh

    def g_var(k):
        tag = roles[k].get("tag")
        pkd = roles[k].get("pack") or {}
        if tag not in CODE:
            tag, pkd = "f8", {}
        pkd = {a: (None if b == "other" else b) for a, b in pkd.items()}
        return f"({gz(var_ids[k])}, {glist(cf_shape(k), gz)}, {roles[k]['role']}, {CODE[tag]}%Z, {g_pack(pkd)})"

    r = {"options": options}
    # --- the three non-default combinations of the read options
    SIG = {"flags-after-read": "read-options-lost-by-derived-array", "flags-of-copy": "read-options-lost-by-derived-array",
           "flags-of-field-copy": "read-options-lost-by-derived-array", "declared-dtype": "declared-dtype-differs-from-realised",
           "copy-not-equal": "equality-changed-by-copying", "memory-copy-not-equal": "equality-changed-by-bringing-into-memory"}
    for okey, perbe in sorted((r.get("options") or {}).items()):
        ofps = {}
        for be in BACKENDS:
            e = perbe.get(str(be))
            if e is None:
                continue
            if "err" in e:
                chk.fail("property", "backend-cannot-read", f"{label}: read with backend {be}, options {okey} raised {e['err']}",
                         {"input": label, "observed": e})
                continue
            stats["option_sweep_objects"] += e.get("n", 0)
            for b in e["bad"][:6]:
                chk.fail("property", SIG.get(b[0], "lazy-differs-from-eager"),
                         f"{label} ({be}, read options {okey}): {b[0]}: {str(b[1:])[:260]}",
                         {"input": {"spec": label, "backend": be, "options": okey}, "observed": b})
            if e.get("open"):
                chk.fail("property", "file-left-open-after-access", f"{label} ({be}, {okey}): open {e['open']}", {"input": label})
            ofps[str(be)] = e.get("fp")
            dts = set()
            for ncvar, dt0 in e.get("dtypes", []):
                k = ncvar if ncvar in roles else base.get(str(ncvar).split("/")[-1])
                if k in var_ids and roles[k].get("tag") in CODE and dt0 in TAG_OF:
                    dts.add((var_ids[k], CODE[TAG_OF[dt0]]))
            olits.append("((" + glist(sorted(roles), g_var)
                         + f", {gbool(be == 'h5netcdf')}, ({gbool(okey[0] == 'm')}, {gbool(okey[1] == 'u')}), "
                         + "[], [], " + glist(sorted(dts), lambda x: f"({gz(x[0])}, {gz(x[1])})") + ") : read_case)")
            olit_case.append((label, be, okey))
        if len(set(ofps.values())) > 1:
            chk.fail("property", "backends-differ", f"{label}: under read options {okey} the backends give different data: {ofps}",
                     {"input": label, "observed": ofps})


# ---------------------------------------------------------------- the check
def run(chk, model_ok):
    rng = chk.rng
    T = chk.tier == "thorough"
    scratch = chk.scratch
    stats = {"ops": {}, "errors": {}, "backends": {}, "read_labels": {}, "roles_fetched": {}, "fieldops": {},
             "stored_types": {}, "pack_kinds": {}, "dtype_checks": 0, "packed_read_vars": 0, "read_options": {},
             "option_sweep_objects": 0, "field_options": {}}
    ncorr = 0
    import time
    phase = {}
    t_ph = time.time()

    def mark(name):
        nonlocal t_ph
        phase[name] = round(time.time() - t_ph, 1)
        t_ph = time.time()

    def crash(mode, crashed):
        for rc, err in crashed:
            chk.fail("correspondence", "worker-crash", f"C12 {mode} worker died rc={rc}: {err}",
                     {"correspondence": "drive/c12.py " + mode})

    # ======================================================== 1. histories over integer files
    nfiles = 300 if T else 36
    per_file = 40 if T else 22
    files = [rand_file(rng) for _ in range(nfiles)]
    for c in CORPUS_OPS:
        files.append({"vars": [dict(v) for v in c["vars"]]})
    # the eager reference of every packed variable (netcdf_indexer on the whole array in memory)
    stats["inexact_variables_replaced"] = resolve_vars([f_["vars"] for f_ in files])
    mark("eager_reference")
    cases = []
    for k_, c in enumerate(CORPUS_OPS):
        cfile = nfiles + k_
        packed_corpus = any(not is_plain(v) for v in files[cfile]["vars"])
        for be in BACKENDS:
            for o in (OPTS if packed_corpus else OPTS[:1]):
                heap = [({"missing": True, "shape": [int(h[1:])]} if h.startswith("?") else {"var": h}) for h in c["heap"]]
                cases.append({"file": cfile, "backend": be, "opts": dict(o), "heap": heap, "ops": c["ops"], "fam": "corpus"})
    for k in range(nfiles):
        for _ in range(per_file):
            o = rand_opts(rng)
            heap, ops = rand_history(rng, files[k], rng.randint(3, 10), optkey(o))
            cases.append({"file": k, "backend": rng.choice(BACKENDS), "opts": o, "heap": heap, "ops": ops, "fam": "history"})
    # every worker gets whole files (the worker caches the read of a file per backend)
    nworkers = 24 if T else 14
    for i, c in enumerate(cases):
        c["i"] = i
    shards = [[c for c in cases if c["file"] % nworkers == w] for w in range(nworkers)]
    shards = [s for s in shards if s]
    groups = []
    for s_ in shards:
        need = sorted(set(c["file"] for c in s_))
        groups.append(("ops", {"mode": "ops", "scratch": scratch, "files": {str(k): files[k] for k in need},
                               "cases": s_}, s_))

    # reads: one worker per dataset
    specs = read_specs(chk)
    rcases = [{"spec": s_} for s_ in specs]
    for i, c in enumerate(rcases):
        c["i"] = i
        groups.append(("read", {"mode": "read", "scratch": scratch, "cases": [c]}, [c]))

    # the dataset cases under the non-default read options: one worker per (dataset, combination); the quick tier
    # gives each dataset one combination in rotation and the packed family all three
    COMBOS = [[False, True], [True, False], [False, False]]
    scases = []
    for i, s_ in enumerate(specs):
        for j, cmb in enumerate(COMBOS):
            if T or s_["label"] == "packed" or j == i % 3:
                # (quick tier: the default backend, which is the netCDF4 one, is left to the full dataset cases)
                scases.append({"spec": s_, "combos": [cmb], "backends": BACKENDS if (T or s_["label"] == "packed") else ["netCDF4", "h5netcdf"]})
    for i, c in enumerate(scases):
        c["i"] = i
        groups.append(("sweep", {"mode": "sweep", "scratch": scratch, "cases": [c]}, [c]))

    # histories over whole fields: one worker per dataset (the file is built once)
    fspecs = [s_ for s_ in specs if s_["kind"] == "example"] + [s_ for s_ in specs if s_["kind"] == "hand"][:(24 if T else 8)]
    fcases = field_cases(rng, fspecs, 8 if T else 2)
    for i, c in enumerate(fcases):
        c["i"] = i
    for s_ in fspecs:
        mine = [c for c in fcases if c["spec"] is s_]
        groups.append(("fieldops", {"mode": "fieldops", "scratch": scratch, "cases": mine}, mine))

    # heavy datasets first; everything is started through one pool
    weight = {"fieldops": 0, "read": 1, "sweep": 1, "ops": 2}
    groups.sort(key=lambda g: (weight[g[0]], -len(json.dumps(g[1]["cases"][0].get("spec", {}).get("label", "")))))
    res = lib.run_workers_parallel("drive/c12.py", [g[1] for g in groups], jobs=16)
    rows, rrows, frows, srows = [None] * len(cases), [None] * len(rcases), [None] * len(fcases), [None] * len(scases)
    target = {"ops": rows, "read": rrows, "fieldops": frows, "sweep": srows}
    for (mode, payload, mine), (rc, out, err) in zip(groups, res):
        got = 0
        for r in out:
            if isinstance(r, dict) and "i" in r:
                target[mode][r["i"]] = r
                got += 1
        if rc != 0 or got != len(mine):
            chk.fail("correspondence", "worker-crash", f"C12 {mode} worker died rc={rc}: {err[-500:]}",
                     {"correspondence": "drive/c12.py " + mode})
    mark("implementation_runs")

    lits, lit_case, explained = [], [], set()
    nsteps = 0
    distinct = set()
    for c, r in zip(cases, rows):
        if r is None:
            continue
        if "harness_err" in r:
            chk.fail("correspondence", "harness-error", r["harness_err"], {"correspondence": "drive/c12.py ops", "input": c})
            continue
        res_h = judge_history(chk, c, r, files[c["file"]], stats)
        nsteps += res_h["nsteps"]
        if res_h["bad"]:
            explained.add(c["i"])
        if res_h["lit"] is not None:
            lits.append(res_h["lit"])
            lit_case.append(c)
        if res_h["key"]:
            distinct.add(res_h["key"])
    if model_ok and lits:
        bad = lib.coq_bad_indices("C12", REQ, "check_ops", lits, chunk=60)
        ncorr += len(lits)
        for i in bad[:30]:
            c = lit_case[i]
            if c["i"] in explained:
                continue
            chk.fail("correspondence", "model-vs-impl:history",
                     f"model and implementation disagree on a history ({c['backend']}): {c['ops']}",
                     {"correspondence": "C12.Run.check_ops", "input": c, "observed": rows[c["i"]]["steps"]})

    mark("histories_check_and_coq")
    # ======================================================== 2. reads: backends, laziness, open files
    rlits, rlit_case = [], []
    olits, olit_case = [], []
    for c, r in zip(rcases, rrows):
        if r is None:
            continue
        label = c["spec"]["label"]
        stats["read_labels"][label] = stats["read_labels"].get(label, 0) + 1
        if "harness_err" in r:
            chk.fail("correspondence", "harness-error", r["harness_err"], {"correspondence": "drive/c12.py read", "input": label})
            continue
        roles = r["roles"]
        base = {}
        for k in roles:
            base.setdefault(k.split("/")[-1], k)
        var_ids = {k: n for n, k in enumerate(sorted(roles))}

        def cf_shape(k):
            sh = roles[k]["shape"]
            return sh[:-1] if roles[k]["dtype"] == "|S1" and sh else sh

        def g_var(k):
            tag = roles[k].get("tag")
            pkd = roles[k].get("pack") or {}
            if tag not in CODE:
                tag, pkd = "f8", {}
            pkd = {a: (None if b == "other" else b) for a, b in pkd.items()}
            return f"({gz(var_ids[k])}, {glist(cf_shape(k), gz)}, {roles[k]['role']}, {CODE[tag]}%Z, {g_pack(pkd)})"

        fps = {}
        for be in BACKENDS:
            e = r["per"].get(str(be))
            if e is None:
                continue
            if "err" in e:
                chk.fail("property", "backend-cannot-read", f"{label}: read with backend {be} raised {e.get('msg')}",
                         {"input": label, "observed": e})
                continue
            if e["open_after_read"] or e["unclosed"]:
                chk.fail("property", "file-left-open-after-read",
                         f"{label} ({be}): open after read {e['open_after_read']}, unclosed handles {e['unclosed']}",
                         {"input": label, "observed": e["open_after_read"]})
            if e["open_after_access"] or e["unclosed_access"]:
                chk.fail("property", "file-left-open-after-access",
                         f"{label} ({be}): open after inspecting every array {e['open_after_access']}",
                         {"input": label})
            fetched_ids, known, knownc, viol = set(), [], [], []
            for var, shape in e["fetched"]:
                k = var if var in roles else base.get(str(var).split("/")[-1])
                role = roles[k]["role"] if k in roles else "?"
                stats["roles_fetched"][role] = stats["roles_fetched"].get(role, 0) + 1
                if k in var_ids:
                    fetched_ids.add(var_ids[k])
                if role == "RScalarCoord" and len(shape) == 0:
                    continue
                if role in COUNT_ROLES:
                    known.append([var, shape, role])
                elif role == "RNodeCoord":
                    knownc.append([var, shape, role])
                else:
                    viol.append([var, shape, role])
            if known:
                chk.fail("property", "read-fetches-count-variables",
                         f"{label} ({be}): read fetched {known[:4]}",
                         {"input": label, "expected": "no rank >= 1 variable fetched while reading", "observed": known})
            if knownc:
                chk.fail("property", "read-realises-node-coordinates",
                         f"{label} ({be}): read fetched {knownc[:4]}",
                         {"input": label, "expected": "no rank >= 1 variable fetched while reading", "observed": knownc})
            if viol:
                chk.fail("property", "read-fetches-array",
                         f"{label} ({be}): read fetched the values of {viol[:4]}",
                         {"input": label, "expected": "only zero-dimensional scalar coordinate variables", "observed": viol})
            inmem_ids = set()
            for fvar, lab, ncvar, where, shape in e["where"]:
                k = ncvar if ncvar in roles else base.get(str(ncvar).split("/")[-1])
                role = roles[k]["role"] if k in roles else "?"
                if where.startswith("mem") or where.startswith("compressed-mem"):
                    if k in var_ids:
                        inmem_ids.add(var_ids[k])
                    if role == "RNodeCoord":
                        chk.fail("property", "read-realises-node-coordinates",
                                 f"{label} ({be}): data of {ncvar} ({lab}, shape {shape}) is {where} after read",
                                 {"input": label, "observed": [fvar, lab, ncvar, where]})
                    elif not (role == "RScalarCoord" and len(cf_shape(k)) == 0):
                        chk.fail("property", "read-leaves-array-in-memory",
                                 f"{label} ({be}): data of {ncvar} ({lab}, role {role}, shape {shape}) is {where} after read",
                                 {"input": label, "observed": [fvar, lab, ncvar, where]})
                elif ":" in where and where.split(":")[1] not in (CLS[be],) and not where.startswith("compressed"):
                    chk.fail("property", "read-array-not-lazy-or-wrong-backend",
                             f"{label} ({be}): data of {ncvar} is {where}", {"input": label})
                elif where.startswith("compressed-disk") and where.split(":")[1] != CLS[be]:
                    chk.fail("property", "read-array-not-lazy-or-wrong-backend",
                             f"{label} ({be}): compressed data of {ncvar} is {where}", {"input": label})
            # --- bringing data into memory changes neither the data type nor equality
            after = {(x[0], x[1], x[2]): x for x in e.get("dtype_after", [])}
            dts = set()
            for fvar, lab, ncvar, dt0, kind0, nfetch in e.get("dtype_before", []):
                stats["dtype_checks"] += 1
                k = ncvar if ncvar in roles else base.get(str(ncvar).split("/")[-1])
                numeric = kind0 in "iuf"
                if numeric and nfetch:
                    chk.fail("property", "read-fetches-array",
                             f"{label} ({be}): asking for the data type of {ncvar} ({lab}) fetched its values",
                             {"input": label, "observed": [fvar, lab, ncvar, dt0]})
                if numeric and k in var_ids and roles[k].get("tag") in CODE:
                    dts.add((var_ids[k], CODE[TAG_OF[dt0]]) if dt0 in TAG_OF else (var_ids[k], -1))
                    pkd = roles[k]["pack"]
                    if pkd["unsigned"] or pkd["scale"] or pkd["offset"]:
                        stats["packed_read_vars"] += 1
                x = after.get((fvar, lab, ncvar))
                if x is None:
                    continue
                _, _, _, dt_arr, kind_arr, dt_mem, where2, eq1, eq2, samefp = x
                if (numeric or kind_arr in "iuf") and not (dt0 == dt_arr == dt_mem):
                    chk.fail("property", "declared-dtype-differs-from-realised",
                             f"{label} ({be}): Data.dtype of {ncvar} ({lab}) is {dt0} straight after read, its array is "
                             f"{dt_arr}, a copy brought into memory is {dt_mem}",
                             {"input": label, "expected": dt_arr, "observed": [fvar, lab, ncvar, dt0, dt_arr, dt_mem]})
                elif not (eq1 and eq2):
                    chk.fail("property", "equality-changed-by-bringing-into-memory" if samefp else "lazy-differs-from-eager",
                             f"{label} ({be}): data of {ncvar} ({lab}) and a copy of them brought into memory: equals gives "
                             f"{[eq1, eq2]}" + (" although values, masks and data types are identical" if samefp else ""),
                             {"input": label, "observed": x})
                if where2 not in ("mem", "compressed-mem"):
                    chk.fail("property", "lazy-differs-from-eager",
                             f"{label} ({be}): data of {ncvar} ({lab}) are still {where2} after to_memory",
                             {"input": label, "observed": x})
            for fvar, what, eq1, eq2 in e.get("memory_equals", []):
                if eq1 is True and eq2 is True:
                    continue
                if what == "raised":
                    chk.fail("property", "lazy-differs-from-eager",
                             f"{label} ({be}): bringing field {fvar} into memory and comparing raised {eq1}",
                             {"input": label, "observed": [fvar, what, eq1]})
                    continue
                # (explained already by a data type that changes?)
                chk.fail("property", "equality-changed-by-bringing-into-memory",
                         f"{label} ({be}): {what} of field {fvar} is not equal to its own copy brought into memory: {[eq1, eq2]}",
                         {"input": label, "observed": [fvar, what, eq1, eq2]})
            if e.get("open_after_memory"):
                chk.fail("property", "file-left-open-after-access",
                         f"{label} ({be}): open after to_memory {e['open_after_memory']}", {"input": label})
            if e["raw_mismatch"]:
                chk.fail("property", "lazy-differs-from-eager",
                         f"{label} ({be}): values differ from an eager netCDF4-python read: {e['raw_mismatch'][:2]}",
                         {"input": label, "observed": e["raw_mismatch"][:3]})
            fps[str(be)] = e["fp"]
            rlits.append("((" + glist(sorted(roles), g_var)
                         + f", {gbool(be == 'h5netcdf')}, (true, true), {glist(sorted(fetched_ids), gz)}, {glist(sorted(inmem_ids), gz)}, "
                         + glist(sorted(dts), lambda x: f"({gz(x[0])}, {gz(x[1])})") + ") : read_case)")
            rlit_case.append((label, be, e["fetched"]))
        if len(set(fps.values())) > 1:
            chk.fail("property", "backends-differ",
                     f"{label}: fingerprints of the constructs differ between backends: {fps}",
                     {"input": label, "observed": {k: v.get("fp_detail") for k, v in r["per"].items()}})
        for pair, v in r["equals"].items():
            if v is not True:
                chk.fail("property", "backends-differ", f"{label}: equals({pair}) = {v}", {"input": label})
        if len(r["equals"]) < 6 and len(fps) == 3:
            chk.fail("property", "backends-differ", f"{label}: different numbers of fields per backend", {"input": label})
        if r.get("equals_written") is False:
            chk.fail("property", "lazy-differs-from-eager", f"{label}: the field read back is not equal to the field written",
                     {"input": label})
        if r["open_end"]:
            chk.fail("property", "file-left-open-after-access", f"{label}: open at the end {r['open_end']}", {"input": label})
    if model_ok and rlits:
        bad = lib.coq_bad_indices("C12", REQ, "check_read", rlits, chunk=40)
        ncorr += len(rlits)
        for i in bad[:20]:
            label, be, fetched = rlit_case[i]
            chk.fail("correspondence", "model-vs-impl:read",
                     f"model and implementation disagree on which variables read fetches / keeps in memory, or on the data "
                     f"type a Data object declares after read: {label} ({be}): fetched {fetched[:6]}",
                     {"correspondence": "C12.Run.check_read", "input": label, "observed": fetched[:10]})

    for c, r in zip(scases, srows):
        if r is None:
            continue
        label = c["spec"]["label"]
        if "harness_err" in r:
            chk.fail("correspondence", "harness-error", r["harness_err"], {"correspondence": "drive/c12.py sweep", "input": label})
            continue
        judge_sweep(chk, label, r["roles"], r["options"], stats, olits, olit_case)
        if r.get("open_end"):
            chk.fail("property", "file-left-open-after-access", f"{label}: open at the end of the options sweep {r['open_end']}",
                     {"input": label})
    if model_ok and olits:
        bad = lib.coq_bad_indices("C12", REQ, "check_read_dtypes", olits, chunk=60)
        ncorr += len(olits)
        for i in bad[:20]:
            label, be, okey = olit_case[i]
            chk.fail("correspondence", "model-vs-impl:read",
                     f"model and implementation disagree on the data type a Data object declares after a read with options "
                     f"{okey}: {label} ({be})",
                     {"correspondence": "C12.Run.check_read_dtypes", "input": label, "observed": okey})

    mark("reads_check_and_coq")
    # ======================================================== 3. histories over whole fields
    nfsteps = 0
    for c, r in zip(fcases, frows):
        if r is None:
            continue
        label = c["spec"]["label"]
        if "harness_err" in r:
            chk.fail("correspondence", "harness-error", r["harness_err"], {"correspondence": "drive/c12.py fieldops", "input": label})
            continue
        fkey = optkey(c.get("opts"))
        stats["field_options"][fkey] = stats["field_options"].get(fkey, 0) + 1
        for op, st in zip(c["ops"], r["steps"]):
            nfsteps += 1
            stats["fieldops"][op[0]] = stats["fieldops"].get(op[0], 0) + 1
            if st["lazy"] != st["eager"]:
                chk.fail("property", "lazy-differs-from-eager",
                         f"{label} ({c['backend']} vs in-memory {c['backend2']}, read options {fkey}): {op} gave {str(st['lazy'])[:120]} lazily and {str(st['eager'])[:120]} eagerly",
                         {"input": {"spec": label, "backend": c["backend"], "opts": c.get("opts"), "ops": c["ops"]}, "op": op})
            if st["open"] or st["unclosed"]:
                chk.fail("property", sig_open(str(st["lazy"]).startswith("raised")),
                         f"{label} ({c['backend']}): {op} left {st['open']} open ({st['unclosed']} unclosed)",
                         {"input": {"spec": label, "backend": c["backend"], "ops": c["ops"]}, "op": op})
        for x in r["cross"]:
            if isinstance(x, list) and len(x) == 3 and x[2] == "same-fingerprint":
                chk.fail("property", "equality-changed-by-bringing-into-memory",
                         f"{label} ({c['backend']}): after the same history a field and its in-memory twin hold identical "
                         f"values, masks and kinds of data type, yet equals() gives {x[:2]}",
                         {"input": {"spec": label, "backend": c["backend"], "ops": c["ops"]}})
            elif x != [True, True]:
                chk.fail("property", "lazy-differs-from-eager",
                         f"{label} ({c['backend']}): a field and its in-memory twin are not equal after the same history: {x}",
                         {"input": {"spec": label, "backend": c["backend"], "ops": c["ops"]}})
        if r["open_end"]:
            chk.fail("property", "file-left-open-after-access", f"{label}: {r['open_end']} open at the end", {"input": label})

    chk.coverage.update({
        "evaluations": nsteps + nfsteps + 3 * len(rcases) + sum(len(c_["backends"]) for c_ in scases),
        "dataset_reads_under_non_default_options": sum(len(c_["backends"]) for c_ in scases),
        "distinct_nontrivial": len(distinct),
        "rule": "a history is non-trivial when it contains a subspace or an assignment whose index is not all full slices; "
                "distinct by canonical JSON of (file contents, starting objects, operations, backend)",
        "histories": len(cases), "history_steps": nsteps, "integer_files": len(files),
        "read_cases": len(rcases), "reads": 3 * len(rcases), "field_histories": len(fcases), "field_history_steps": nfsteps,
        "samples": [cases[len(cases) // 2]["ops"], cases[-1]["heap"], specs[-1]["label"], fcases[-1]["ops"][:4]],
        "traces_validated_against_impl": ncorr,
        "disagreements_checked": ncorr,
        "op_kinds": stats["ops"], "error_classes": stats["errors"], "backends": stats["backends"],
        "read_labels": stats["read_labels"], "roles_of_variables_fetched_by_read": stats["roles_fetched"],
        "field_op_kinds": stats["fieldops"],
        "stored_types_of_history_variables": stats["stored_types"], "packing_of_history_variables": stats["pack_kinds"],
        "data_objects_checked_for_dtype_and_equality_in_memory": stats["dtype_checks"],
        "of_which_packed_or_unsigned": stats["packed_read_vars"],
        "history_variables_replaced_because_reference_inexact": stats.get("inexact_variables_replaced", 0),
        "read_options_of_histories": stats["read_options"], "read_options_of_field_histories": stats["field_options"],
        "data_objects_checked_under_non_default_read_options": stats["option_sweep_objects"],
        "phase_seconds": phase,
        "exhaustive": False,
    })
    chk.assumptions += [
        "files are not changed on disk while Data objects refer to them",
        "cfdm.masked is never assigned to 0-d data (an in-memory subspace of a masked 0-d array becomes float64: numpy's masked "
        "constant; independent of files and backends, reported to C03)",
        "index expressions avoid the two C03 findings about dependencies (negative-step slice starting below -n; empty sequence "
        "indices on netCDF4-python), which are reported under C03",
        "the variables used for the model correspondence hold integral values of any numeric type (i1..u8, f4, f8) with missing "
        "data, packed with integral scale_factor / add_offset of any type and _Unsigned (every intermediate result exact in "
        "its type: below 2^24 in float32, 2^53 in float64; _Unsigned on int64 and negative int32 under _Unsigned are not "
        "generated); non-integral packing values, strings and compressed data are compared between backends, against "
        "netCDF4-python and against their own copies in memory, outside the model (the model's declared / realised data "
        "types cover them: check_read)",
        "descriptor leaks inside the HDF5 / netCDF C libraries are visible only through /proc/self/fd; the reader's own dataset "
        "handle is modelled (Open ... Close around the scan) and observed only through /proc/self/fd after read returns",
        "compressed (ragged, gathered, geometry) data are outside the Coq model: their laziness, backend agreement and "
        "lazy = eager results are checked on the implementation only",
    ]


def replay(chk, path):
    """Re-run the histories stored in a replay file; exit status 1 while any still fails."""
    d = json.load(open(path))
    bad = 0
    for x in d.get("cases", []):
        c = x.get("input")
        if not isinstance(c, dict) or "ops" not in c or "heap" not in c or "vars" not in c:
            print("not a replayable history (dataset-level finding):", str(c)[:300])
            bad += 1
            continue
        spec = {"vars": [{k: x for k, x in v.items() if not k.startswith("exp_")} for v in c["vars"]]}
        resolve_vars([spec["vars"]])
        case = {"i": 0, "file": 0, "backend": c.get("backend"), "opts": c.get("opts"), "heap": c["heap"], "ops": c["ops"]}
        rc, out, err = lib.run_worker("drive/c12.py", {"mode": "ops", "scratch": chk.scratch, "files": {"0": spec},
                                                        "cases": [case]})
        rows = [r for r in out if isinstance(r, dict) and "i" in r]
        if not rows or "harness_err" in rows[0]:
            print("worker failed:", rc, err[-300:], rows[:1])
            bad += 1
            continue
        n0 = len(chk.failures)
        res = judge_history(chk, case, rows[0], spec, {"ops": {}, "errors": {}, "backends": {}, "stored_types": {},
                                                       "pack_kinds": {}, "read_options": {}})
        fails = chk.failures[n0:]
        if res["lit"] is not None:
            try:
                idx = lib.coq_bad_indices("C12", REQ, "check_ops", [res["lit"]], chunk=10)
            except lib.CoqEvalError as e:
                idx = [0]
                print(str(e)[-300:])
            if idx:
                print("model and implementation disagree on", c["ops"])
                bad += 1
        for f in fails:
            print(f"({f.kind}) {f.signature}: {f.what}"[:400])
        bad += len(fails)
        print(json.dumps(c["ops"])[:300], "->", "still failing" if fails else "passes")
    return 1 if bad else 0
