"""C14 - geometry cells are decoded and encoded as CF chapter 7.5 defines (DESIGN.md section 4, C14).

Families of cases
  R  a geometry container hand-encoded with netCDF4-python from generated cells (cells -> parts -> nodes),
     read by cfdm.read; the field is then written again by cfdm.write and the new file inspected with
     netCDF4-python.  Oracle: the bounds / interior ring / shape presented are the generated cells padded
     with missing data (no decoder involved at all); the re-written raw variables are mutually consistent
     and an independent decoder (decode_raw below) recovers the generated cells.
  RM malformed containers (inconsistent counts, zero counts, ring without part_node_count, ...):
     correspondence with the model only.
  W  a field built through the public API from padded cell arrays, written by cfdm.write.  Oracle: raw
     variables consistent, independent decoder recovers the cells, cfdm.read of the file presents them.
  WM arrays with holes (empty part slots between parts, missing nodes inside a part, ring flags that do
     not match the parts): consistency oracle + correspondence.
"""
import json

import lib
from lib import gz, gnat, gopt, glist

REQ = "From CfdmV Require Import Common.Base C14.Model C14.Run.\nOpen Scope nat_scope."
MODEL_FILES = ["Model", "Run"]
NW = 12


# ---------------------------------------------------------------------------
# generated cells and their encodings (harness side, independent of cfdm)
# ---------------------------------------------------------------------------
def gen_cells(rng, ncells, maxparts, maxnodes, minnodes=1, part_profile=None):
    """cells -> parts -> node positions (the values are filled in per variable)."""
    cells = []
    for c in range(ncells):
        np_ = part_profile[c] if part_profile else rng.choice([1, 1, 2, 3, maxparts][:maxparts + 1])
        np_ = max(1, min(np_, maxparts))
        cells.append([rng.randint(minnodes, maxnodes) for _ in range(np_)])
    return cells  # list of list of node counts


def values_for(layout, k):
    """distinct, exactly representable node values for variable k laid out as cells/parts/nodes"""
    out, v = [], 1 + 400 * k
    for cell in layout:
        cc = []
        for n in cell:
            cc.append(list(range(v, v + n)))
            v += n
        out.append(cc)
    return out


def flat_nodes(cells):
    return [x for cell in cells for part in cell for x in part]


def pad3(cells):
    w1 = max(len(c) for c in cells)
    w2 = max(len(p) for c in cells for p in c)
    out = []
    for c in cells:
        rows = [list(p) + [None] * (w2 - len(p)) for p in c]
        rows += [[None] * w2 for _ in range(w1 - len(c))]
        out.append(rows)
    return out


def pad2(rings):
    w1 = max(len(c) for c in rings)
    return [list(c) + [None] * (w1 - len(c)) for c in rings]


def shape_of(nested):
    s = []
    x = nested
    while isinstance(x, list):
        s.append(len(x))
        x = x[0] if x else None
    return s


def flatten(nested):
    if not isinstance(nested, list):
        return [nested]
    out = []
    for x in nested:
        out += flatten(x)
    return out


def decode_raw(nc, pnc, ring, nodes_list):
    """Independent decoder of CF 7.5 raw variables -> (cells per variable, rings) or an error string.

    nc, pnc, ring: lists of ints or None; nodes_list: one list of values per node coordinate variable."""
    nn = len(nodes_list[0])
    if any(len(x) != nn for x in nodes_list):
        return "node coordinate variables differ in length"
    if nc is None:
        nc = [1] * nn
    if any(c < 1 for c in nc):
        return "node_count has an entry < 1"
    if sum(nc) != nn:
        return f"sum(node_count)={sum(nc)} but the node dimension has size {nn}"
    if pnc is None:
        if ring is not None:
            return "interior_ring without part_node_count"
        parts_of = [[c] for c in nc]
    else:
        if any(p < 1 for p in pnc):
            return "part_node_count has an entry < 1"
        if sum(pnc) != nn:
            return f"sum(part_node_count)={sum(pnc)} but the node dimension has size {nn}"
        if ring is not None and len(ring) != len(pnc):
            return "interior_ring and part_node_count differ in length"
        parts_of, j = [], 0
        for c in nc:
            acc, ps = 0, []
            while acc < c:
                if j >= len(pnc):
                    return "parts exhausted before the cells"
                ps.append(pnc[j])
                acc += pnc[j]
                j += 1
            if acc != c:
                return "a part straddles two cells"
            parts_of.append(ps)
        if j != len(pnc):
            return "parts left over after the last cell"
    out = []
    for nodes in nodes_list:
        cells, pos = [], 0
        for ps in parts_of:
            cell = []
            for n in ps:
                cell.append(nodes[pos:pos + n])
                pos += n
            cells.append(cell)
        out.append(cells)
    rings = None
    if ring is not None:
        rings, j = [], 0
        for ps in parts_of:
            rings.append(ring[j:j + len(ps)])
            j += len(ps)
    return out, rings


def make_R(rng, layout, gtype, with_nc, with_pnc, with_ring, nvars, ncoords, time, fam):
    cells = [values_for(layout, k) for k in range(nvars)]
    nnodes = sum(sum(c) for c in layout)
    rings = None
    if with_ring:
        rings = [[0] + [rng.choice([0, 1, 1]) for _ in c[1:]] for c in layout]
    return {
        "kind": "R", "fam": fam, "gtype": gtype,
        "nc": [sum(c) for c in layout] if with_nc else None,
        "pnc": [n for c in layout for n in c] if with_pnc else None,
        "ring": [x for r in rings for x in r] if rings is not None else None,
        "nvars": nvars, "nnodes": nnodes, "data": [flat_nodes(c) for c in cells],
        "coords": ncoords, "time": time, "rewrite": True,
        "cells": cells, "rings": rings, "layout": layout,
    }


def rand_R(rng, thorough, fam="R-random", profile=None, force=None):
    force = force or {}
    gtype = force.get("gtype") or rng.choice(["polygon", "polygon", "line", "line", "point"])
    ncells = len(profile) if profile else rng.choice([1, 2, 2, 3, 3, 4, 4, 5, 6] + ([7, 8] if thorough else []))
    maxparts = 1 if gtype == "point" else rng.choice([1, 2, 3, 3, 4])
    if profile:
        maxparts = max(profile)
    if gtype == "point":
        maxnodes = rng.choice([1, 1, 2, 3])
    else:
        maxnodes = rng.choice([1, 2, 3, 4, 5])
    minnodes = 1 if rng.random() < 0.7 else min(2, maxnodes)
    layout = gen_cells(rng, ncells, maxparts, maxnodes, minnodes, profile)
    multi = any(len(c) > 1 for c in layout)
    single_nodes = all(c == [1] for c in layout)
    with_nc = True
    if single_nodes and rng.random() < 0.6:
        with_nc = False
    with_pnc = multi or (gtype != "point" and with_nc and rng.random() < 0.45)
    with_ring = gtype == "polygon" and with_pnc and rng.random() < 0.6
    nvars = rng.choice([1, 2, 2, 3])
    ncoords = rng.choice([0, 0, nvars, rng.randint(0, nvars)])
    return make_R(rng, layout, gtype, with_nc, with_pnc, with_ring, nvars, ncoords,
                  rng.random() < 0.3 and with_nc, fam)


PROFILES = [[2, 1, 1, 1], [1, 2, 1], [1, 1, 2], [3, 1, 2, 1, 1], [1, 3], [2, 2, 2], [1, 2, 3, 4], [4, 3, 2, 1],
            [2, 1, 2, 1, 2], [1, 1, 1, 3, 1, 1], [3, 1, 1, 1, 1, 3], [1], [4], [2, 1], [1, 4, 1, 1]]


def malform(rng, c):
    """Return a malformed variant of a valid R case (raw variables only)."""
    m = dict(c)
    m["fam"] = "RM"
    m["rewrite"] = False
    for k in ("cells", "rings", "layout"):
        m.pop(k, None)
    kind = rng.choice(["nc+", "nc-", "pnc+", "pnc-", "nc0", "pnc0", "ring-no-pnc", "pnc-extra", "pnc-short",
                       "nc-shift", "no-nc-pnc", "ring-foreign-dim"])
    if kind == "ring-foreign-dim":
        if c["pnc"] is None:
            kind = "nc+" if c["nc"] else "skip"
        else:
            m["gtype"] = "polygon"
            m["ring"] = [0] * (len(c["pnc"]) + rng.choice([0, 1, 2]))
            m["ring_dim"] = "foreign"
            m["mkind"] = kind
            return m
    nc = list(c["nc"]) if c["nc"] is not None else None
    pnc = list(c["pnc"]) if c["pnc"] is not None else None
    ring = list(c["ring"]) if c["ring"] is not None else None
    if kind in ("nc+", "nc-", "nc0", "nc-shift") and nc is None:
        kind = "pnc+" if pnc else "skip"
    if kind in ("pnc+", "pnc-", "pnc0", "pnc-extra", "pnc-short", "no-nc-pnc") and pnc is None:
        kind = "nc+" if nc else "skip"
    if kind == "nc+":
        nc[rng.randrange(len(nc))] += rng.choice([1, 2])
    elif kind == "nc-":
        i = rng.randrange(len(nc))
        nc[i] = max(1, nc[i] - 1)
    elif kind == "nc0":
        nc[rng.randrange(len(nc))] = 0
    elif kind == "nc-shift" and len(nc) > 1:
        i = rng.randrange(len(nc) - 1)
        nc[i] += 1
        nc[i + 1] = max(1, nc[i + 1] - 1)
    elif kind == "pnc+":
        pnc[rng.randrange(len(pnc))] += 1
    elif kind == "pnc-":
        i = rng.randrange(len(pnc))
        pnc[i] = max(1, pnc[i] - 1)
    elif kind == "pnc0":
        pnc[rng.randrange(len(pnc))] = 0
    elif kind == "pnc-extra":
        pnc.append(rng.choice([1, 2, 7]))
        if ring is not None:
            ring.append(1)
    elif kind == "pnc-short" and len(pnc) > 1:
        pnc.pop()
        if ring is not None:
            ring.pop()
    elif kind == "ring-no-pnc":
        if ring is None:
            ring = [0] * (len(pnc) if pnc else len(nc or [1]))
        pnc = None
        m["gtype"] = "polygon"
    elif kind == "no-nc-pnc":
        nc = None
    m.update({"nc": nc, "pnc": pnc, "ring": ring, "mkind": kind})
    if nc is None and m.get("time"):
        m["time"] = False
    return m


def make_W(rng, layout, gtype, with_ring, nvars, ncoords, fam):
    cells = [values_for(layout, k) for k in range(nvars)]
    rings = None
    if with_ring:
        rings = [[0] + [rng.choice([0, 1, 1]) for _ in c[1:]] for c in layout]
    return {"kind": "W", "fam": fam, "gtype": gtype, "bounds": [pad3(c) for c in cells],
            "ring": pad2(rings) if rings is not None else None, "coords": ncoords,
            "cells": cells, "rings": rings, "layout": layout}


def rand_W(rng, thorough, fam="W-random", profile=None):
    gtype = rng.choice(["polygon", "polygon", "line", "line", "point"])
    ncells = len(profile) if profile else rng.choice([1, 2, 2, 3, 3, 4, 5, 6] + ([7, 8] if thorough else []))
    maxparts = 1 if gtype == "point" and not profile else rng.choice([1, 2, 3, 3, 4])
    if profile:
        maxparts = max(profile)
    maxnodes = rng.choice([1, 2, 3, 4, 5])
    layout = gen_cells(rng, ncells, maxparts, maxnodes, 1, profile)
    with_ring = gtype == "polygon" and rng.random() < 0.6
    nvars = rng.choice([1, 2, 2, 3])
    return make_W(rng, layout, gtype, with_ring, nvars, rng.choice([0, 0, nvars, rng.randint(0, nvars)]), fam)


def hole_W(rng, c):
    """Arrays that are not left-justified paddings: holes in part slots / inside parts / ring mismatches."""
    m = json.loads(json.dumps(c))
    m["fam"] = "WM"
    for k in ("cells", "rings", "layout"):
        m.pop(k, None)
    kind = rng.choice(["part-hole", "node-hole", "ring-extra", "ring-missing"])
    b0 = m["bounds"][0]
    ncells, w1, w2 = len(b0), len(b0[0]), len(b0[0][0])
    ci = rng.randrange(ncells)

    def nonempty(cell):
        return [pi for pi, p in enumerate(cell) if any(x is not None for x in p)]

    if kind == "part-hole":
        # empty one part of a cell that keeps at least one other part (every cell keeps >= 1 node)
        cands = [i for i in range(ncells) if len(nonempty(b0[i])) >= 2]
        if not cands:
            kind = "node-hole"
        else:
            ci = rng.choice(cands)
            pi = rng.choice(nonempty(b0[ci]))
            for b in m["bounds"]:
                b[ci][pi] = [None] * w2
            if m["ring"] is not None and rng.random() < 0.7:
                m["ring"][ci][pi] = None
    if kind == "node-hole":
        cands = [(i, pi) for i in range(ncells) for pi in nonempty(b0[i])
                 if sum(x is not None for x in b0[i][pi]) >= 2]
        if not cands:
            kind = "none"
        else:
            ci, pi = rng.choice(cands)
            ni = rng.choice([k for k, x in enumerate(b0[ci][pi]) if x is not None])
            for b in m["bounds"]:
                b[ci][pi][ni] = None
    elif kind == "ring-extra" and m["ring"] is not None:
        for pi in range(w1):
            if m["ring"][ci][pi] is None:
                m["ring"][ci][pi] = 1
                break
    elif kind == "ring-missing" and m["ring"] is not None:
        present = [(i, pi) for i in range(ncells) for pi in range(w1) if m["ring"][i][pi] is not None]
        if len(present) >= 3:
            i, pi = rng.choice(present)
            m["ring"][i][pi] = None
    m["mkind"] = kind
    return m


# ---------------------------------------------------------------------------
# Gallina printers
# ---------------------------------------------------------------------------
def g_nats(xs):
    return glist(xs, gnat)


def g_zs(xs):
    return glist(xs, gz)


def g_ozs(xs):
    return glist(xs, lambda x: gopt(x, gz))


def g_oarr(o):
    return f"({g_nats(o['shape'])}, {g_ozs(o['flat'])})"


def g_arr3(a):
    return glist(a, lambda cell: glist(cell, g_ozs))


def g_arr2(a):
    return glist(a, g_ozs)


def intlist_ok(xs):
    return all(isinstance(x, int) and not isinstance(x, bool) for x in xs)


def oarr_ok(o):
    return (isinstance(o, dict) and all(0 <= s < 4000 for s in o["shape"])
            and all(x is None or isinstance(x, int) for x in o["flat"]))


def obs_literal(coords, nvars):
    """Gallina literal (option (list oarr * option oarr * list nat)) of what one field presents."""
    names = ["x", "y", "z"][:nvars]
    if not coords:
        return "None"
    by = {coord_key(o): o for o in coords}
    if sorted(by) != sorted(names) or len(coords) != len(names):
        return None
    os_ = [by[n] for n in names]
    if not all(oarr_ok(o["bounds"]) for o in os_):
        return None
    rings = [o["ring"] for o in os_]
    if any(json.dumps(x) != json.dumps(rings[0]) for x in rings):
        return None
    shapes = [o["shape"] for o in os_]
    if any(s != shapes[0] for s in shapes) or not isinstance(shapes[0], list):
        return None
    if rings[0] is not None and not oarr_ok(rings[0]):
        return None
    ring = "None" if rings[0] is None else f"(Some {g_oarr(rings[0])})"
    return f"(Some ({glist([o['bounds'] for o in os_], g_oarr)}, {ring}, {g_nats(shapes[0])}))"


def read_literal(c, r):
    """Gallina literal of an R case with what cfdm presented; None if unprintable."""
    if "read_exc" in r or "driver_exc" in r or "obs" not in r:
        return None
    obs = obs_literal(r["obs"]["coords"], c["nvars"])
    if obs is None:
        return None
    # the type annotation keeps a shard of few cases (all None in some position) typable
    return (f"(({gopt(c['nc'], g_nats)}, {gopt(c['pnc'], g_nats)}, {gopt(c['ring'], g_zs)}, "
            f"{gnat(c['nnodes'])}, {glist(c['data'], g_zs)}, {obs}) : read_case)")


def pick_container(raw, gname=None):
    cs = raw.get("containers", [])
    if gname is not None:
        cs = [g for g in cs if g.get("name") == gname]
    if len(cs) != 1 or cs[0].get("missing"):
        return None
    return cs[0]


def raw_tuple(raw, gname=None):
    """(nc, pnc, ring, [nodes...]) from the netCDF4-python view of a written file, or an error string."""
    g = pick_container(raw, gname)
    if g is None:
        return "no single geometry container"
    for k in ("nc", "pnc", "ring"):
        if g[k] is not None and "missing" in g[k]:
            return f"{k} variable named by the container is missing"
    if any((n is None or "missing" in n) for n in g["nodes"]) or not g["nodes"]:
        return "node coordinate variable missing"
    nodes = sorted(g["nodes"], key=lambda n: n["attrs"].get("axis", n["name"]))
    nc = g["nc"]["values"] if g["nc"] else None
    pnc = g["pnc"]["values"] if g["pnc"] else None
    ring = g["ring"]["values"] if g["ring"] else None
    return nc, pnc, ring, [n["values"] for n in nodes]


def write_literal(c, r):
    if "build_exc" in r or "driver_exc" in r:
        return None
    if "write_exc" in r:
        if not r["write_exc"].startswith(("ValueError", "IndexError")):
            return None
        obs = "None"
    else:
        t = raw_tuple(r["raw"])
        if isinstance(t, str):
            return None
        nc, pnc, ring, nodes = t
        if nc is None or not intlist_ok(nc) or not all(intlist_ok(n) for n in nodes):
            return None
        if any(x < 0 for x in nc) or (pnc is not None and any(x < 0 for x in pnc)):
            return None
        obs = f"(Some ({g_nats(nc)}, {gopt(pnc, g_nats)}, {gopt(ring, g_zs)}, {glist(nodes, g_zs)}))"
    ring = "None" if c["ring"] is None else f"(Some {g_arr2(c['ring'])})"
    return f"(({glist(c['bounds'], g_arr3)}, {ring}, {obs}) : write_case)"


# ---------------------------------------------------------------------------
# property oracles
# ---------------------------------------------------------------------------
def raw_dims_consistent(raw, gname=None, datavar_dims=None):
    """Dimension-level consistency of the written container (netCDF4 view)."""
    g = pick_container(raw, gname)
    probs = []
    dv = datavar_dims if datavar_dims is not None else g["datavar_dims"]
    if g["nc"] is not None:
        if g["nc"]["dims"][0] not in dv:
            probs.append("node_count is not on a dimension of the data variable")
    elif not any(n["dims"][0] in dv for n in g["nodes"] if isinstance(n, dict) and n.get("dims")):
        probs.append("no node_count, and the node dimension is not a dimension of the data variable")
    nd = {tuple(n["dims"]) for n in g["nodes"]}
    if len(nd) != 1:
        probs.append("node coordinate variables on different dimensions")
    if g["ring"] is not None and g["pnc"] is None:
        probs.append("interior_ring written without part_node_count")
    if g["ring"] is not None and g["pnc"] is not None and g["ring"]["dims"] != g["pnc"]["dims"]:
        probs.append("interior_ring and part_node_count on different dimensions")
    for rep in g.get("reps", []):
        if rep["nodes"] is None:
            probs.append(f"representative coordinate {rep['name']} has no nodes attribute")
    return probs


def coord_key(o):
    """x / y / z from the axis property of the node coordinates, else their netCDF name"""
    ax = o.get("axis")
    return {"X": "x", "Y": "y", "Z": "z"}.get(ax, o["bncvar"])


def presented_ok(chk, c, obs, where, sigprefix, inp=None):
    """The cells presented by cfdm equal the generated cells padded with missing data."""
    names = ["x", "y", "z"][:len(c["cells"])]
    by = {coord_key(o): o for o in obs["coords"]}
    ok = True
    inp = strip(inp if inp is not None else c)

    def bad(sig, what, exp, got):
        nonlocal ok
        ok = False
        chk.fail("property", sig, f"{where}: {what}", {"input": inp, "expected": exp, "observed": got})

    if sorted(by) != sorted(names):
        bad(sigprefix + "-no-geometry", f"node coordinate variables {names} presented as {sorted(by)}", names, sorted(by))
        return False
    ncells = len(c["layout"])
    for k, n in enumerate(names):
        o = by[n]
        exp = pad3(c["cells"][k])
        expo = {"shape": shape_of(exp), "flat": flatten(exp)}
        if o["bounds"] != expo:
            bad(sigprefix + "-cells-wrong", f"bounds of {n} are not the cells in file order padded with missing data",
                expo, o["bounds"])
        if c.get("rings") is not None:
            expr = pad2(c["rings"])
            expro = {"shape": shape_of(expr), "flat": flatten(expr)}
            if o["ring"] != expro:
                bad(sigprefix + "-rings-wrong", f"interior ring flags of {n} are not attached to their parts", expro, o["ring"])
        elif o["ring"] is not None:
            bad(sigprefix + "-rings-wrong", f"{n} has an interior ring variable that was not in the input", None, o["ring"])
        if o["shape"] != [ncells] or o.get("ndim") != 1 or o.get("size") != ncells:
            bad(sigprefix + "-shape-wrong", f"shape/ndim/size of the coordinate for {n} are not those of the cells",
                {"shape": [ncells], "ndim": 1, "size": ncells},
                {"shape": o["shape"], "ndim": o.get("ndim"), "size": o.get("size")})
        if o["geometry"] != c["gtype"]:
            bad(sigprefix + "-type-wrong", f"geometry type of {n}", c["gtype"], o["geometry"])
        want_data = k < (c.get("coords") or 0)
        if o["has_data"] != want_data:
            bad(sigprefix + "-representative-wrong", f"{n}: representative coordinate values present={o['has_data']}",
                want_data, o["has_data"])
    return ok


def raw_ok(chk, c, raw, where, sigprefix, gname=None, datavar_dims=None, inp=None):
    """The written raw variables are mutually consistent and decode (independently) to the cells."""
    inp = strip(inp if inp is not None else c)

    def bad(sig, what, exp, got):
        chk.fail("property", sig, f"{where}: {what}", {"input": inp, "expected": exp, "observed": got})

    t = raw_tuple(raw, gname)
    if isinstance(t, str):
        bad(sigprefix + "-container", t, None, raw)
        return False
    nc, pnc, ring, nodes = t
    probs = raw_dims_consistent(raw, gname, datavar_dims)
    if probs:
        bad(sigprefix + "-inconsistent", "; ".join(probs), None, {"nc": nc, "pnc": pnc, "ring": ring})
        return False
    d = decode_raw(nc, pnc, ring, nodes)
    if isinstance(d, str):
        bad(sigprefix + "-inconsistent", f"written count/ring variables are inconsistent: {d}", None,
            {"nc": nc, "pnc": pnc, "ring": ring, "nnodes": len(nodes[0])})
        return False
    cells, rings = d
    if "cells" in c:
        if cells != c["cells"]:
            bad(sigprefix + "-cells-differ", "an independent decoder does not recover the cells from the written file",
                c["cells"], cells)
            return False
        if (rings or None) != (c.get("rings") or None):
            bad(sigprefix + "-rings-differ", "an independent decoder does not recover the ring flags", c.get("rings"), rings)
            return False
        if pick_container(raw, gname)["gtype"] != c["gtype"]:
            bad(sigprefix + "-type-wrong", "geometry_type attribute", c["gtype"], pick_container(raw, gname)["gtype"])
            return False
    return True


def strip(c):
    return {k: v for k, v in c.items() if k not in ("cells",)}


# ---------------------------------------------------------------------------
# second pass: several data variables / containers per dataset; several fields per write
# ---------------------------------------------------------------------------
def repartition(rng, layout, mode):
    """Another layout with the same number of cells and the same total number of nodes (so that the
    flattened node values are identical) but a different division into cells / parts."""
    ncells = len(layout)
    total = sum(sum(c) for c in layout)
    for _ in range(30):
        if mode == "cells" and ncells > 1 and total > ncells:
            # other node counts per cell, same parts-per-cell where possible
            cuts = sorted(rng.sample(range(1, total), ncells - 1))
            sizes = [b - a for a, b in zip([0] + cuts, cuts + [total])]
            new = []
            for n, old in zip(sizes, layout):
                k = min(len(old), n)
                cs = sorted(rng.sample(range(1, n), k - 1)) if k > 1 else []
                new.append([b - a for a, b in zip([0] + cs, cs + [n])])
        else:
            # same node count per cell, parts split differently
            new = []
            for old in layout:
                n = sum(old)
                k = rng.randint(1, min(n, 3))
                cs = sorted(rng.sample(range(1, n), k - 1)) if k > 1 else []
                new.append([b - a for a, b in zip([0] + cs, cs + [n])])
        if new != layout:
            return new
    return None


def cont_from_layout(rng, layout, gtype, with_nc, with_pnc, with_ring, nvars, ncoords, voff):
    cells = [values_for(layout, k + voff) for k in range(nvars)]
    rings = None
    if with_ring:
        rings = [[0] + [rng.choice([0, 1, 1]) for _ in c[1:]] for c in layout]
    return {"gtype": gtype, "nc": [sum(c) for c in layout] if with_nc else None,
            "pnc": [n for c in layout for n in c] if with_pnc else None,
            "ring": [x for r in rings for x in r] if rings is not None else None,
            "nvars": nvars, "nnodes": sum(sum(c) for c in layout), "data": [flat_nodes(c) for c in cells],
            "coords": ncoords, "cells": cells, "rings": rings, "layout": layout}


def rand_cont(rng, layout, voff, gtype=None):
    gtype = gtype or rng.choice(["polygon", "line", "line", "point"])
    multi = any(len(c) > 1 for c in layout)
    if gtype == "point" and multi:
        gtype = "line"
    single_nodes = all(c == [1] for c in layout)
    with_nc = not (single_nodes and rng.random() < 0.5)
    with_pnc = multi or (gtype != "point" and with_nc and rng.random() < 0.5)
    with_ring = gtype == "polygon" and with_pnc and rng.random() < 0.6
    nvars = rng.choice([1, 1, 2])
    return cont_from_layout(rng, layout, gtype, with_nc, with_pnc, with_ring, nvars,
                            rng.choice([0, 0, 0, 1, nvars]), voff)


def rand_M(rng, thorough, fam="M-random"):
    ncells = rng.choice([1, 2, 2, 3, 3, 4])
    maxparts = rng.choice([1, 2, 3])
    lay0 = gen_cells(rng, ncells, maxparts, rng.choice([1, 2, 3, 4]))
    conts = [rand_cont(rng, lay0, 0)]
    two = rng.random() < 0.45
    if two:
        mode = rng.choice(["cells", "parts", "same", "independent"])
        lay1 = None
        if mode in ("cells", "parts"):
            lay1 = repartition(rng, lay0, mode)
        elif mode == "same":
            lay1 = [list(c) for c in lay0]
        if lay1 is None:
            lay1 = gen_cells(rng, rng.choice([1, 2, 3, 4]), rng.choice([1, 2, 3]), rng.choice([1, 2, 3, 4]))
        conts.append(rand_cont(rng, lay1, 3, conts[0]["gtype"] if rng.random() < 0.5 else None))
    # netCDF dimensions: containers with equal sizes may share them
    a = conts[0]
    a.update({"idim": 0, "ndim": 0, "pdim": 0})
    if two:
        b = conts[1]
        b["idim"] = 0 if (a["nc"] is not None and b["nc"] is not None and len(a["nc"]) == len(b["nc"])
                          and rng.random() < 0.6) else 1
        b["ndim"] = 0 if (a["nc"] is not None and b["nc"] is not None and a["nnodes"] == b["nnodes"]
                          and rng.random() < 0.7) else 1
        b["pdim"] = 0 if (a["pnc"] is not None and b["pnc"] is not None and len(a["pnc"]) == len(b["pnc"])
                          and rng.random() < 0.7) else 1
    nv = rng.choice([2, 2, 3])
    dvs = [{"container": 0}]
    for i in range(1, nv):
        dvs.append({"container": rng.choice([0, 0, 1]) if two else 0})
    if two and not any(d["container"] == 1 for d in dvs):
        dvs[-1]["container"] = 1
    rng.shuffle(dvs)
    if two and conts[0]["nc"] is not None and conts[1]["nc"] is not None and conts[0]["idim"] == conts[1]["idim"]:
        for d in dvs:
            other = 1 - d["container"]
            if conts[other]["coords"] and rng.random() < 0.35:
                d["foreign_rep"] = other
    invalid = False
    if rng.random() < 0.08:
        i = rng.randrange(nv)
        dvs[i]["dim"] = "other"
        invalid = True
    return {"kind": "M", "fam": fam + ("-invalid-dim" if invalid else ""), "containers": conts, "datavars": dvs,
            "rewrite": True}


def rand_W2(rng, thorough, fam="W2"):
    gtype = rng.choice(["polygon", "polygon", "line"])
    ncells = rng.choice([1, 2, 2, 3, 3, 4])
    lay0 = gen_cells(rng, ncells, rng.choice([1, 2, 3]), rng.choice([2, 3, 4]))
    nvars = rng.choice([1, 1, 2])
    with_ring = gtype == "polygon" and rng.random() < 0.6
    fields = [make_W(rng, lay0, gtype, with_ring, nvars, rng.choice([0, 0, nvars]), fam)]
    modes = []
    for _ in range(rng.choice([1, 1, 2])):
        mode = rng.choice(["cells", "parts", "ring", "same", "independent"])
        lay = None
        ring = with_ring
        if mode in ("cells", "parts"):
            lay = repartition(rng, lay0, mode)
        elif mode in ("ring", "same"):
            lay = [list(c) for c in lay0]
        if lay is None:
            mode = "independent"
            lay = gen_cells(rng, rng.choice([1, 2, 3, 4]), rng.choice([1, 2, 3]), rng.choice([2, 3, 4]))
        f = make_W(rng, lay, gtype, ring, nvars, rng.choice([0, 0, nvars]), fam)
        if mode == "same" and fields[0]["rings"] is not None:
            f["rings"] = [list(r) for r in fields[0]["rings"]]
            f["ring"] = pad2(f["rings"])
        if mode == "ring":
            if gtype == "polygon" and any(len(c) > 1 for c in lay):
                # same cells, other ring flags (or a ring variable where the first field has none)
                base = fields[0]["rings"]
                for _ in range(10):
                    rings = [[0] + [rng.choice([0, 1]) for _ in c[1:]] for c in lay]
                    if rings != base:
                        break
                f["rings"] = rings
                f["ring"] = pad2(rings)
            else:
                mode = "same"
        modes.append(mode)
        fields.append(f)
    return {"kind": "W2", "fam": fam, "share_axis": rng.random() < 0.8, "fields": fields, "modes": modes}


def g_cont(g):
    return (f"({gopt(g['nc'], g_nats)}, {gopt(g['pnc'], g_nats)}, {gopt(g['ring'], g_zs)}, {gnat(g['nnodes'])}, "
            f"{glist(g['data'], g_zs)}, {gnat(g['idim'])}, {gnat(100 + g['ndim'])}, {gnat(300 + g['pdim'])})")


def readm_literal(c, r):
    if "driver_exc" in r:
        return None
    dvs = []
    for i, d in enumerate(c["datavars"]):
        g = c["containers"][d["container"]]
        own = g["idim"] if g["nc"] is not None else 100 + g["ndim"]
        dvs.append(f"({gnat(d['container'])}, [{gnat(200 + i) if d.get('dim') == 'other' else gnat(own)}])")
    if "read_exc" in r:
        return None    # the model never raises (Lemmas.read_dataset_total)
    else:
        per = []
        for i, d in enumerate(c["datavars"]):
            o = r["obs"].get(f"v{i}")
            if o is None:
                return None
            lit = obs_literal(o["coords"], c["containers"][d["container"]]["nvars"])
            if lit is None:
                return None
            per.append(lit)
        obs = "(Some [" + "; ".join(per) + "])"
    return f"(([{'; '.join(g_cont(g) for g in c['containers'])}], [{'; '.join(dvs)}], {obs}) : readm_case)"


def write2_literal(c, r):
    if "driver_exc" in r or "write_exc" in r or "raw" not in r:
        return None
    dims = {}
    fs, obs = [], []
    for k, f in enumerate(c["fields"]):
        dv = r["raw"]["datavars"].get(f"v{k}")
        if dv is None:
            return None
        gd = dims.setdefault(dv["dims"][0], len(dims))
        ring = "None" if f["ring"] is None else f"(Some {g_arr2(f['ring'])})"
        fs.append(f"({glist(f['bounds'], g_arr3)}, {ring}, {gnat(gd)})")
        t = raw_tuple(r["raw"], dv["container"])
        if isinstance(t, str):
            return None
        nc, pnc, rg, nodes = t
        if nc is None or not intlist_ok(nc) or not all(intlist_ok(n) for n in nodes):
            return None
        if any(x < 0 for x in nc) or (pnc is not None and any(x < 0 for x in pnc)):
            return None
        obs.append(f"(Some ({g_nats(nc)}, {gopt(pnc, g_nats)}, {gopt(rg, g_zs)}, {glist(nodes, g_zs)}))")
    return f"(([{'; '.join(fs)}], [{'; '.join(obs)}]) : write2_case)"


def oracle_M(chk, c, r):
    ok = True
    if "read_exc" in r:
        # (also with a data variable that is not on its container's cell dimension: that variable is
        # read without geometry and reported - /repo f336e6e -, the others keep their cells)
        chk.fail("property", "read-crash", f"reading a dataset whose data variables share geometry containers failed: "
                 f"{r['read_exc']}", {"input": strip_m(c), "observed": r["read_exc"]})
        return False
    for i, d in enumerate(c["datavars"]):
        g = c["containers"][d["container"]]
        o = r["obs"].get(f"v{i}")
        if o is None:
            chk.fail("property", "read-no-field", f"data variable v{i} was not read as a field",
                     {"input": strip_m(c), "observed": sorted(r["obs"])})
            ok = False
            continue
        if d.get("dim") == "other":
            # not on the cell dimension: the cells cannot be mapped onto its axes - no geometry
            if o["coords"]:
                chk.fail("property", "shared-read-geometry-off-dimension",
                         f"data variable v{i}, which does not span the cell dimension of container "
                         f"{d['container']}, was given geometry cells",
                         {"input": strip_m(c), "expected": "no geometry constructs", "observed": o["coords"]})
                ok = False
            continue
        ok = presented_ok(chk, g, o, f"cfdm.read, data variable v{i} (of {len(c['datavars'])}) naming container "
                          f"{d['container']} (of {len(c['containers'])})", "shared-read", inp=strip_m(c)) and ok
    if "write_exc" in r:
        chk.fail("property", "write-crash", f"writing the fields just read failed: {r['write_exc']}",
                 {"input": strip_m(c), "observed": r["write_exc"]})
        return False
    if ok and "raw" in r:
        for i, d in enumerate(c["datavars"]):
            g = c["containers"][d["container"]]
            dv = r["raw"]["datavars"].get(f"v{i}")
            if d.get("dim") == "other":
                # read without geometry, so written without one
                if dv is not None:
                    chk.fail("property", "shared-rewrite-geometry-off-dimension",
                             f"v{i} (read without geometry) was written with a geometry container",
                             {"input": strip_m(c), "expected": "no geometry attribute", "observed": dv})
                    ok = False
                continue
            if dv is None:
                chk.fail("property", "shared-rewrite-no-geometry", f"v{i} was written without a geometry container",
                         {"input": strip_m(c), "expected": "a geometry attribute", "observed": r["raw"]["datavars"]})
                ok = False
                continue
            ok = raw_ok(chk, g, r["raw"], f"cfdm.write of the fields read from a shared-container dataset, v{i}",
                        "shared-rewrite", gname=dv["container"], datavar_dims=dv["dims"], inp=strip_m(c)) and ok
            o2 = r.get("obs2", {}).get(f"v{i}")
            if o2 is None:
                chk.fail("property", "shared-roundtrip-no-field", f"v{i} is missing after write and read",
                         {"input": strip_m(c), "observed": sorted(r.get("obs2", {}))})
                ok = False
            else:
                ok = presented_ok(chk, g, o2, f"cfdm.read of the rewritten dataset, v{i}", "shared-roundtrip",
                                  inp=strip_m(c)) and ok
    return ok


def oracle_W2(chk, c, r):
    ok = True
    if "write_exc" in r:
        chk.fail("property", "write-crash", f"writing several geometry fields to one dataset failed: {r['write_exc']}",
                 {"input": strip_m(c), "observed": r["write_exc"]})
        return False
    if "read_exc" in r:
        chk.fail("property", "read-crash", f"reading back several geometry fields failed: {r['read_exc']}",
                 {"input": strip_m(c), "observed": r["read_exc"]})
        return False
    for k, f in enumerate(c["fields"]):
        dv = r["raw"]["datavars"].get(f"v{k}")
        if dv is None:
            chk.fail("property", "fields-no-geometry", f"field {k} was written without a geometry container",
                     {"input": strip_m(c), "observed": r["raw"]["datavars"]})
            ok = False
            continue
        ok = raw_ok(chk, f, r["raw"], f"cfdm.write of {len(c['fields'])} fields to one dataset, field {k} "
                    f"(relation to field 0: {(['first'] + c['modes'])[k]})", "fields-write",
                    gname=dv["container"], datavar_dims=dv["dims"], inp=strip_m(c)) and ok
        o = r["obs"].get(f"v{k}")
        if o is None:
            chk.fail("property", "fields-roundtrip-no-field", f"field {k} is missing after write and read",
                     {"input": strip_m(c), "observed": sorted(r["obs"])})
            ok = False
        else:
            ok = presented_ok(chk, f, o, f"cfdm.read of the dataset holding {len(c['fields'])} fields, field {k} "
                              f"(relation to field 0: {(['first'] + c['modes'])[k]})", "fields-roundtrip",
                              inp=strip_m(c)) and ok
    return ok


def strip_m(c):
    out = {k: v for k, v in c.items() if k not in ("containers", "fields")}
    if "containers" in c:
        out["containers"] = [{k: v for k, v in g.items() if k not in ("cells", "_reps", "_ncells")} for g in c["containers"]]
    if "fields" in c:
        out["fields"] = [{k: v for k, v in f.items() if k != "cells"} for f in c["fields"]]
    return out


def payload_of(c):
    """what the driver needs (the generator's knowledge of the cells stays here)"""
    drop = ("cells", "rings", "layout", "fam")
    out = {k: v for k, v in c.items() if k not in drop + ("containers", "fields", "modes")}
    if "containers" in c:
        out["containers"] = [{k: v for k, v in g.items() if k not in drop} for g in c["containers"]]
    if "fields" in c:
        out["fields"] = [{k: v for k, v in f.items() if k not in drop} for f in c["fields"]]
    return out



CORPUS = [
    # a single multi-part cell without rings; only the LAST cell multi-part
    lambda rng: rand_R(rng, False, "corpus-single-cell", [3], {"gtype": "line"}),
    lambda rng: rand_W(rng, False, "corpus-single-cell", [3]),
    lambda rng: rand_R(rng, False, "corpus-last-cell-multipart", [1, 1, 1, 2], {"gtype": "line"}),
    lambda rng: rand_W(rng, False, "corpus-last-cell-multipart", [1, 1, 3]),
    # F14a: four polygons with parts-per-cell [2,1,1,1]
    lambda rng: rand_R(rng, False, "corpus-F14a", [2, 1, 1, 1], {"gtype": "polygon"}),
    lambda rng: rand_R(rng, False, "corpus-F14a", [1, 2, 1, 1], {"gtype": "line"}),
    # F14b: a one-part cell before a many-part cell
    lambda rng: rand_W(rng, False, "corpus-F14b", [1, 2]),
    lambda rng: rand_W(rng, False, "corpus-F14b", [1, 3, 1, 2]),
]


def small_layouts(maxcells, maxparts):
    import itertools
    cells = [list(t) for p in range(1, maxparts + 1) for t in itertools.product([1, 2], repeat=p)]
    out = []
    for n in range(1, maxcells + 1):
        out += [list(t) for t in itertools.product(cells, repeat=n)]
    return out


def nontrivial(c):
    if c["kind"] == "M":
        return len(c["datavars"]) > 1
    if c["kind"] == "W2":
        return len(c["fields"]) > 1
    if c["kind"] == "R":
        if "layout" not in c:
            return True
        return len(c["layout"]) > 1 and (any(len(x) > 1 for x in c["layout"]) or len({sum(x) for x in c["layout"]}) > 1)
    b = c["bounds"][0]
    return len(b) > 1 and (len(b[0]) > 1 or len(b[0][0]) > 1)


def gen_cases(chk):
    rng = chk.rng
    thorough = chk.tier == "thorough"
    cases = [mk(rng) for mk in CORPUS]
    # F14c: polygons that all have one part, with an interior ring variable
    c = make_R(rng, [[3], [4]], "polygon", True, True, True, 1, 0, False, "corpus-F14c")
    cases.append(c)
    nprof = 40 if thorough else 6
    for prof in PROFILES:
        for _ in range(nprof):
            cases.append(rand_R(rng, thorough, "R-profile", prof))
            cases.append(rand_W(rng, thorough, "W-profile", prof))
    # every layout with up to 3 cells, up to 2 (quick) / 3 (thorough) parts per cell, 1 or 2 nodes per part
    for lay in small_layouts(3, 3 if thorough else 2):
        gtype = rng.choice(["line", "polygon"])
        ring = gtype == "polygon" and rng.random() < 0.5
        cases.append(make_R(rng, lay, gtype, True, True, ring, 1, rng.choice([0, 1]), False, "R-exhaustive"))
        if thorough:
            cases.append(make_W(rng, lay, gtype, ring, 1, 0, "W-exhaustive"))
    nR = 9000 if thorough else 1300
    valid = [rand_R(rng, thorough) for _ in range(nR)]
    cases += valid
    nM = 3000 if thorough else 500
    for _ in range(nM):
        m = malform(rng, rng.choice(valid))
        if m.get("mkind") != "skip":
            cases.append(m)
    nW = 5000 if thorough else 900
    ws = [rand_W(rng, thorough) for _ in range(nW)]
    cases += ws
    nWM = 1500 if thorough else 300
    for _ in range(nWM):
        cases.append(hole_W(rng, rng.choice(ws)))
    # other file routes for the same containers: the h5netcdf backend, netCDF-3 / classic formats on
    # both sides (hand-encoded file, file written by cfdm)
    for c in cases:
        if c["kind"] == "R" and c.get("rewrite"):
            u = rng.random()
            if u < 0.15:
                c["backend"] = "h5netcdf"
            elif u < 0.25:
                c["fmt"] = rng.choice(["NETCDF3_CLASSIC", "NETCDF4_CLASSIC", "NETCDF3_64BIT_OFFSET"])
            if rng.random() < 0.15:
                c["wfmt"] = rng.choice(["NETCDF3_CLASSIC", "NETCDF4_CLASSIC", "NETCDF3_64BIT_DATA"])
            if rng.random() < 0.08 and not c.get("fmt"):
                c["domain"] = True    # the same container also named by a CF-1.9 domain variable
    # second pass: data variables sharing containers, containers sharing dimensions, fields sharing a dataset
    cases += corpus2(rng)
    cases += [rand_M(rng, thorough) for _ in range(4000 if thorough else 450)]
    cases += [rand_W2(rng, thorough) for _ in range(3000 if thorough else 350)]
    return cases


def corpus2(rng):
    out = []
    # seed missed in round 3: several data variables naming ONE container, no representative coordinates
    for lay in ([[2], [3]], [[1, 2], [3]], [[2], [1, 1], [3]]):
        g = cont_from_layout(rng, lay, "line", True, any(len(c) > 1 for c in lay), False, 1, 0, 0)
        g.update({"idim": 0, "ndim": 0, "pdim": 0})
        out.append({"kind": "M", "fam": "corpus-shared-container", "containers": [g],
                    "datavars": [{"container": 0}, {"container": 0}, {"container": 0}], "rewrite": True})
    # two containers on the same node (and part) dimension, divided differently
    a = cont_from_layout(rng, [[1, 2], [3]], "line", True, True, False, 1, 0, 0)
    b = cont_from_layout(rng, [[2], [1, 3]], "line", True, True, False, 1, 0, 3)
    a.update({"idim": 0, "ndim": 0, "pdim": 0})
    b.update({"idim": 0, "ndim": 0, "pdim": 0})
    out.append({"kind": "M", "fam": "corpus-shared-node-dimension", "containers": [a, b],
                "datavars": [{"container": 0}, {"container": 1}], "rewrite": True})
    # two fields whose node coordinates flatten to the same values, divided differently
    for lay0, lay1 in (([[3], [3]], [[2], [4]]), ([[1, 2], [3]], [[3], [1, 2]]), ([[2, 2]], [[1, 3]])):
        f0 = make_W(rng, lay0, "line", False, 1, 0, "corpus-fields")
        f1 = make_W(rng, lay1, "line", False, 1, 0, "corpus-fields")
        out.append({"kind": "W2", "fam": "corpus-fields-same-nodes", "share_axis": True, "fields": [f0, f1],
                    "modes": ["cells"]})
    f0 = make_W(rng, [[3, 3], [3]], "polygon", True, 1, 0, "corpus-fields")
    f1 = make_W(rng, [[3, 3], [3]], "polygon", True, 1, 0, "corpus-fields")
    f0["rings"], f1["rings"] = [[0, 1], [0]], [[0, 0], [0]]
    f0["ring"], f1["ring"] = pad2(f0["rings"]), pad2(f1["rings"])
    out.append({"kind": "W2", "fam": "corpus-fields-same-nodes", "share_axis": True, "fields": [f0, f1],
                "modes": ["ring"]})
    return out


def run_parallel(chk, payloads, timeout=3000):
    """Start every worker at once with its payload on stdin (from a file) and collect the JSON lines.
    (lib.run_workers_parallel hands a worker its payload only when its turn to be collected comes.)"""
    import os
    import subprocess
    procs = []
    for w, p in enumerate(payloads):
        fin = os.path.join(chk.scratch, f"payload_{w}.json")
        with open(fin, "w") as fh:
            json.dump(p, fh)
        fout = open(os.path.join(chk.scratch, f"out_{w}.jsonl"), "w+")
        ferr = open(os.path.join(chk.scratch, f"err_{w}.txt"), "w+")
        pr = subprocess.Popen([lib.PY, os.path.join(lib.VERIF, "harness", "drive/c14.py")],
                              stdin=open(fin), stdout=fout, stderr=ferr, env=lib.child_env(), text=True)
        procs.append((pr, fout, ferr))
    res = []
    for pr, fout, ferr in procs:
        try:
            pr.wait(timeout=timeout)
        except subprocess.TimeoutExpired:
            pr.kill()
            pr.wait()
        fout.seek(0)
        ferr.seek(0)
        rows = []
        for line in fout.read().splitlines():
            line = line.strip()
            if line.startswith("{"):
                try:
                    rows.append(json.loads(line))
                except Exception:
                    pass
        res.append((pr.returncode, rows, ferr.read()[-2000:]))
        fout.close()
        ferr.close()
    return res


def drive(chk, cases):
    shards = [cases[i::NW] for i in range(NW)]
    payloads = [{"dir": chk.scratch, "tag": f"s{w}", "cases": [payload_of(c) for c in sh]}
                for w, sh in enumerate(shards)]
    res = run_parallel(chk, payloads)
    rows = [None] * len(cases)
    for w, (rc, out, err) in enumerate(res):
        for row in out:
            j = row.get("i")
            if isinstance(j, int) and w + j * NW < len(cases):
                rows[w + j * NW] = row
        if rc != 0 or len(out) != len(shards[w]):
            # a dead worker: attribute it to the first case without a row
            missing = [w + j * NW for j in range(len(shards[w])) if rows[w + j * NW] is None]
            first = cases[missing[0]] if missing else None
            chk.fail("property", "crash", f"C14 worker {w} died (rc={rc}) while running a geometry case: {err[-400:]}",
                     {"input": strip(first) if first else None, "observed": f"rc={rc}"})
    return rows


def oracle(chk, c, r):
    """Property oracle for one case; returns True if the property holds on it."""
    ok = True
    if "driver_exc" in r:
        chk.fail("correspondence", "harness-error", f"driver raised {r['driver_exc']}",
                 {"correspondence": "drive/c14.py", "input": strip_m(c), "observed": r})
        return False
    if c["kind"] == "M":
        return oracle_M(chk, c, r)
    if c["kind"] == "W2":
        return oracle_W2(chk, c, r)
    if c["kind"] == "R" and c.get("ring_dim") == "foreign":
        # an interior ring variable that does not span the part dimension cannot be attached to the
        # parts: the container has to be refused (no geometry constructs), not decoded
        if "read_exc" in r:
            return True
        if r["obs"]["coords"]:
            chk.fail("property", "read-foreign-ring-accepted",
                     "a container whose interior ring variable is not on the part dimension was decoded",
                     {"input": strip(c), "expected": "no geometry constructs", "observed": r["obs"]["coords"]})
            return False
        return True
    if c["kind"] == "R" and "cells" in c:
        if "read_exc" in r:
            chk.fail("property", "read-crash", f"reading a valid geometry container failed: {r['read_exc']}",
                     {"input": strip(c), "expected": "the cells", "observed": r["read_exc"]})
            return False
        ok = presented_ok(chk, c, r["obs"], "cfdm.read of a hand-encoded container", "read") and ok
        if c.get("domain"):
            if "dom_exc" in r:
                chk.fail("property", "read-crash", f"cfdm.read(domain=True) failed: {r['dom_exc']}",
                         {"input": strip(c), "observed": r["dom_exc"]})
                ok = False
            else:
                ok = presented_ok(chk, c, r["dobs"], "cfdm.read(domain=True), domain variable naming the container",
                                  "domain-read") and ok
        if "write_exc" in r:
            chk.fail("property", "write-crash", f"writing the field just read failed: {r['write_exc']}",
                     {"input": strip(c), "expected": "a dataset", "observed": r["write_exc"]})
            ok = False
        elif "raw" in r and ok:
            ok = raw_ok(chk, c, r["raw"], "cfdm.write of the field read from a hand-encoded container", "rewrite") and ok
    elif c["kind"] == "W" and "cells" in c:
        if "build_exc" in r:
            chk.fail("correspondence", "harness-error", f"could not build the field: {r['build_exc']}",
                     {"correspondence": "drive/c14.py", "input": strip(c)})
            return False
        ok = presented_ok(chk, c, r["obs0"], "field built through the API", "api") and ok
        if "write_exc" in r:
            chk.fail("property", "write-crash", f"writing a geometry field failed: {r['write_exc']}",
                     {"input": strip(c), "expected": "a dataset", "observed": r["write_exc"]})
            return False
        ok = raw_ok(chk, c, r["raw"], "cfdm.write of a geometry field", "write") and ok
        if "read_exc" in r:
            chk.fail("property", "read-crash", f"reading back the written geometry field failed: {r['read_exc']}",
                     {"input": strip(c), "observed": r["read_exc"]})
            ok = False
        elif "obs" in r:
            ok = presented_ok(chk, c, r["obs"], "cfdm.read of the dataset cfdm.write produced", "roundtrip") and ok
    elif c["kind"] == "W":
        # arrays with holes: whatever is written must still be mutually consistent
        if "write_exc" in r:
            if not r["write_exc"].startswith(("ValueError", "IndexError")):
                chk.fail("property", "write-crash", f"writing failed with {r['write_exc']}",
                         {"input": strip(c), "observed": r["write_exc"]})
                ok = False
        elif "raw" in r:
            ok = raw_ok(chk, c, r["raw"], "cfdm.write of a geometry field with missing parts/nodes", "write") and ok
    return ok


def run(chk, model_ok):
    cases = gen_cases(chk)
    rows = drive(chk, cases)
    done = [(c, r) for c, r in zip(cases, rows) if r is not None]

    explained = set()
    for n, (c, r) in enumerate(done):
        if not oracle(chk, c, r):
            explained.add(n)

    ncorr = 0
    unprintable = 0
    if model_ok:
        for kind, fn, mk in (("R", "check_read", read_literal), ("W", "check_write", write_literal),
                             ("M", "check_readm", readm_literal), ("W2", "check_write2", write2_literal)):
            lits, idx = [], []
            for n, (c, r) in enumerate(done):
                if c["kind"] != kind or c.get("ring_dim") == "foreign":
                    continue
                lit = mk(c, r)
                if lit is None:
                    unprintable += 1
                    if n not in explained:
                        chk.fail("correspondence", "model-vs-impl",
                                 "the implementation's behaviour on this case is outside what the model describes "
                                 "(unexpected exception or presentation)",
                                 {"correspondence": f"C14.Run.{fn}", "input": strip_m(c),
                                  "observed": {k: v for k, v in r.items() if k in ("read_exc", "write_exc", "build_exc", "obs")}})
                    continue
                lits.append(lit)
                idx.append(n)
            bad = lib.coq_bad_indices("C14", REQ, fn, lits, chunk=150)
            ncorr += len(lits)
            for i in bad[:40]:
                n = idx[i]
                if n in explained:
                    continue
                c, r = done[n]
                chk.fail("correspondence", "model-vs-impl",
                         "model and implementation disagree on " +
                         {"R": "the cells presented for a geometry container",
                          "W": "the variables written for geometry cells",
                          "M": "the cells presented to data variables that share geometry containers / dimensions",
                          "W2": "the variables written for several geometry fields in one dataset"}[kind],
                         {"correspondence": f"C14.Run.{fn}", "input": strip_m(c),
                          "observed": r.get("obs") if kind in ("R", "M") else r.get("raw", r.get("write_exc"))})

    fam, feats = {}, {}
    for c, r in done:
        fam[c["fam"]] = fam.get(c["fam"], 0) + 1
        keys = []
        if c["kind"] == "R":
            keys += ["R:" + str(c["gtype"]), "R:nc" if c["nc"] is not None else "R:no-nc",
                     "R:pnc" if c["pnc"] is not None else "R:no-pnc", "R:ring" if c["ring"] is not None else "R:no-ring",
                     f"R:nvars={c['nvars']}", "R:coords" if c.get("coords") else "R:no-coords",
                     "R:extra-dim" if c.get("time") else "R:1d"]
            if "layout" in c:
                lay = c["layout"]
                keys += ["R:single-node-part" if any(1 in x for x in lay) else "R:no-single-node-part",
                         "R:one-part-cell-among-many" if (any(len(x) == 1 for x in lay) and any(len(x) > 1 for x in lay)) else "R:uniform-parts",
                         f"R:cells={len(lay)}"]
            else:
                keys.append("RM:" + c.get("mkind", "?"))
            if "read_exc" in r:
                keys.append("R:read-exc:" + r["read_exc"].split(":")[0])
            for k in ("backend", "fmt", "wfmt"):
                if c.get(k):
                    keys.append(f"R:{k}={c[k]}")
            if c.get("domain"):
                keys.append("R:domain-variable")
        elif c["kind"] == "M":
            gs = c["containers"]
            per = [sum(1 for d in c["datavars"] if d["container"] == k) for k in range(len(gs))]
            keys += [f"M:containers={len(gs)}", f"M:datavars={len(c['datavars'])}",
                     f"M:max-variables-per-container={max(per)}",
                     "M:shared-container-without-representative-coordinates"
                     if any(n > 1 and not gs[k].get("coords") for k, n in enumerate(per)) else "M:no-such-sharing"]
            if len(gs) == 2:
                keys += ["M:shared-instance-dim" if gs[0]["idim"] == gs[1]["idim"] and gs[0]["nc"] and gs[1]["nc"] else "M:own-instance-dims",
                         "M:shared-node-dim" if gs[0]["ndim"] == gs[1]["ndim"] else "M:own-node-dims",
                         "M:shared-part-dim" if (gs[0]["pdim"] == gs[1]["pdim"] and gs[0]["pnc"] and gs[1]["pnc"]) else "M:own-part-dims"]
            if any(d.get("foreign_rep") is not None for d in c["datavars"]):
                keys.append("M:coordinate-variable-of-another-container")
            if any(d.get("dim") == "other" for d in c["datavars"]):
                keys.append("M:variable-off-the-cell-dimension" + (":raised" if "read_exc" in r else ":read-without-geometry"))
        elif c["kind"] == "W2":
            keys += [f"W2:fields={len(c['fields'])}", "W2:shared-axis" if c.get("share_axis") else "W2:own-axes"]
            keys += ["W2:second-field:" + m for m in c["modes"]]
            if "raw" in r:
                keys.append(f"W2:containers-written={len(r['raw']['containers'])}")
        else:
            keys += ["W:" + c["gtype"], "W:ring" if c["ring"] is not None else "W:no-ring",
                     f"W:nvars={len(c['bounds'])}", "W:coords" if c.get("coords") else "W:no-coords"]
            if "mkind" in c:
                keys.append("WM:" + c["mkind"])
            if "write_exc" in r:
                keys.append("W:write-exc:" + r["write_exc"].split(":")[0])
        for k in keys:
            feats[k] = feats.get(k, 0) + 1
    distinct = {lib.canon([c.get("layout"), c.get("nc"), c.get("pnc"), c.get("ring"), c.get("gtype"), c.get("nvars"),
                           c.get("bounds"), c.get("coords"),
                           [[g.get("layout"), g.get("ring"), g.get("idim"), g.get("ndim"), g.get("pdim")] for g in c.get("containers", [])],
                           c.get("datavars"), [[f.get("layout"), f.get("ring")] for f in c.get("fields", [])]])
                for c, r in done if nontrivial(c)}
    samples = [strip_m(done[k][0]) for k in (0, len(done) // 3, len(done) - 1)] if done else []
    chk.coverage.update({
        "evaluations": len(done),
        "distinct_nontrivial": len(distinct),
        "rule": "a case is non-trivial when it has at least two cells and either a multi-part cell or cells with "
                "different node counts (R), or at least two cells and a part or node dimension larger than one (W), or "
                "at least two data variables (M) / two fields (W2) in the dataset; "
                "distinct = distinct canonical (layout, raw variables, type, number of variables, arrays)",
        "samples": samples,
        "traces_validated_against_impl": ncorr,
        "disagreements_checked": ncorr,
        "cases_outside_model": unprintable,
        "families": fam,
        "features": dict(sorted(feats.items())),
        "exhaustive": False,
        "historical_refutations": "C14/Refuted.v: witnesses against the reader's index loop (F14a) and the writer's "
                                  "part_node_count (F14b, F14c) as they were at the pinned commit; against the seeded "
                                  "early return that forgets the parent, the node-dimension-keyed compression (F14e) "
                                  "and the sharing of node variables between differently divided fields (F14d)",
    })
    chk.assumptions += [
        "node coordinate values are exactly representable integers stored as float64; count/ring variables are int32",
        "one geometry container per dataset, on the leading dimension of a 1-d or 2-d data variable; no groups",
        "node coordinate variables of one container share their missing-data pattern (one set of count variables)",
        "netCDF4-python is the substrate for hand-encoding and for the raw inspection of written files",
        "numpy.unique / ma.count / slicing are modelled by their list meaning (Model.v: uniq, count_some, split_by)",
        "rows of the indexed ragged arrays: the correspondence accepts both numpy.unique(index) (pinned tree) and "
        "range(n_instances) (after the C06 repair of F06a); they differ only on malformed containers whose derived "
        "index skips an instance id, and the theorems are proved for both (C14_decode, C14_decode_rows_by_range)",
    ]


def replay(chk, path):
    d = json.load(open(path))
    cases = [x["input"] for x in d.get("cases", []) if isinstance(x.get("input"), dict) and "kind" in x["input"]]
    def rebuild(o):
        """the generator's cells, from the layout and the values kept in the replay file"""
        if "layout" not in o or "cells" in o:
            return
        if "data" in o:
            o["cells"] = []
            for flat in o["data"]:
                pos, cells = 0, []
                for cell in o["layout"]:
                    cc = []
                    for n in cell:
                        cc.append(flat[pos:pos + n])
                        pos += n
                    cells.append(cc)
                o["cells"].append(cells)
        elif "bounds" in o:
            o["cells"] = [[[[x for x in p if x is not None] for p in cell if any(x is not None for x in p)]
                           for cell in arr] for arr in o["bounds"]]

    for c in cases:
        rebuild(c)
        for o in c.get("containers", []) + c.get("fields", []):
            rebuild(o)
    rows = drive(chk, cases)
    bad = 0
    for c, r in zip(cases, rows):
        n0 = len(chk.failures)
        ok = r is not None and oracle(chk, c, r)
        print(("ok   " if ok else "FAIL ") + json.dumps(strip_m(c))[:300])
        for f in chk.failures[n0:]:
            print("     ", f.signature, f.what[:300])
        bad += not ok
    return 1 if bad else 0
