"""C14 - geometry cells are decoded and encoded as CF chapter 7.5 defines (DESIGN.md section 4, C14).

Families of cases
  R  a geometry container hand-encoded with netCDF4-python from generated cells (cells -> parts -> nodes),
     read by cfdm.read; the field is then written again by cfdm.write and the new file inspected with
     netCDF4-python.  Oracle: the bounds / interior ring / shape presented are the generated cells padded
     with missing data (no decoder involved at all); the re-written raw variables are mutually consistent
     and an independent decoder (decode_raw below) recovers the generated cells.
  RM malformed containers (inconsistent counts, zero counts, ring without part_node_count, ...):
     correspondence with the model only.
  W  a field built through the public API from padded cell arrays, written by cfdm.write.  Oracle: raw
     variables consistent, independent decoder recovers the cells, cfdm.read of the file presents them.
  WM arrays with holes (empty part slots between parts, missing nodes inside a part, ring flags that do
     not match the parts): consistency oracle + correspondence.
"""
import json

import lib
from lib import gz, gnat, gopt, glist

REQ = "From CfdmV Require Import Common.Base C14.Model C14.Run.\nOpen Scope nat_scope."
MODEL_FILES = ["Model", "Run"]
NW = 12


# ---------------------------------------------------------------------------
# generated cells and their encodings (harness side, independent of cfdm)
# ---------------------------------------------------------------------------
def gen_cells(rng, ncells, maxparts, maxnodes, minnodes=1, part_profile=None):
    """cells -> parts -> node positions (the values are filled in per variable)."""
    cells = []
    for c in range(ncells):
        np_ = part_profile[c] if part_profile else rng.choice([1, 1, 2, 3, maxparts][:maxparts + 1])
        np_ = max(1, min(np_, maxparts))
        cells.append([rng.randint(minnodes, maxnodes) for _ in range(np_)])
    return cells  # list of list of node counts


def values_for(layout, k):
    """distinct, exactly representable node values for variable k laid out as cells/parts/nodes"""
    out, v = [], 1 + 400 * k
    for cell in layout:
        cc = []
        for n in cell:
            cc.append(list(range(v, v + n)))
            v += n
        out.append(cc)
    return out


def flat_nodes(cells):
    return [x for cell in cells for part in cell for x in part]


def pad3(cells):
    w1 = max(len(c) for c in cells)
    w2 = max(len(p) for c in cells for p in c)
    out = []
    for c in cells:
        rows = [list(p) + [None] * (w2 - len(p)) for p in c]
        rows += [[None] * w2 for _ in range(w1 - len(c))]
        out.append(rows)
    return out


def pad2(rings):
    w1 = max(len(c) for c in rings)
    return [list(c) + [None] * (w1 - len(c)) for c in rings]


def shape_of(nested):
    s = []
    x = nested
    while isinstance(x, list):
        s.append(len(x))
        x = x[0] if x else None
    return s


def flatten(nested):
    if not isinstance(nested, list):
        return [nested]
    out = []
    for x in nested:
        out += flatten(x)
    return out


def decode_raw(nc, pnc, ring, nodes_list):
    """Independent decoder of CF 7.5 raw variables -> (cells per variable, rings) or an error string.

    nc, pnc, ring: lists of ints or None; nodes_list: one list of values per node coordinate variable."""
    nn = len(nodes_list[0])
    if any(len(x) != nn for x in nodes_list):
        return "node coordinate variables differ in length"
    if nc is None:
        nc = [1] * nn
    if any(c < 1 for c in nc):
        return "node_count has an entry < 1"
    if sum(nc) != nn:
        return f"sum(node_count)={sum(nc)} but the node dimension has size {nn}"
    if pnc is None:
        if ring is not None:
            return "interior_ring without part_node_count"
        parts_of = [[c] for c in nc]
    else:
        if any(p < 1 for p in pnc):
            return "part_node_count has an entry < 1"
        if sum(pnc) != nn:
            return f"sum(part_node_count)={sum(pnc)} but the node dimension has size {nn}"
        if ring is not None and len(ring) != len(pnc):
            return "interior_ring and part_node_count differ in length"
        parts_of, j = [], 0
        for c in nc:
            acc, ps = 0, []
            while acc < c:
                if j >= len(pnc):
                    return "parts exhausted before the cells"
                ps.append(pnc[j])
                acc += pnc[j]
                j += 1
            if acc != c:
                return "a part straddles two cells"
            parts_of.append(ps)
        if j != len(pnc):
            return "parts left over after the last cell"
    out = []
    for nodes in nodes_list:
        cells, pos = [], 0
        for ps in parts_of:
            cell = []
            for n in ps:
                cell.append(nodes[pos:pos + n])
                pos += n
            cells.append(cell)
        out.append(cells)
    rings = None
    if ring is not None:
        rings, j = [], 0
        for ps in parts_of:
            rings.append(ring[j:j + len(ps)])
            j += len(ps)
    return out, rings


def make_R(rng, layout, gtype, with_nc, with_pnc, with_ring, nvars, ncoords, time, fam):
    cells = [values_for(layout, k) for k in range(nvars)]
    nnodes = sum(sum(c) for c in layout)
    rings = None
    if with_ring:
        rings = [[0] + [rng.choice([0, 1, 1]) for _ in c[1:]] for c in layout]
    return {
        "kind": "R", "fam": fam, "gtype": gtype,
        "nc": [sum(c) for c in layout] if with_nc else None,
        "pnc": [n for c in layout for n in c] if with_pnc else None,
        "ring": [x for r in rings for x in r] if rings is not None else None,
        "nvars": nvars, "nnodes": nnodes, "data": [flat_nodes(c) for c in cells],
        "coords": ncoords, "time": time, "rewrite": True,
        "cells": cells, "rings": rings, "layout": layout,
    }


def rand_R(rng, thorough, fam="R-random", profile=None, force=None):
    force = force or {}
    gtype = force.get("gtype") or rng.choice(["polygon", "polygon", "line", "line", "point"])
    ncells = len(profile) if profile else rng.choice([1, 2, 2, 3, 3, 4, 4, 5, 6] + ([7, 8] if thorough else []))
    maxparts = 1 if gtype == "point" else rng.choice([1, 2, 3, 3, 4])
    if profile:
        maxparts = max(profile)
    if gtype == "point":
        maxnodes = rng.choice([1, 1, 2, 3])
    else:
        maxnodes = rng.choice([1, 2, 3, 4, 5])
    minnodes = 1 if rng.random() < 0.7 else min(2, maxnodes)
    layout = gen_cells(rng, ncells, maxparts, maxnodes, minnodes, profile)
    multi = any(len(c) > 1 for c in layout)
    single_nodes = all(c == [1] for c in layout)
    with_nc = True
    if single_nodes and rng.random() < 0.6:
        with_nc = False
    with_pnc = multi or (gtype != "point" and with_nc and rng.random() < 0.45)
    with_ring = gtype == "polygon" and with_pnc and rng.random() < 0.6
    nvars = rng.choice([1, 2, 2, 3])
    ncoords = rng.choice([0, 0, nvars, rng.randint(0, nvars)])
    return make_R(rng, layout, gtype, with_nc, with_pnc, with_ring, nvars, ncoords,
                  rng.random() < 0.3 and with_nc, fam)


PROFILES = [[2, 1, 1, 1], [1, 2, 1], [1, 1, 2], [3, 1, 2, 1, 1], [1, 3], [2, 2, 2], [1, 2, 3, 4], [4, 3, 2, 1],
            [2, 1, 2, 1, 2], [1, 1, 1, 3, 1, 1], [3, 1, 1, 1, 1, 3], [1], [4], [2, 1], [1, 4, 1, 1]]


def malform(rng, c):
    """Return a malformed variant of a valid R case (raw variables only)."""
    m = dict(c)
    m["fam"] = "RM"
    m["rewrite"] = False
    for k in ("cells", "rings", "layout"):
        m.pop(k, None)
    kind = rng.choice(["nc+", "nc-", "pnc+", "pnc-", "nc0", "pnc0", "ring-no-pnc", "pnc-extra", "pnc-short",
                       "nc-shift", "no-nc-pnc"])
    nc = list(c["nc"]) if c["nc"] is not None else None
    pnc = list(c["pnc"]) if c["pnc"] is not None else None
    ring = list(c["ring"]) if c["ring"] is not None else None
    if kind in ("nc+", "nc-", "nc0", "nc-shift") and nc is None:
        kind = "pnc+" if pnc else "skip"
    if kind in ("pnc+", "pnc-", "pnc0", "pnc-extra", "pnc-short", "no-nc-pnc") and pnc is None:
        kind = "nc+" if nc else "skip"
    if kind == "nc+":
        nc[rng.randrange(len(nc))] += rng.choice([1, 2])
    elif kind == "nc-":
        i = rng.randrange(len(nc))
        nc[i] = max(1, nc[i] - 1)
    elif kind == "nc0":
        nc[rng.randrange(len(nc))] = 0
    elif kind == "nc-shift" and len(nc) > 1:
        i = rng.randrange(len(nc) - 1)
        nc[i] += 1
        nc[i + 1] = max(1, nc[i + 1] - 1)
    elif kind == "pnc+":
        pnc[rng.randrange(len(pnc))] += 1
    elif kind == "pnc-":
        i = rng.randrange(len(pnc))
        pnc[i] = max(1, pnc[i] - 1)
    elif kind == "pnc0":
        pnc[rng.randrange(len(pnc))] = 0
    elif kind == "pnc-extra":
        pnc.append(rng.choice([1, 2, 7]))
        if ring is not None:
            ring.append(1)
    elif kind == "pnc-short" and len(pnc) > 1:
        pnc.pop()
        if ring is not None:
            ring.pop()
    elif kind == "ring-no-pnc":
        if ring is None:
            ring = [0] * (len(pnc) if pnc else len(nc or [1]))
        pnc = None
        m["gtype"] = "polygon"
    elif kind == "no-nc-pnc":
        nc = None
    m.update({"nc": nc, "pnc": pnc, "ring": ring, "mkind": kind})
    if nc is None and m.get("time"):
        m["time"] = False
    return m


def make_W(rng, layout, gtype, with_ring, nvars, ncoords, fam):
    cells = [values_for(layout, k) for k in range(nvars)]
    rings = None
    if with_ring:
        rings = [[0] + [rng.choice([0, 1, 1]) for _ in c[1:]] for c in layout]
    return {"kind": "W", "fam": fam, "gtype": gtype, "bounds": [pad3(c) for c in cells],
            "ring": pad2(rings) if rings is not None else None, "coords": ncoords,
            "cells": cells, "rings": rings, "layout": layout}


def rand_W(rng, thorough, fam="W-random", profile=None):
    gtype = rng.choice(["polygon", "polygon", "line", "line", "point"])
    ncells = len(profile) if profile else rng.choice([1, 2, 2, 3, 3, 4, 5, 6] + ([7, 8] if thorough else []))
    maxparts = 1 if gtype == "point" and not profile else rng.choice([1, 2, 3, 3, 4])
    if profile:
        maxparts = max(profile)
    maxnodes = rng.choice([1, 2, 3, 4, 5])
    layout = gen_cells(rng, ncells, maxparts, maxnodes, 1, profile)
    with_ring = gtype == "polygon" and rng.random() < 0.6
    nvars = rng.choice([1, 2, 2, 3])
    return make_W(rng, layout, gtype, with_ring, nvars, rng.choice([0, 0, nvars, rng.randint(0, nvars)]), fam)


def hole_W(rng, c):
    """Arrays that are not left-justified paddings: holes in part slots / inside parts / ring mismatches."""
    m = json.loads(json.dumps(c))
    m["fam"] = "WM"
    for k in ("cells", "rings", "layout"):
        m.pop(k, None)
    kind = rng.choice(["part-hole", "node-hole", "ring-extra", "ring-missing"])
    b0 = m["bounds"][0]
    ncells, w1, w2 = len(b0), len(b0[0]), len(b0[0][0])
    ci = rng.randrange(ncells)

    def nonempty(cell):
        return [pi for pi, p in enumerate(cell) if any(x is not None for x in p)]

    if kind == "part-hole":
        # empty one part of a cell that keeps at least one other part (every cell keeps >= 1 node)
        cands = [i for i in range(ncells) if len(nonempty(b0[i])) >= 2]
        if not cands:
            kind = "node-hole"
        else:
            ci = rng.choice(cands)
            pi = rng.choice(nonempty(b0[ci]))
            for b in m["bounds"]:
                b[ci][pi] = [None] * w2
            if m["ring"] is not None and rng.random() < 0.7:
                m["ring"][ci][pi] = None
    if kind == "node-hole":
        cands = [(i, pi) for i in range(ncells) for pi in nonempty(b0[i])
                 if sum(x is not None for x in b0[i][pi]) >= 2]
        if not cands:
            kind = "none"
        else:
            ci, pi = rng.choice(cands)
            ni = rng.choice([k for k, x in enumerate(b0[ci][pi]) if x is not None])
            for b in m["bounds"]:
                b[ci][pi][ni] = None
    elif kind == "ring-extra" and m["ring"] is not None:
        for pi in range(w1):
            if m["ring"][ci][pi] is None:
                m["ring"][ci][pi] = 1
                break
    elif kind == "ring-missing" and m["ring"] is not None:
        present = [(i, pi) for i in range(ncells) for pi in range(w1) if m["ring"][i][pi] is not None]
        if len(present) >= 3:
            i, pi = rng.choice(present)
            m["ring"][i][pi] = None
    m["mkind"] = kind
    return m


# ---------------------------------------------------------------------------
# Gallina printers
# ---------------------------------------------------------------------------
def g_nats(xs):
    return glist(xs, gnat)


def g_zs(xs):
    return glist(xs, gz)


def g_ozs(xs):
    return glist(xs, lambda x: gopt(x, gz))


def g_oarr(o):
    return f"({g_nats(o['shape'])}, {g_ozs(o['flat'])})"


def g_arr3(a):
    return glist(a, lambda cell: glist(cell, g_ozs))


def g_arr2(a):
    return glist(a, g_ozs)


def intlist_ok(xs):
    return all(isinstance(x, int) and not isinstance(x, bool) for x in xs)


def oarr_ok(o):
    return (isinstance(o, dict) and all(0 <= s < 4000 for s in o["shape"])
            and all(x is None or isinstance(x, int) for x in o["flat"]))


def read_literal(c, r):
    """Gallina literal of an R case with what cfdm presented; None if unprintable."""
    if "read_exc" in r or "driver_exc" in r or "obs" not in r:
        return None
    coords = r["obs"]["coords"]
    names = ["x", "y", "z"][:c["nvars"]]
    if not coords:
        obs = "None"
    else:
        by = {o["bncvar"]: o for o in coords}
        if sorted(by) != sorted(names) or len(coords) != len(names):
            return None
        os_ = [by[n] for n in names]
        if not all(oarr_ok(o["bounds"]) for o in os_):
            return None
        rings = [o["ring"] for o in os_]
        if any(json.dumps(x) != json.dumps(rings[0]) for x in rings):
            return None
        shapes = [o["shape"] for o in os_]
        if any(s != shapes[0] for s in shapes) or not isinstance(shapes[0], list):
            return None
        if rings[0] is not None and not oarr_ok(rings[0]):
            return None
        ring = "None" if rings[0] is None else f"(Some {g_oarr(rings[0])})"
        obs = f"(Some ({glist([o['bounds'] for o in os_], g_oarr)}, {ring}, {g_nats(shapes[0])}))"
    # the type annotation keeps a shard of few cases (all None in some position) typable
    return (f"(({gopt(c['nc'], g_nats)}, {gopt(c['pnc'], g_nats)}, {gopt(c['ring'], g_zs)}, "
            f"{gnat(c['nnodes'])}, {glist(c['data'], g_zs)}, {obs}) : read_case)")


def raw_tuple(raw):
    """(nc, pnc, ring, [nodes...]) from the netCDF4-python view of a written file, or an error string."""
    cs = raw.get("containers", [])
    if len(cs) != 1 or cs[0].get("missing"):
        return "no single geometry container"
    g = cs[0]
    for k in ("nc", "pnc", "ring"):
        if g[k] is not None and "missing" in g[k]:
            return f"{k} variable named by the container is missing"
    if any((n is None or "missing" in n) for n in g["nodes"]) or not g["nodes"]:
        return "node coordinate variable missing"
    nodes = sorted(g["nodes"], key=lambda n: n["attrs"].get("axis", n["name"]))
    nc = g["nc"]["values"] if g["nc"] else None
    pnc = g["pnc"]["values"] if g["pnc"] else None
    ring = g["ring"]["values"] if g["ring"] else None
    return nc, pnc, ring, [n["values"] for n in nodes]


def write_literal(c, r):
    if "build_exc" in r or "driver_exc" in r:
        return None
    if "write_exc" in r:
        if not r["write_exc"].startswith(("ValueError", "IndexError")):
            return None
        obs = "None"
    else:
        t = raw_tuple(r["raw"])
        if isinstance(t, str):
            return None
        nc, pnc, ring, nodes = t
        if nc is None or not intlist_ok(nc) or not all(intlist_ok(n) for n in nodes):
            return None
        if any(x < 0 for x in nc) or (pnc is not None and any(x < 0 for x in pnc)):
            return None
        obs = f"(Some ({g_nats(nc)}, {gopt(pnc, g_nats)}, {gopt(ring, g_zs)}, {glist(nodes, g_zs)}))"
    ring = "None" if c["ring"] is None else f"(Some {g_arr2(c['ring'])})"
    return f"(({glist(c['bounds'], g_arr3)}, {ring}, {obs}) : write_case)"


# ---------------------------------------------------------------------------
# property oracles
# ---------------------------------------------------------------------------
def raw_dims_consistent(raw):
    """Dimension-level consistency of the written container (netCDF4 view)."""
    g = raw["containers"][0]
    probs = []
    if g["nc"] is not None:
        if g["nc"]["dims"] != g["datavar_dims"][:1] and g["nc"]["dims"][0] not in g["datavar_dims"]:
            probs.append("node_count is not on a dimension of the data variable")
    nd = {tuple(n["dims"]) for n in g["nodes"]}
    if len(nd) != 1:
        probs.append("node coordinate variables on different dimensions")
    if g["ring"] is not None and g["pnc"] is None:
        probs.append("interior_ring written without part_node_count")
    if g["ring"] is not None and g["pnc"] is not None and g["ring"]["dims"] != g["pnc"]["dims"]:
        probs.append("interior_ring and part_node_count on different dimensions")
    for rep in g.get("reps", []):
        if rep["nodes"] is None:
            probs.append(f"representative coordinate {rep['name']} has no nodes attribute")
    return probs


def presented_ok(chk, c, obs, where, sigprefix):
    """The cells presented by cfdm equal the generated cells padded with missing data."""
    names = ["x", "y", "z"][:len(c["cells"])]
    by = {o["bncvar"]: o for o in obs["coords"]}
    ok = True

    def bad(sig, what, exp, got):
        nonlocal ok
        ok = False
        chk.fail("property", sig, f"{where}: {what}", {"input": strip(c), "expected": exp, "observed": got})

    if sorted(by) != sorted(names):
        bad(sigprefix + "-no-geometry", f"node coordinate variables {names} presented as {sorted(by)}", names, sorted(by))
        return False
    ncells = len(c["layout"])
    for k, n in enumerate(names):
        o = by[n]
        exp = pad3(c["cells"][k])
        expo = {"shape": shape_of(exp), "flat": flatten(exp)}
        if o["bounds"] != expo:
            bad(sigprefix + "-cells-wrong", f"bounds of {n} are not the cells in file order padded with missing data",
                expo, o["bounds"])
        if c.get("rings") is not None:
            expr = pad2(c["rings"])
            expro = {"shape": shape_of(expr), "flat": flatten(expr)}
            if o["ring"] != expro:
                bad(sigprefix + "-rings-wrong", f"interior ring flags of {n} are not attached to their parts", expro, o["ring"])
        elif o["ring"] is not None:
            bad(sigprefix + "-rings-wrong", f"{n} has an interior ring variable that was not in the input", None, o["ring"])
        if o["shape"] != [ncells] or o.get("ndim") != 1 or o.get("size") != ncells:
            bad(sigprefix + "-shape-wrong", f"shape/ndim/size of the coordinate for {n} are not those of the cells",
                {"shape": [ncells], "ndim": 1, "size": ncells},
                {"shape": o["shape"], "ndim": o.get("ndim"), "size": o.get("size")})
        if o["geometry"] != c["gtype"]:
            bad(sigprefix + "-type-wrong", f"geometry type of {n}", c["gtype"], o["geometry"])
        want_data = k < (c.get("coords") or 0)
        if o["has_data"] != want_data:
            bad(sigprefix + "-representative-wrong", f"{n}: representative coordinate values present={o['has_data']}",
                want_data, o["has_data"])
    return ok


def raw_ok(chk, c, raw, where, sigprefix):
    """The written raw variables are mutually consistent and decode (independently) to the cells."""
    def bad(sig, what, exp, got):
        chk.fail("property", sig, f"{where}: {what}", {"input": strip(c), "expected": exp, "observed": got})

    t = raw_tuple(raw)
    if isinstance(t, str):
        bad(sigprefix + "-container", t, None, raw)
        return False
    nc, pnc, ring, nodes = t
    probs = raw_dims_consistent(raw)
    if probs:
        bad(sigprefix + "-inconsistent", "; ".join(probs), None, {"nc": nc, "pnc": pnc, "ring": ring})
        return False
    d = decode_raw(nc, pnc, ring, nodes)
    if isinstance(d, str):
        bad(sigprefix + "-inconsistent", f"written count/ring variables are inconsistent: {d}", None,
            {"nc": nc, "pnc": pnc, "ring": ring, "nnodes": len(nodes[0])})
        return False
    cells, rings = d
    if "cells" in c:
        if cells != c["cells"]:
            bad(sigprefix + "-cells-differ", "an independent decoder does not recover the cells from the written file",
                c["cells"], cells)
            return False
        if (rings or None) != (c.get("rings") or None):
            bad(sigprefix + "-rings-differ", "an independent decoder does not recover the ring flags", c.get("rings"), rings)
            return False
        if raw["containers"][0]["gtype"] != c["gtype"]:
            bad(sigprefix + "-type-wrong", "geometry_type attribute", c["gtype"], raw["containers"][0]["gtype"])
            return False
    return True


def strip(c):
    return {k: v for k, v in c.items() if k not in ("cells",)}


CORPUS = [
    # F14a: four polygons with parts-per-cell [2,1,1,1]
    lambda rng: rand_R(rng, False, "corpus-F14a", [2, 1, 1, 1], {"gtype": "polygon"}),
    lambda rng: rand_R(rng, False, "corpus-F14a", [1, 2, 1, 1], {"gtype": "line"}),
    # F14b: a one-part cell before a many-part cell
    lambda rng: rand_W(rng, False, "corpus-F14b", [1, 2]),
    lambda rng: rand_W(rng, False, "corpus-F14b", [1, 3, 1, 2]),
]


def small_layouts(maxcells, maxparts):
    import itertools
    cells = [list(t) for p in range(1, maxparts + 1) for t in itertools.product([1, 2], repeat=p)]
    out = []
    for n in range(1, maxcells + 1):
        out += [list(t) for t in itertools.product(cells, repeat=n)]
    return out


def nontrivial(c):
    if c["kind"] == "R":
        if "layout" not in c:
            return True
        return len(c["layout"]) > 1 and (any(len(x) > 1 for x in c["layout"]) or len({sum(x) for x in c["layout"]}) > 1)
    b = c["bounds"][0]
    return len(b) > 1 and (len(b[0]) > 1 or len(b[0][0]) > 1)


def gen_cases(chk):
    rng = chk.rng
    thorough = chk.tier == "thorough"
    cases = [mk(rng) for mk in CORPUS]
    # F14c: polygons that all have one part, with an interior ring variable
    c = make_R(rng, [[3], [4]], "polygon", True, True, True, 1, 0, False, "corpus-F14c")
    cases.append(c)
    nprof = 40 if thorough else 6
    for prof in PROFILES:
        for _ in range(nprof):
            cases.append(rand_R(rng, thorough, "R-profile", prof))
            cases.append(rand_W(rng, thorough, "W-profile", prof))
    # every layout with up to 3 cells, up to 2 (quick) / 3 (thorough) parts per cell, 1 or 2 nodes per part
    for lay in small_layouts(3, 3 if thorough else 2):
        gtype = rng.choice(["line", "polygon"])
        ring = gtype == "polygon" and rng.random() < 0.5
        cases.append(make_R(rng, lay, gtype, True, True, ring, 1, rng.choice([0, 1]), False, "R-exhaustive"))
        if thorough:
            cases.append(make_W(rng, lay, gtype, ring, 1, 0, "W-exhaustive"))
    nR = 9000 if thorough else 1500
    valid = [rand_R(rng, thorough) for _ in range(nR)]
    cases += valid
    nM = 3000 if thorough else 500
    for _ in range(nM):
        m = malform(rng, rng.choice(valid))
        if m.get("mkind") != "skip":
            cases.append(m)
    nW = 5000 if thorough else 900
    ws = [rand_W(rng, thorough) for _ in range(nW)]
    cases += ws
    nWM = 1500 if thorough else 300
    for _ in range(nWM):
        cases.append(hole_W(rng, rng.choice(ws)))
    return cases


def run_parallel(chk, payloads, timeout=3000):
    """Start every worker at once with its payload on stdin (from a file) and collect the JSON lines.
    (lib.run_workers_parallel hands a worker its payload only when its turn to be collected comes.)"""
    import os
    import subprocess
    procs = []
    for w, p in enumerate(payloads):
        fin = os.path.join(chk.scratch, f"payload_{w}.json")
        with open(fin, "w") as fh:
            json.dump(p, fh)
        fout = open(os.path.join(chk.scratch, f"out_{w}.jsonl"), "w+")
        ferr = open(os.path.join(chk.scratch, f"err_{w}.txt"), "w+")
        pr = subprocess.Popen([lib.PY, os.path.join(lib.VERIF, "harness", "drive/c14.py")],
                              stdin=open(fin), stdout=fout, stderr=ferr, env=lib.child_env(), text=True)
        procs.append((pr, fout, ferr))
    res = []
    for pr, fout, ferr in procs:
        try:
            pr.wait(timeout=timeout)
        except subprocess.TimeoutExpired:
            pr.kill()
            pr.wait()
        fout.seek(0)
        ferr.seek(0)
        rows = []
        for line in fout.read().splitlines():
            line = line.strip()
            if line.startswith("{"):
                try:
                    rows.append(json.loads(line))
                except Exception:
                    pass
        res.append((pr.returncode, rows, ferr.read()[-2000:]))
        fout.close()
        ferr.close()
    return res


def drive(chk, cases):
    shards = [cases[i::NW] for i in range(NW)]
    payloads = [{"dir": chk.scratch, "tag": f"s{w}", "cases": [
        {k: v for k, v in c.items() if k not in ("cells", "rings", "layout", "fam")} for c in sh]}
        for w, sh in enumerate(shards)]
    res = run_parallel(chk, payloads)
    rows = [None] * len(cases)
    for w, (rc, out, err) in enumerate(res):
        for row in out:
            j = row.get("i")
            if isinstance(j, int) and w + j * NW < len(cases):
                rows[w + j * NW] = row
        if rc != 0 or len(out) != len(shards[w]):
            # a dead worker: attribute it to the first case without a row
            missing = [w + j * NW for j in range(len(shards[w])) if rows[w + j * NW] is None]
            first = cases[missing[0]] if missing else None
            chk.fail("property", "crash", f"C14 worker {w} died (rc={rc}) while running a geometry case: {err[-400:]}",
                     {"input": strip(first) if first else None, "observed": f"rc={rc}"})
    return rows


def oracle(chk, c, r):
    """Property oracle for one case; returns True if the property holds on it."""
    ok = True
    if "driver_exc" in r:
        chk.fail("correspondence", "harness-error", f"driver raised {r['driver_exc']}",
                 {"correspondence": "drive/c14.py", "input": strip(c), "observed": r})
        return False
    if c["kind"] == "R" and "cells" in c:
        if "read_exc" in r:
            chk.fail("property", "read-crash", f"reading a valid geometry container failed: {r['read_exc']}",
                     {"input": strip(c), "expected": "the cells", "observed": r["read_exc"]})
            return False
        ok = presented_ok(chk, c, r["obs"], "cfdm.read of a hand-encoded container", "read") and ok
        if "write_exc" in r:
            chk.fail("property", "write-crash", f"writing the field just read failed: {r['write_exc']}",
                     {"input": strip(c), "expected": "a dataset", "observed": r["write_exc"]})
            ok = False
        elif "raw" in r and ok:
            ok = raw_ok(chk, c, r["raw"], "cfdm.write of the field read from a hand-encoded container", "rewrite") and ok
    elif c["kind"] == "W" and "cells" in c:
        if "build_exc" in r:
            chk.fail("correspondence", "harness-error", f"could not build the field: {r['build_exc']}",
                     {"correspondence": "drive/c14.py", "input": strip(c)})
            return False
        ok = presented_ok(chk, c, r["obs0"], "field built through the API", "api") and ok
        if "write_exc" in r:
            chk.fail("property", "write-crash", f"writing a geometry field failed: {r['write_exc']}",
                     {"input": strip(c), "expected": "a dataset", "observed": r["write_exc"]})
            return False
        ok = raw_ok(chk, c, r["raw"], "cfdm.write of a geometry field", "write") and ok
        if "read_exc" in r:
            chk.fail("property", "read-crash", f"reading back the written geometry field failed: {r['read_exc']}",
                     {"input": strip(c), "observed": r["read_exc"]})
            ok = False
        elif "obs" in r:
            ok = presented_ok(chk, c, r["obs"], "cfdm.read of the dataset cfdm.write produced", "roundtrip") and ok
    elif c["kind"] == "W":
        # arrays with holes: whatever is written must still be mutually consistent
        if "write_exc" in r:
            if not r["write_exc"].startswith(("ValueError", "IndexError")):
                chk.fail("property", "write-crash", f"writing failed with {r['write_exc']}",
                         {"input": strip(c), "observed": r["write_exc"]})
                ok = False
        elif "raw" in r:
            ok = raw_ok(chk, c, r["raw"], "cfdm.write of a geometry field with missing parts/nodes", "write") and ok
    return ok


def run(chk, model_ok):
    cases = gen_cases(chk)
    rows = drive(chk, cases)
    done = [(c, r) for c, r in zip(cases, rows) if r is not None]

    explained = set()
    for n, (c, r) in enumerate(done):
        if not oracle(chk, c, r):
            explained.add(n)

    ncorr = 0
    unprintable = 0
    if model_ok:
        for kind, fn, mk in (("R", "check_read", read_literal), ("W", "check_write", write_literal)):
            lits, idx = [], []
            for n, (c, r) in enumerate(done):
                if c["kind"] != kind:
                    continue
                lit = mk(c, r)
                if lit is None:
                    unprintable += 1
                    if n not in explained:
                        chk.fail("correspondence", "model-vs-impl",
                                 "the implementation's behaviour on this case is outside what the model describes "
                                 "(unexpected exception or presentation)",
                                 {"correspondence": f"C14.Run.{fn}", "input": strip(c),
                                  "observed": {k: v for k, v in r.items() if k in ("read_exc", "write_exc", "build_exc", "obs")}})
                    continue
                lits.append(lit)
                idx.append(n)
            bad = lib.coq_bad_indices("C14", REQ, fn, lits, chunk=150)
            ncorr += len(lits)
            for i in bad[:40]:
                n = idx[i]
                if n in explained:
                    continue
                c, r = done[n]
                chk.fail("correspondence", "model-vs-impl",
                         "model and implementation disagree on " +
                         ("the cells presented for a geometry container" if kind == "R" else "the variables written for geometry cells"),
                         {"correspondence": f"C14.Run.{fn}", "input": strip(c),
                          "observed": r.get("obs") if kind == "R" else r.get("raw", r.get("write_exc"))})

    fam, feats = {}, {}
    for c, r in done:
        fam[c["fam"]] = fam.get(c["fam"], 0) + 1
        keys = []
        if c["kind"] == "R":
            keys += ["R:" + str(c["gtype"]), "R:nc" if c["nc"] is not None else "R:no-nc",
                     "R:pnc" if c["pnc"] is not None else "R:no-pnc", "R:ring" if c["ring"] is not None else "R:no-ring",
                     f"R:nvars={c['nvars']}", "R:coords" if c.get("coords") else "R:no-coords",
                     "R:extra-dim" if c.get("time") else "R:1d"]
            if "layout" in c:
                lay = c["layout"]
                keys += ["R:single-node-part" if any(1 in x for x in lay) else "R:no-single-node-part",
                         "R:one-part-cell-among-many" if (any(len(x) == 1 for x in lay) and any(len(x) > 1 for x in lay)) else "R:uniform-parts",
                         f"R:cells={len(lay)}"]
            else:
                keys.append("RM:" + c.get("mkind", "?"))
            if "read_exc" in r:
                keys.append("R:read-exc:" + r["read_exc"].split(":")[0])
        else:
            keys += ["W:" + c["gtype"], "W:ring" if c["ring"] is not None else "W:no-ring",
                     f"W:nvars={len(c['bounds'])}", "W:coords" if c.get("coords") else "W:no-coords"]
            if "mkind" in c:
                keys.append("WM:" + c["mkind"])
            if "write_exc" in r:
                keys.append("W:write-exc:" + r["write_exc"].split(":")[0])
        for k in keys:
            feats[k] = feats.get(k, 0) + 1
    distinct = {lib.canon([c.get("layout"), c.get("nc"), c.get("pnc"), c.get("ring"), c.get("gtype"), c.get("nvars"),
                           c.get("bounds"), c.get("coords")]) for c, r in done if nontrivial(c)}
    samples = [strip(done[k][0]) for k in (0, len(done) // 3, (2 * len(done)) // 3)] if done else []
    chk.coverage.update({
        "evaluations": len(done),
        "distinct_nontrivial": len(distinct),
        "rule": "a case is non-trivial when it has at least two cells and either a multi-part cell or cells with "
                "different node counts (R), or at least two cells and a part or node dimension larger than one (W); "
                "distinct = distinct canonical (layout, raw variables, type, number of variables, arrays)",
        "samples": samples,
        "traces_validated_against_impl": ncorr,
        "disagreements_checked": ncorr,
        "cases_outside_model": unprintable,
        "families": fam,
        "features": dict(sorted(feats.items())),
        "exhaustive": False,
        "historical_refutations": "C14/Refuted.v: witnesses against the reader's index loop (F14a) and the writer's "
                                  "part_node_count (F14b, F14c) as they were at the pinned commit",
    })
    chk.assumptions += [
        "node coordinate values are exactly representable integers stored as float64; count/ring variables are int32",
        "one geometry container per dataset, on the leading dimension of a 1-d or 2-d data variable; no groups",
        "node coordinate variables of one container share their missing-data pattern (one set of count variables)",
        "netCDF4-python is the substrate for hand-encoding and for the raw inspection of written files",
        "numpy.unique / ma.count / slicing are modelled by their list meaning (Model.v: uniq, count_some, split_by)",
        "rows of the indexed ragged arrays: the correspondence accepts both numpy.unique(index) (pinned tree) and "
        "range(n_instances) (after the C06 repair of F06a); they differ only on malformed containers whose derived "
        "index skips an instance id, and the theorems are proved for both (C14_decode, C14_decode_rows_by_range)",
    ]


def replay(chk, path):
    d = json.load(open(path))
    cases = [x["input"] for x in d.get("cases", []) if isinstance(x.get("input"), dict) and "kind" in x["input"]]
    for c in cases:
        if "layout" in c and "cells" not in c:
            n = c["nvars"] if c["kind"] == "R" else len(c["bounds"])
            c["cells"] = [values_for(c["layout"], k) for k in range(n)]
    rows = drive(chk, cases)
    bad = 0
    for c, r in zip(cases, rows):
        n0 = len(chk.failures)
        ok = r is not None and oracle(chk, c, r)
        print(("ok   " if ok else "FAIL ") + json.dumps(strip(c))[:300])
        for f in chk.failures[n0:]:
            print("     ", f.signature, f.what[:300])
        bad += not ok
    return 1 if bad else 0
