"""C11 - hierarchical groups change the file layout, never the meaning (DESIGN.md section 4, C11)."""
import json
import os

import lib
from lib import gbool, gnat, gopt, glist

REQ = "From CfdmV Require Import Common.Base Tables.FlattenRules C11.Model C11.Run."
DEPENDS = []
DRV = "drive/c11.py"


# ---------------------------------------------------------------- printers
def gs(x):
    return f"(s {lib.gstr(x)})"


def gpath(p):
    return glist(p, gs) if p else "(@nil str)"


def gtree(t):
    return (f"(G {gs(t['name'])} {glist(t['dims'], gs)} "
            f"{glist(t['vars'], lambda v: f'({gs(v[0])}, {gnat(v[1])})')} {glist(t['subs'], gtree)})")


def gpattr(a):
    return glist(a, lambda kv: f"({gs(kv[0])}, " + ("(@None (list str))" if kv[1] is None else f"(Some {glist(kv[1], gs)})") + ")")


def gid(x):
    return f"({gpath(x[0])}, {gs(x[1])})"


# ---------------------------------------------------------------- minimised past failures (run first)
CORPUS_REFS = [
    # F11a: relative path whose last component is missing; cell_methods relative path (groupp)
    {"tree": {"name": "", "dims": [["x", 3]], "vars": [{"name": "x", "dims": ["x"]}], "subs": [
        {"name": "g", "dims": [], "vars": [{"name": "q0", "dims": []}], "subs": []},
        {"name": "h", "dims": [], "vars": [{"name": "y", "dims": []}], "subs": []}]},
     "probes": [
         {"group": ["g"], "var": "q0", "attr": "ancillary_variables", "pattr": [["../nothere", None]]},
         {"group": ["g"], "var": "q0", "attr": "ancillary_variables", "pattr": [["../h/y", None], ["../k/y", None]]},
         {"group": ["g"], "var": "q0", "attr": "cell_methods", "pattr": [["../../x", ["mean"]]]},
         {"group": ["g"], "var": "q0", "attr": "cell_methods", "pattr": [["../x", ["mean"]], ["../nothere", ["max"]]]},
     ]},
    # lateral search: breadth first (the pinned code went depth first)
    {"tree": {"name": "", "dims": [["x", 3]], "vars": [], "subs": [
        {"name": "g", "dims": [], "vars": [], "subs": [
            {"name": "k", "dims": [], "vars": [{"name": "x", "dims": ["x"]}], "subs": []}]},
        {"name": "h", "dims": [], "vars": [{"name": "x", "dims": ["x"]}], "subs": []},
        {"name": "m", "dims": [], "vars": [{"name": "q0", "dims": ["x"]}], "subs": []}]},
     "probes": [{"group": ["m"], "var": "q0", "attr": "coordinates", "pattr": [["x", None]]}]},
]

# 8d03027: a name occurring twice, two spellings of one target: no occurrence may be lost
CORPUS_REFS.append(
    {"tree": {"name": "", "dims": [["x", 3], ["y", 2]], "vars": [{"name": "x", "dims": ["x"]}, {"name": "y", "dims": ["y"]}], "subs": [
        {"name": "m", "dims": [], "vars": [{"name": "q1", "dims": []}], "subs": [
            {"name": "k", "dims": [], "vars": [{"name": "q0", "dims": ["x", "y"]}, {"name": "q1", "dims": []}], "subs": [
                {"name": "m", "dims": [], "vars": [{"name": "q2", "dims": []}], "subs": []}]}]}]},
     "probes": [
         {"group": ["m", "k"], "var": "q0", "attr": "cell_methods",
          "pattr": [["x", []], ["y", ["maximum"]], ["y", []], ["x", ["mean"]]]},
         {"group": ["m", "k"], "var": "q0", "attr": "cell_methods", "pattr": [["x", ["mean"]], ["/x", ["maximum"]]]},
         {"group": ["m", "k", "m"], "var": "q2", "attr": "geometry", "pattr": [["../q1", None], ["../../k/q1", None]]},
         {"group": ["m", "k"], "var": "q0", "attr": "coordinates", "pattr": [["/m/q1", None], ["../q1", None], ["x", None], ["x", None]]},
         {"group": ["m", "k"], "var": "q0", "attr": "cell_measures", "pattr": [["area", ["../q1"]], ["area", ["/m/q1"]]]},
     ]})

# F11b: names for which the flattened names collide (valid netCDF files)
CORPUS_COLLIDE = [
    {"tree": {"name": "", "dims": [["x", 3]], "vars": [{"name": "a__b", "dims": ["x"]}, {"name": "q0", "dims": []}], "subs": [
        {"name": "a", "dims": [], "vars": [{"name": "b", "dims": ["x"]}], "subs": []}]},
     "probes": [{"group": [], "var": "q0", "attr": "ancillary_variables", "pattr": [["a__b", None]]}]},
    {"tree": {"name": "", "dims": [["x", 3]], "vars": [{"name": "q0", "dims": []}], "subs": [
        {"name": "a_", "dims": [], "vars": [{"name": "b", "dims": ["x"]}], "subs": []},
        {"name": "a", "dims": [], "vars": [{"name": "_b", "dims": ["x"]}], "subs": []}]},
     "probes": [{"group": [], "var": "q0", "attr": "ancillary_variables", "pattr": [["/a/_b", None]]}]},
]

CORPUS_COORD = [
    # F11c: dimension in a non-root group, coordinate variable in a sub-group
    {"D": ["g"], "F": ["g", "h"], "cands": [["g", "h"]], "shadow": []},
    {"D": ["g"], "F": ["g", "h"], "cands": [["g", "k"]], "shadow": []},
    # F11d: a nearer coordinate variable must win over the one beside the dimension
    {"D": [], "F": ["g", "h"], "cands": [[], ["g"]], "shadow": []},
    {"D": [], "F": ["g"], "cands": [["h"]], "shadow": []},
    {"D": [], "F": ["g"], "cands": [["h", "k"], ["m"]], "shadow": []},
    # lateral candidates whose order by depth and by length of the path string differ
    {"D": [], "F": ["m"], "cands": [["observations"], ["a", "b"]], "shadow": []},
    {"D": ["g"], "F": ["g", "m"], "cands": [["g", "a", "b"], ["g", "long_group_1"]], "shadow": [], "outer": [[]]},
]


# ---------------------------------------------------------------- generators: group trees
GROUPS = GROUPS0 = ["g", "h", "k", "m"]
DIMS = DIMS0 = ["x", "y", "t"]
VARS = VARS0 = ["x", "y", "t", "lat", "p", "w"]


# names for which the proposed flattened names of different elements coincide (F11b)
GROUPS_C = ["g", "g_", "h", "k"]
DIMS_C = ["x", "_x", "g__x"]
VARS_C = ["x", "_x", "g__x", "g__x_1", "h__x", "p"]


def rand_tree(rng, depth=0, maxdepth=3, visible=(), pools=None):
    """A random group: dims, vars (dims chosen among the visible ones), children."""
    GROUPS, DIMS, VARS = pools or (GROUPS0, DIMS0, VARS0)
    t = {"name": "", "dims": [], "vars": [], "subs": []}
    for d in rng.sample(DIMS, len(DIMS)):
        if rng.random() < (0.5 if depth == 0 else 0.3):
            t["dims"].append([d, rng.choice([2, 3])])
    vis = list(dict.fromkeys([d for d, _ in t["dims"]] + list(visible)))
    for v in rng.sample(VARS, len(VARS)):
        if rng.random() < 0.4:
            r = rng.random()
            if v in vis and r < 0.6:
                dims = [v]                       # a coordinate variable
            elif r < 0.3 or not vis:
                dims = []
            else:
                dims = [rng.choice(vis) for _ in range(rng.choice([1, 1, 2]))]
            t["vars"].append({"name": v, "dims": dims})
    if depth < maxdepth:
        nsub = rng.choice([1, 2, 3] if depth == 0 else [0, 0, 1, 2] if maxdepth <= 3 else [0, 1, 1, 2])
        for name in rng.sample(GROUPS, nsub):
            c = rand_tree(rng, depth + 1, maxdepth, vis, pools)
            c["name"] = name
            t["subs"].append(c)
    return t


def vd_pick(c, v):
    """a deterministic fifth of the variables (those spanning a dimension twice are always taken)"""
    return (len(v["name"]) + len(v["dims"]) + c["i"]) % 5 == 0


def group_of(t, path):
    for p in path:
        t = [c for c in t["subs"] if c["name"] == p][0]
    return t


def all_groups(t, path=()):
    yield list(path), t
    for c in t["subs"]:
        yield from all_groups(c, tuple(path) + (c["name"],))


LIST_VAR_ATTRS = ["coordinates", "coordinates", "bounds", "ancillary_variables", "geometry", "node_coordinates",
                  "climatology", "mesh"]
LIST_DIM_ATTRS = ["compress", "dimensions", "sample_dimension", "instance_dimension"]
VALUE_ATTRS = ["cell_measures", "formula_terms", "interpolation_parameters"]


def rand_ref(rng, tree, gpath):
    """A reference string of one of the CF forms, biased towards things that exist."""
    groups = list(all_groups(tree))
    r = rng.random()
    own = sorted({v["name"] for _, g in groups for v in g["vars"] if not v["name"].startswith("q")}
                 | {d for _, g in groups for d, _ in g["dims"]})
    name = rng.choice(own) if own and rng.random() < 0.85 else rng.choice(VARS + DIMS)
    if r < 0.2:                                   # absolute
        p, g = rng.choice(groups)
        names = [v["name"] for v in g["vars"]] + [d for d, _ in g["dims"]]
        if names and rng.random() < 0.8:
            name = rng.choice(names)
        return "/" + "/".join(p + [name])
    if r < 0.5:                                   # relative
        ups = rng.choice([0, 0, 1, 1, 2, 3])
        ups = min(ups, len(gpath) + (1 if rng.random() < 0.15 else 0))
        base = gpath[:len(gpath) - ups] if ups <= len(gpath) else []
        comps = []
        g = None
        for p, gg in groups:
            if p == base:
                g = gg
        for _ in range(rng.choice([0, 1, 1, 2])):
            if g is not None and g["subs"] and rng.random() < 0.85:
                g = rng.choice(g["subs"])
                comps.append(g["name"])
            else:
                comps.append(rng.choice(GROUPS))
                g = None
        if g is not None and rng.random() < 0.75:
            names = [v["name"] for v in g["vars"]] + [d for d, _ in g["dims"]]
            if names:
                name = rng.choice(names)
        if ups == 0 and not comps:
            comps = [rng.choice(GROUPS)]
        return "../" * ups + "/".join(comps + [name])
    if r < 0.95:                                  # by proximity (and laterally)
        return name
    return rng.choice(["nothere", "./x", "a//x", "..", "x/"])


def rand_probe(rng, tree, k):
    gpath, g = rng.choice(list(all_groups(tree)))
    var = f"q{k}"
    g["vars"].append({"name": var, "dims": []})
    r = rng.random()
    coords = None

    def refs(n):
        out = []
        while len(out) < n:
            x = rand_ref(rng, tree, gpath)
            if x not in out:
                out.append(x)
        return out

    if r < 0.4:
        attr = rng.choice(LIST_VAR_ATTRS)
        pattr = [[x, None] for x in refs(rng.choice([1, 2, 3]))]
    elif r < 0.5:
        attr = rng.choice(LIST_DIM_ATTRS)
        pattr = [[x, None] for x in refs(rng.choice([1, 2]))]
    elif r < 0.62:
        attr = rng.choice(VALUE_ATTRS)
        pattr = [[t, [x]] for t, x in zip(["area", "volume", "a"], refs(rng.choice([1, 2])))]
    elif r < 0.72:
        attr = "grid_mapping"
        if rng.random() < 0.5:
            pattr = [[x, None] for x in refs(1)]
        else:
            xs = refs(3)
            pattr = [[xs[0], xs[1:]]]
    elif r < 0.92:
        attr = "cell_methods"
        xs = refs(rng.choice([1, 2]))
        pattr = [[x, [rng.choice(["mean", "maximum"])]] for x in xs]
        if rng.random() < 0.3:
            pattr.append(["area", ["sum"]])
        if rng.random() < 0.6:
            # the "coordinates" attribute is itself flattened: keep it resolvable, so that a
            # strict run can only fail on the probe's own references
            T = Tree(spec_to_raw(tree))
            pool = [x for x in dict.fromkeys(xs + ["lat", "p", "x", "t"]) if cf_targets(T, gpath, x, "var", True)]
            if pool:
                coords = " ".join(rng.sample(pool, min(len(pool), rng.choice([1, 2]))))
    else:
        attr = "tie_point_mapping"
        xs = refs(3)
        pattr = [[xs[0], xs[1:]]]
    # (since 8d03027 the parsed attribute is an ordered list) a name occurring twice, and one
    # target spelled in two ways: every occurrence must be replaced in place, none merged
    r2 = rng.random()
    listform = all(v is None for _, v in pattr)
    if r2 < 0.12 and listform:
        k = rng.choice(pattr)[0]
        pattr.insert(rng.randint(0, len(pattr)), [k, None])
    elif r2 < 0.3 and listform and attr not in LIST_DIM_ATTRS:
        sp = two_spellings(rng, tree, gpath, "var")
        for x in sp:
            pattr.insert(rng.randint(0, len(pattr)), [x, None])
    elif r2 < 0.3 and listform:
        sp = two_spellings(rng, tree, gpath, "dim")
        for x in sp:
            pattr.insert(rng.randint(0, len(pattr)), [x, None])
    elif r2 < 0.35 and attr == "cell_methods":
        # "a: b: mean b: a: maximum", "a: mean a: maximum", or one axis in two spellings
        sp = two_spellings(rng, tree, gpath, "dim") or [x for x, _ in pattr]
        a_, b_ = sp[0], sp[-1]
        form = rng.choice([0, 1, 2])
        if form == 0:
            pattr = [[a_, []], [b_, ["mean"]], [b_, []], [a_, ["maximum"]]]
        elif form == 1:
            pattr = [[a_, ["mean"]], [a_, ["maximum"]]]
        else:
            pattr = [[a_, ["mean"]], [b_, ["maximum"]], ["area", ["sum"]]]
    elif r2 < 0.3 and attr in VALUE_ATTRS:
        sp = two_spellings(rng, tree, gpath, "var")
        if len(sp) == 2:
            pattr = [["area", [sp[0]]], ["area", [sp[1]]]] if rng.random() < 0.5 else [["area", [sp[0]]], ["volume", [sp[1]]]]
    return {"group": gpath, "var": var, "attr": attr, "pattr": pattr, "coords": coords}


def two_spellings(rng, tree, gpath, kind):
    """Two different reference strings for one element of the tree, as seen from gpath
    (absolute, relative, a relative path taking one more step up, the bare name)."""
    elts = []
    for p, g in all_groups(tree):
        names = [d for d, _ in g["dims"]] if kind == "dim" else [v["name"] for v in g["vars"] if not v["name"].startswith("q")]
        elts += [(p, n) for n in names]
    if not elts:
        return []
    p, n = rng.choice(elts)
    common = 0
    while common < min(len(p), len(gpath)) and p[common] == gpath[common]:
        common += 1
    forms = ["/" + "/".join(list(p) + [n])]
    for c in ([common, common - 1] if common >= 1 else [common]):
        rel = "../" * (len(gpath) - c) + "/".join(list(p[c:]) + [n])
        if "/" in rel:
            forms.append(rel)
    forms.append(n)
    forms = list(dict.fromkeys(forms))
    return rng.sample(forms, 2) if len(forms) >= 2 else forms


def spec_to_raw(t):
    return {"name": t["name"], "dims": [d for d, _ in t["dims"]], "vars": [[v["name"], len(v["dims"])] for v in t["vars"]],
            "subs": [spec_to_raw(c) for c in t["subs"]]}


def render_pattr(pattr):
    out = []
    for k, v in pattr:
        if v is None:
            out.append(k)
        elif not v:
            out.append(k + ":")
        else:
            out.append(k + ": " + " ".join(v))
    return " ".join(out)


# ---------------------------------------------------------------- the CF section 2.7 reference oracle
class Tree:
    """Index of an observed tree (as the driver reports it) for the oracle."""

    def __init__(self, raw):
        self.groups = {}

        def rec(t, path):
            self.groups[path] = {"dims": list(t["dims"]), "vars": {v[0]: v[1] for v in t["vars"]},
                                 "subs": [c["name"] for c in t["subs"]]}
            for c in t["subs"]:
                rec(c, path + (c["name"],))

        rec(raw, ())

    def has(self, path, name, kind):
        g = self.groups.get(tuple(path))
        if g is None:
            return False
        return name in (g["dims"] if kind == "dim" else g["vars"])


def cf_targets(T, gpath, ref, kind, lateral):
    """The set of elements (group path, name) that CF section 2.7 lets `ref`, written in a
    variable of group `gpath`, denote as a `kind`; empty = unresolved."""
    gpath = tuple(gpath)
    if ref.startswith("/"):
        comps = ref.split("/")[1:]
        p, n = tuple(comps[:-1]), comps[-1]
        return {(p, n)} if T.has(p, n, kind) else set()
    if "/" in ref:
        ups = 0
        rest = ref
        while rest.startswith("../"):
            ups += 1
            rest = rest[3:]
        if ups > len(gpath):
            return set()
        comps = rest.split("/")
        p = gpath[:len(gpath) - ups] + tuple(comps[:-1])
        return {(p, comps[-1])} if T.has(p, comps[-1], kind) else set()
    # by proximity: the referring group, then its ancestors
    for k in range(len(gpath), -1, -1):
        p = gpath[:k]
        if T.has(p, ref, kind):
            return {(p, ref)}
        if lateral and ref in T.groups[p]["dims"]:
            # local apex: search downwards, level by level
            level = [p + (c,) for c in T.groups[p]["subs"]]
            while level:
                hits = {(q, ref) for q in level if T.has(q, ref, kind)}
                if hits:
                    return hits
                level = [q + (c,) for q in level for c in T.groups[q]["subs"]]
            return set()
    return set()


def flat_of(p, n, names=None):
    """The flattened name of element (p, n): the one the file's own mapping attribute records for
    its absolute path when there is one (clashing proposals get a counter), else the proposal."""
    if names is not None:
        ab = "/" + "/".join(list(p) + [n])
        if ab in names:
            return names[ab]
    return "__".join(list(p) + [n])


def cf_expected_token(T, rules, gpath, coords, ref, strict):
    """Acceptable replacement strings for one reference (None in the set = must raise)."""
    vn, dn = getattr(T, "vnames", None), getattr(T, "dnames", None)

    def flat_of(p, n, kind="var"):
        return globals()["flat_of"](p, n, dn if kind == "dim" else vn)
    order = []
    if rules["ref_to_dim"] > rules["ref_to_var"]:
        order = ["dim"] + (["var"] if rules["ref_to_var"] else [])
    else:
        order = ["var"] + (["dim"] if rules["ref_to_dim"] else [])
    if ref.startswith("/"):
        for kind in order:
            hits = cf_targets(T, gpath, ref, kind, False)
            if hits:
                return {flat_of(*h, kind) for h in hits}
    else:
        for kind in order:
            hits = cf_targets(T, gpath, ref, kind, rules["stop_at_local_apex"])
            if hits:
                if kind == "var" and rules["limit_to_scalar_coordinates"]:
                    ok = coords is not None and ref in coords
                    return {flat_of(*h, kind) if ok and T.groups[h[0]]["vars"][h[1]] == 0 else ref for h in hits}
                return {flat_of(*h, kind) for h in hits}
    if rules["accept_standard_names"]:
        return {ref}
    return {None} if strict else {"REF_NOT_FOUND_" + ref}


def cf_check_attr(T, rules, probe, strict, obs):
    """True if the observed attribute string is what CF prescribes."""
    exp_keys = []
    must_raise = False
    toks = []
    for k, v in probe["pattr"]:
        ks = cf_expected_token(T, rules, probe["group"], probe["coords"], k, strict) if rules["resolve_key"] else {k}
        vs = None
        if v is not None:
            vs = [cf_expected_token(T, rules, probe["group"], probe["coords"], x, strict) if rules["resolve_value"] else {x}
                  for x in v]
        toks.append((ks, vs))
        if None in ks or (vs and any(None in s_ for s_ in vs)):
            must_raise = True
    if must_raise:
        return "exc" in obs
    if "ok" not in obs:
        return False
    # every combination of acceptable targets (more than one only for lateral ties); every word
    # is replaced in place: nothing is merged (CF 2.7 says what a reference denotes, not that two
    # references to one thing become one)
    import itertools
    slots = []
    for ks, vs in toks:
        slots.append(sorted(ks))
        for s_ in (vs or []):
            slots.append(sorted(s_))
    n = 0
    for combo in itertools.product(*slots):
        n += 1
        if n > 64:
            break
        it = iter(combo)
        d = []
        for ks, vs in toks:
            k = next(it)
            d.append([k, None if vs is None else [next(it) for _ in vs]])
        if render_pattr(d) == obs["ok"]:
            return True
    return False


# ---------------------------------------------------------------- generators: coordinate-variable files
def coord_case(rng):
    chain = rng.sample(GROUPS, 3)
    dlen = rng.choice([0, 0, 1, 1, 2])
    D = chain[:dlen]
    F = D + rng.sample([g for g in GROUPS if g not in D], rng.choice([0, 1, 1, 2]))
    # candidate groups inside D's subtree
    cands = []
    pool = []
    for k in range(len(D), len(F) + 1):
        pool.append(F[:k])                         # on the chain (proximal)
    for k in range(len(D), len(F) + 1):
        for side in GROUPS:
            if k < len(F) and F[k] == side:
                continue
            pool.append(F[:k] + [side])
            for side2 in GROUPS[:2]:
                if side2 != side:
                    pool.append(F[:k] + [side, side2])
    onchain = [F[:k] for k in range(len(D), len(F) + 1)]
    if len(onchain) >= 2 and rng.random() < 0.4:
        # two or three same-named coordinate variables on the data variable's ancestor path
        cands = sorted(rng.sample(onchain, rng.choice([2, 2, min(3, len(onchain))])), key=lambda p: rng.random())
    for p in rng.sample(pool, min(len(pool), rng.choice([0, 1, 1, 2, 2, 3]))):
        if p not in cands:
            cands.append(p)
    shadow = []
    if rng.random() < 0.25:
        # a different dimension of the same name (and its coordinate variable) off the chain
        offs = [p for p in pool if p[:len(F)] != F[:len(p)] or len(p) > len(F)]
        offs = [p for p in offs if p not in cands and all(c[:len(p)] != p for c in cands)]
        if offs:
            shadow.append(rng.choice(offs))
    c = {"D": D, "F": F, "cands": cands, "shadow": shadow, "strings": rng.random() < 0.15}
    # group names of varied length (1-12 characters), so that the order of the candidates by depth
    # and their order by the length of the path string differ; with a bias towards long names
    # near the root when there are lateral candidates at different depths
    lat = [p for p in cands if F[:len(p)] != p]
    names = rng.sample(NAMEPOOL, len(GROUPS))
    if len({len(p) for p in lat}) > 1 and rng.random() < 0.5:
        names.sort(key=len)
        shallow = {p[len(D)] for p in lat if len(p) == min(len(q) for q in lat) and len(p) > len(D)}
        order = sorted(GROUPS, key=lambda g_: (g_ in shallow, rng.random()))
        ren = dict(zip(order, names))
    else:
        ren = dict(zip(GROUPS, names))
    for k in ("D", "F"):
        c[k] = [ren[x] for x in c[k]]
    for k in ("cands", "shadow"):
        c[k] = [[ren[x] for x in p] for p in c[k]]
    # a dimension of the same name and another size in a group ABOVE the dimension's group: the
    # data variable's "x" must stay bound to the nearest one
    c["outer"] = []
    if c["D"] and rng.random() < 0.4:
        c["outer"].append(c["D"][:rng.randint(0, len(c["D"]) - 1)])
    return c


NAMEPOOL = ["a", "b", "c", "q", "gg", "hh", "obs", "run2", "model", "inner", "forecast", "analysis", "observations",
            "long_group_1", "z9", "ensemble_m"]


def order_disagrees(c):
    """True if two lateral candidates are ordered differently by group depth and by the length of
    their path string."""
    F = c["F"]
    lat = [p for p in c["cands"] if F[:len(p)] != p]
    slen = lambda p: len("/" + "/".join(p + ["x"]))  # noqa
    return any(len(p) < len(q) and slen(p) > slen(q) for p in lat for q in lat)


def coord_tree(c):
    """The nested-dict dataset of a coordinate-variable case."""
    root = {"name": "", "dims": [], "vars": [], "subs": []}

    def at(path):
        g = root
        for p in path:
            nxt = [x for x in g["subs"] if x["name"] == p]
            if not nxt:
                nxt = [{"name": p, "dims": [], "vars": [], "subs": []}]
                g["subs"].append(nxt[0])
            g = nxt[0]
        return g

    for p in c.get("outer", []):
        at(p)["dims"].append(["x", 5])
    at(c["D"])["dims"].append(["x", 3])
    for j, p in enumerate(c["cands"]):
        if c.get("strings"):
            # string-valued coordinate variables (labels of different lengths)
            at(p)["vars"].append({"name": "x", "dims": ["x"], "dtype": "str",
                                  "values": [f"c{j}" + "x" * i for i in range(3)],
                                  "attrs": {"long_name": "label"}})
            continue
        at(p)["vars"].append({"name": "x", "dims": ["x"], "values": [10 * (j + 1) + i for i in range(3)],
                              "attrs": {"standard_name": "longitude", "units": "degrees_east"}})
    for p in c["shadow"]:
        at(p)["dims"].append(["x", 3])
        at(p)["vars"].append({"name": "x", "dims": ["x"], "values": [900, 901, 902],
                              "attrs": {"standard_name": "longitude", "units": "degrees_east"}})
    at(c["F"])["vars"].append({"name": "ta", "dims": ["x"], "values": [1, 2, 3],
                               "attrs": {"standard_name": "air_temperature", "units": "K"}})
    return root


def coord_vars(c):
    """All variables in the flattened file's order, with the identity of their dimensions."""
    tree = coord_tree(c)
    out = []

    def rec(t, path, dimhome):
        home = dict(dimhome)
        for d, _ in t["dims"]:
            home[d] = list(path)
        for v in t["vars"]:
            out.append((list(path), v["name"], [(home[d], d) for d in v["dims"]]))
        for s_ in t["subs"]:
            rec(s_, path + [s_["name"]], home)

    rec(tree, [], {})
    return out


def coord_oracle(c):
    """Acceptable coordinate variables by CF 2.7 (a set of group paths; None = none)."""
    D, F = c["D"], c["F"]
    prox = [p for p in c["cands"] if F[:len(p)] == p]
    if prox:
        return {tuple(max(prox, key=len))}
    lat = [p for p in c["cands"]]
    if not lat:
        return {None}
    m = min(len(p) for p in lat)
    best = [tuple(p) for p in lat if len(p) == m]
    return set(best) | {None} if len(best) > 1 else set(best)


# ---------------------------------------------------------------- generators: fields
CHAINS = [["forecast", "model", "run"], ["g1", "g2", "g3"], ["a1", "b1", "c1"]]


def ext(rng, chain, lo, hi=3, side_ok=True):
    """A group path extending chain[:lo]: along the chain, or a side branch."""
    k = rng.randint(lo, max(hi, lo))
    p = chain[:k]
    if side_ok and rng.random() < 0.2 and len(p) < 3:
        # a sibling of the next group of the chain whose name extends that group's name, so that
        # a comparison of path strings that forgets the component boundary would be wrong
        p = p + [chain[len(p)] + "b"]
    return p


def full_name(groups, name):
    return "/" + "/".join(list(groups) + [name]) if groups else name


def field_spec(rng):
    chain = rng.choice(CHAINS)
    naxes = rng.choice([1, 2, 2, 3])
    sizes = rng.sample([2, 3, 4, 5], naxes)
    names = ["x", "y", "z"][:naxes]
    mode = rng.choice(["valid", "valid", "valid", "uniform", "random", "shadow", "root", "boundary", "varshadow", "deep"])
    kdata = rng.choice([0, 1, 2, 2, 3, 3])
    real_mode = mode
    if mode == "deep":
        # a chain of depth 4
        chain = chain + [chain[-1] + "x"]
        mode = "valid"
        kdata = 4
    if mode == "varshadow":
        mode = "valid"
        kdata = max(kdata, 2)
    if mode == "boundary":
        # valid by construction, then ONE variable is moved to a sibling of its dimension's group
        # whose name extends that group's name (/g1/g2b beside /g1/g2): must be refused
        mode = "valid"
        kdata = max(kdata, 1)
    if mode == "root":
        kdata = 0
    axes, cons = [], []
    r0 = rng.randint(0, kdata)
    for i in range(naxes):
        has_dc = rng.random() < 0.7
        if mode == "valid":
            dg = chain[:rng.randint(1 if (real_mode == "boundary" and i == 0) else 0, kdata)]
        elif mode in ("uniform", "shadow"):
            dg = chain[:r0]
        elif mode == "root":
            dg = []
        else:
            dg = ext(rng, chain, 0)
        axes.append({"size": sizes[i], "ncdim": names[i], "dimgroups": dg, "dc": has_dc})
        if has_dc:
            b = None
            if rng.random() < 0.5:
                b = {"ncvar": names[i] + "_bnds", "groups": None if rng.random() < 0.6 else ext(rng, chain, len(dg), 3, False)}
                if mode in ("valid", "uniform", "root", "shadow") and b["groups"] is not None:
                    b["groups"] = chain[:rng.randint(len(dg), max(3, len(dg)))] if mode != "root" else []
            cons.append({"type": "dim", "ncvar": names[i], "groups": dg, "axes": [i], "bounds": b,
                         "props": {"standard_name": ["longitude", "latitude", "height"][i],
                                   "units": ["degrees_east", "degrees_north", "m"][i]}})
    if mode == "shadow" and naxes >= 2:
        # two dimensions with the same basename in nested groups, neither with a coordinate variable
        sizes[1] = sizes[0] if rng.random() < 0.6 else sizes[1]
        axes[0].update({"ncdim": "x", "dimgroups": [], "dc": False})
        axes[1].update({"ncdim": "x", "dimgroups": chain[:1], "dc": False, "size": sizes[1]})
        cons = [c for c in cons if c["axes"][0] >= 2]
        kdata = max(kdata, 1)

    def depth_needed(ax):
        return max([len(axes[i]["dimgroups"]) for i in ax if axes[i]["dimgroups"] is not None] + [0])

    def place(ax):
        if mode == "random":
            return ext(rng, chain, 0)
        if mode == "root":
            return []
        lo = depth_needed(ax)
        # all dims lie on the chain, so an extension of the deepest one sees them all
        return ext(rng, chain, lo, 3, side_ok=(mode != "shadow"))

    def mk(t, ncvar, ax, props, bounds=False):
        b = None
        g = place(ax)
        if bounds and rng.random() < 0.5:
            b = {"ncvar": ncvar + "_bnds", "groups": None}
        cons.append({"type": t, "ncvar": ncvar, "groups": g, "axes": ax, "bounds": b, "props": props})

    all_ax = list(range(naxes))
    if rng.random() < 0.8:
        mk("aux", "aux1", [rng.choice(all_ax)], {"long_name": "first aux"}, bounds=True)
    if rng.random() < 0.35:
        # a string-valued auxiliary coordinate (labels of different lengths)
        mk("aux", "label", [rng.choice(all_ax)], {"long_name": "station label"})
        cons[-1]["strings"] = True
    if naxes >= 2 and rng.random() < 0.7:
        mk("aux", "aux2", rng.sample(all_ax, 2), {"standard_name": "latitude", "units": "degrees_north"}, bounds=True)
    if rng.random() < 0.5:
        # a scalar coordinate: spans its own size-1 axis, which the data do not span
        # (a numeric scalar coordinate variable is read as a dimension coordinate)
        axes.append({"size": 1, "ncdim": None, "dimgroups": None, "dc": False, "scalar": True})
        mk("dim", "scal", [len(axes) - 1], {"standard_name": "time", "units": "days since 2000-01-01"})
    if rng.random() < 0.6:
        mk("measure", "areacell", all_ax[:2], {"units": "m2"})
    if rng.random() < 0.6:
        mk("anc", "ta_err", all_ax, {"long_name": "error", "units": "K"})
    data_axes = all_ax
    spec = {"props": {"standard_name": "air_temperature", "units": "K", "comment": "generated"},
            "ncvar": "ta", "axes": axes, "data_axes": data_axes, "constructs": cons, "mode": mode}
    spec["groups"] = chain[:kdata] if mode != "random" else ext(rng, chain, 0)
    if mode == "valid":
        spec["groups"] = chain[:max(kdata, depth_needed(data_axes))]
    # a latitude_longitude grid mapping is read back attached to exactly the coordinates
    # whose standard name is latitude or longitude
    auxes = [j for j, c in enumerate(cons) if c["type"] in ("aux", "dim")
             and c["props"].get("standard_name") in ("latitude", "longitude")]
    if auxes and rng.random() < 0.5:
        spec["grid_mapping"] = {"ncvar": "crs", "groups": place([]), "coords": auxes}
    if rng.random() < 0.4:
        spec["cell_methods"] = [{"axes": [rng.choice(data_axes)], "method": "mean"}]
        r3 = rng.random()
        if r3 < 0.3:
            # the same axis named by two cell methods
            spec["cell_methods"].append({"axes": list(spec["cell_methods"][0]["axes"]), "method": "maximum"})
        elif r3 < 0.6 and naxes >= 2:
            # "x: y: maximum y: x: mean": every axis named twice
            a2 = rng.sample(data_axes, 2)
            spec["cell_methods"] = [{"axes": a2, "method": "maximum"}, {"axes": a2[::-1], "method": "mean"}]
    if real_mode == "deep":
        spec["mode"] = "deep"
    if real_mode == "varshadow":
        # two variables of the same name: one in the root group, one in a group on the data
        # variable's ancestor path (open finding variable-shadowed: the writer refers to the root
        # one by its bare name, which the nearer one captures)
        spec["mode"] = "varshadow"
        ax = [rng.choice(all_ax)]
        root_ok = not axes[ax[0]]["dimgroups"]
        spec["groups"] = chain[:max(len(spec["groups"]), 2)]
        cons.append({"type": "aux", "ncvar": "twin", "groups": [] if root_ok else axes[ax[0]]["dimgroups"], "axes": ax,
                     "bounds": None, "props": {"long_name": "outer twin"}})
        inner = chain[:max(1, len(cons[-1]["groups"]) + 1)]
        if len(inner) <= len(spec["groups"]) and len(inner) > len(cons[-1]["groups"]):
            cons.append({"type": "aux", "ncvar": "twin", "groups": inner, "axes": ax,
                         "bounds": None, "props": {"long_name": "inner twin"}})
    if real_mode == "boundary":
        spec["mode"] = "boundary"
        movable = [c for c in cons if c["type"] != "dim"
                   and any(axes[i]["dimgroups"] for i in c["axes"] if axes[i].get("dimgroups") is not None)]
        if movable:
            c = rng.choice(movable)
            dg = max((axes[i]["dimgroups"] for i in c["axes"] if axes[i].get("dimgroups")), key=len)
            c["groups"] = dg[:-1] + [dg[-1] + "b"]
            c["bounds"] = None
    if spec["groups"] and rng.random() < 0.5:
        spec["group_attrs"] = {"comment": None} if rng.random() < 0.5 else {"model": "m1"}
        if "model" in spec["group_attrs"]:
            spec["props"]["model"] = "m1"
    return spec


def spec_variables(spec):
    """(kind, full netCDF name, full dimension names) of every variable the writer creates for
    the data-carrying constructs, as the writer derives them from the field."""
    axes = spec["axes"]
    dimname = {}
    for i, a in enumerate(axes):
        dc = [c for c in spec["constructs"] if c["type"] == "dim" and c["axes"] == [i]]
        if a.get("scalar"):
            dimname[i] = None                      # written as a scalar coordinate variable
        elif dc:
            dimname[i] = full_name(dc[0]["groups"], dc[0]["ncvar"])
        elif a["ncdim"] is None:
            dimname[i] = None                      # size-1 axis of a scalar coordinate: no dimension
        else:
            dimname[i] = full_name(a["dimgroups"], a["ncdim"])
    out = []
    for c in spec["constructs"]:
        name = full_name(c["groups"], c["ncvar"])
        dims = [dimname[i] for i in c["axes"] if dimname[i] is not None]
        out.append((c["type"], name, dims))
        if c.get("bounds"):
            bg = c["bounds"]["groups"] if c["bounds"]["groups"] is not None else c["groups"]
            out.append(("bounds", full_name(bg, c["bounds"]["ncvar"]), dims + ["bounds2"]))
    out.append(("data", full_name(spec["groups"], spec["ncvar"]), [dimname[i] for i in spec["data_axes"]]))
    if spec.get("grid_mapping"):
        gm = spec["grid_mapping"]
        out.append(("ref", full_name(gm["groups"], gm["ncvar"]), []))
    return out, dimname


def groups_of(name):
    return name.split("/")[1:-1] if "/" in name else []


def py_visible(ncvar, ncdims):
    g = groups_of(ncvar)
    return all(g[:len(groups_of(d))] == groups_of(d) for d in ncdims)


HIDDEN_MSG = "is hidden by the netCDF dimension of the same name"


def py_hidden(ncvar, ncdims, alldims):
    """True if netCDF would bind the basename of one of the dimensions to another dimension of
    that name, defined in a group between the dimension's group and the variable's."""
    gv = groups_of(ncvar)
    for d in ncdims:
        gd, b = groups_of(d), d.split("/")[-1]
        for d2 in alldims:
            g2 = groups_of(d2)
            if d2 != d and d2.split("/")[-1] == b and len(g2) > len(gd) and gv[:len(g2)] == g2 and g2[:len(gd)] == gd:
                return True
    return False


def dims_tree(alldims):
    root = {"name": "", "dims": [], "vars": [], "subs": []}
    for d in alldims:
        g = root
        for p in groups_of(d):
            nxt = [x for x in g["subs"] if x["name"] == p]
            if not nxt:
                nxt = [{"name": p, "dims": [], "vars": [], "subs": []}]
                g["subs"].append(nxt[0])
            g = nxt[0]
        g["dims"].append(d.split("/")[-1])
    return root


EXAMPLES = [0, 1, 2, 3, 5, 6, 7]


def example_case(rng):
    n = rng.choice(EXAMPLES)
    chain = rng.choice(CHAINS)
    k = rng.choice([1, 2, 3])
    r0 = rng.randint(0, k) if rng.random() < 0.5 else 0
    return {"example": n, "chain": chain, "k": k, "r0": r0, "seed": rng.randrange(10 ** 6)}


# ---------------------------------------------------------------- workers
def run_family(mode, cases, scratch, nworkers=12):
    for i, c in enumerate(cases):
        c["i"] = i
    if not cases:
        return [], []
    nworkers = max(1, min(nworkers, len(cases)))
    shards = [cases[k::nworkers] for k in range(nworkers)]
    res = lib.run_workers_parallel(DRV, [{"mode": mode, "scratch": scratch, "cases": s_} for s_ in shards])
    rows = [None] * len(cases)
    crashed = []
    for (rc, out, err), shard in zip(res, shards):
        for r in out:
            if isinstance(r, dict) and "i" in r:
                rows[r["i"]] = r
        if rc != 0 or any(rows[c["i"]] is None for c in shard):
            crashed.append((rc, (err or "")[-400:]))
    return rows, crashed


def load_rules():
    p = lib.subprocess.run(
        [lib.PY, "-c",
         "import json,dataclasses;from cfdm.read_write.netcdf.flatten.config import flattening_rules as r;"
         "print(json.dumps({k:dataclasses.asdict(v) for k,v in r.items()}))"],
        env=lib.child_env(), capture_output=True, text=True)
    return json.loads(p.stdout.strip().splitlines()[-1])


# ---------------------------------------------------------------- the check
def run(chk, model_ok):
    rng = chk.rng
    quick = chk.tier == "quick"
    scratch = chk.scratch
    stats = {}
    explained = set()
    ncorr = 0

    def bump(k, n=1):
        stats[k] = stats.get(k, 0) + n

    def crash(mode, crashed):
        for rc, err in crashed:
            chk.fail("correspondence", "worker-crash", f"C11 {mode} worker died rc={rc}: {err}",
                     {"correspondence": DRV + " " + mode})

    rules = load_rules()
    import os
    import time
    only = os.environ.get("C11_ONLY", "")          # development aid: run one family
    t_stage = [time.time()]

    def lap(name):
        stats["seconds:" + name] = round(time.time() - t_stage[0], 1)
        t_stage[0] = time.time()

    # ======================================================= 1. references through the flattener
    ref_cases = [json.loads(json.dumps(c)) for c in CORPUS_REFS + CORPUS_COLLIDE]
    for c in ref_cases:
        for pr in c["probes"]:
            pr.setdefault("coords", None)
    for k_ in range(0 if only not in ('', 'refs') else 330 if quick else 4800):
        # every fifth tree goes to depth 4; every eighth uses the pools of clashing names
        t = rand_tree(rng, maxdepth=4 if k_ % 5 == 4 else 3,
                      pools=(GROUPS_C, DIMS_C, VARS_C) if k_ % 8 == 7 else None)
        probes = [rand_probe(rng, t, k) for k in range(rng.choice([6, 8, 10]))]
        ref_cases.append({"tree": t, "probes": probes})
    for c in ref_cases:
        for pr in c["probes"]:
            pr["value"] = render_pattr(pr["pattr"])
    rows, crashed = run_family("refs", ref_cases, scratch)
    crash("refs", crashed)
    lap("refs-drive")
    lits, lit_case = [], []
    map_lits, map_case = [], []
    name_lits, name_case = [], []
    vd_lits, vd_case = [], []
    vd_cap = 400 if quick else 4000
    n_probe = 0
    distinct = set()
    for c, r in zip(ref_cases, rows):
        if r is None:
            continue
        if "harness_err" in r:
            chk.fail("correspondence", "harness-error", r["harness_err"],
                     {"correspondence": DRV + " refs", "input": c, "log": r.get("tb")})
            continue
        T = Tree(r["tree"])
        tlit = gtree(r["tree"])
        # distinct elements whose flattened names would coincide (outside the injectivity guard)
        flat_v = [flat_of(p_, v_) for p_, g_ in T.groups.items() for v_ in g_["vars"]]
        flat_d = [flat_of(p_, d_) for p_, g_ in T.groups.items() for d_ in g_["dims"]]
        if len(set(flat_v)) < len(flat_v) or len(set(flat_d)) < len(flat_d):
            bump("refs:colliding-flat-names")
            if "varmap" not in r:
                chk.fail("property", "flat-name-collision",
                         "a valid grouped dataset whose flattened names coincide cannot be flattened: "
                         + str(r["probes"][0]["lax"]), {"input": c["tree"], "observed": r["probes"][0]})
                continue
        if max(len(p_) for p_ in T.groups) >= 4:
            bump("refs:depth-4-trees")
        # flat names must be distinct (injectivity) and the maps must be the traversal
        if "varmap" in r:
            vm = [x.split(": ") for x in r["varmap"]]
            dm = [x.split(": ") for x in r["dimmap"]]
            T.vnames = {b_: a_ for a_, b_ in vm}
            T.dnames = {b_: a_ for a_, b_ in dm}
            # one entry per element, in both directions
            for m, what, allel in ((vm, "variable", [(p_, v_) for p_, g_ in T.groups.items() for v_ in g_["vars"]]),
                                   (dm, "dimension", [(p_, d_) for p_, g_ in T.groups.items() for d_ in g_["dims"]])):
                want = sorted("/" + "/".join(list(p_) + [n_]) for p_, n_ in allel)
                if sorted(b_ for _, b_ in m) != want:
                    chk.fail("property", "name-map-incomplete", f"the {what} map does not list every {what} once",
                             {"input": c["tree"], "expected": want, "observed": m})
            for m, what in ((vm, "variable"), (dm, "dimension")):
                flats = [a for a, _ in m]
                if len(set(flats)) != len(flats):
                    chk.fail("property", "flat-name-collision", f"two {what}s share a flattened name: {sorted(flats)}",
                             {"input": c["tree"], "observed": m})
            map_lits.append(f"({tlit}, {glist(vm, lambda p: f'({gs(p[1])}, {gs(p[0])})')}, "
                            f"{glist(dm, lambda p: f'({gs(p[1])}, {gs(p[0])})')})")
            map_case.append(c)
            for isdim, m in ((False, vm), (True, dm)):
                for flat, ab in m:
                    comps = ab.split("/")[1:]
                    name_lits.append(f"({gbool(isdim)}, {gpath(comps[:-1])}, {gs(comps[-1])}, {gs(flat)}, {gs(ab)})")
                    name_case.append((c, flat, ab))
        # ---- the same tree as a file, flattened through the netCDF4 and the h5netcdf backend
        bk = r.get("backends")
        if bk:
            n4, h5 = bk.get("netCDF4", {}), bk.get("h5netcdf", {})
            if "exc" in n4 or "exc" in h5:
                chk.fail("property", "h5netcdf-differs:flatten-raised" if "exc" not in n4 else "file-flatten-raised",
                         f"flattening the file (lax) raised: netCDF4 {n4.get('exc')} {n4.get('msg', '')}; h5netcdf {h5.get('exc')} {h5.get('msg', '')}",
                         {"input": c["tree"], "observed": {"netCDF4": n4.get("exc"), "h5netcdf": h5.get("exc"), "msg": h5.get("msg"),
                                                           "tb": h5.get("tb") or n4.get("tb"), "attrs": h5.get("attrs") or n4.get("attrs")}})
            else:
                bump("refs:flattened-through-both-backends")
                # h5netcdf lists the dimensions of a group in another order than netCDF4 (harmless); when
                # proposed names clash the counters may then be given out differently, so everything
                # is compared after translation to absolute paths through each backend's own maps
                dflat = {b_: a_ for a_, b_ in (x.split(": ") for x in n4["dimmap"])}
                dflat5 = {b_: a_ for a_, b_ in (x.split(": ") for x in h5["dimmap"])}
                for B in (n4, h5):
                    dab = dict(x.split(": ") for x in B["dimmap"])
                    B["varmap"], B["dimmap"] = sorted(x.split(": ")[1] for x in B["varmap"]), sorted(x.split(": ")[1] for x in B["dimmap"])
                    B["dimsizes"] = {dab[k_]: v_ for k_, v_ in B["dimsizes"].items()}
                    B["vardims_abs"] = {k_: [dab[d_] for d_ in v_] for k_, v_ in B["vardims"].items()}
                same_names = sorted(n4["vardims"].items()) == sorted(h5["vardims"].items())
                for key in ("varmap", "dimmap", "dimsizes", "vardims_abs") + (("refattrs",) if same_names else ()):
                    if n4[key] != h5[key]:
                        diff = n4[key] if not isinstance(n4[key], dict) else {k_: (n4[key].get(k_), h5[key].get(k_))
                                                                              for k_ in set(n4[key]) | set(h5[key]) if n4[key].get(k_) != h5[key].get(k_)}
                        chk.fail("property", f"h5netcdf-differs:flatten:{key}",
                                 f"the flattened dataset differs between the backends in {key} (netCDF4, h5netcdf): {str(diff)[:300]}",
                                 {"input": c["tree"], "expected": n4[key], "observed": h5[key]})
                        break
                # every variable's dimensions are the nearest enclosing definitions (oracle: a walk
                # up the generated tree; model: nc_lookup_dim / h5_get_dims + the dimension map)
                multi = False
                for gp_, g_ in all_groups(c["tree"]):
                    for v_ in g_["vars"]:
                        ab = "/" + "/".join(list(gp_) + [v_["name"]])
                        want = []
                        for d_ in v_["dims"]:
                            k_ = len(gp_)
                            while k_ >= 0 and d_ not in [x_ for x_, _ in group_of(c["tree"], gp_[:k_])["dims"]]:
                                k_ -= 1
                            if k_ < len(gp_) and any(d_ in [x_ for x_, _ in group_of(c["tree"], gp_[:j_])["dims"]] for j_ in range(k_)):
                                multi = True
                            want.append("/" + "/".join(list(gp_[:k_]) + [d_]))
                        for tag_, B, dfl in (("netCDF4", n4, dflat), ("h5netcdf", h5, dflat5)):
                            got = B["vardims"].get(ab)
                            if got != [dfl.get(w_) for w_ in want]:
                                chk.fail("property", f"variable-dimensions-not-nearest:{tag_}",
                                         f"{ab}{tuple(v_['dims'])} flattened through {tag_} spans {got}; the nearest enclosing dimensions are {want}",
                                         {"input": c["tree"], "expected": want, "observed": got})
                            if v_["dims"] and got is not None and tag_ == "h5netcdf" and same_names and len(vd_lits) < vd_cap and (
                                    len(set(v_["dims"])) < len(v_["dims"]) or vd_pick(c, v_)):
                                vd_lits.append(f"({tlit}, {gpath(list(reversed(gp_)))}, {gpath(v_['dims'])}, {gpath(got)}, {gbool(tag_ == 'h5netcdf')})")
                                vd_case.append((c, ab, tag_, got))
                if multi:
                    bump("refs:variable-below-two-same-named-dimensions")
        for pr, ob in zip(c["probes"], r["probes"]):
            n_probe += 1
            rl = rules[pr["attr"]]
            form = set()
            for k, v in pr["pattr"]:
                for x in ([k] if rl["resolve_key"] else []) + (list(v or []) if rl["resolve_value"] else []):
                    form.add("absolute" if x.startswith("/") else "relative" if "/" in x else
                             "lateral" if rl["stop_at_local_apex"] else "proximal")
            for f_ in form:
                bump("ref:" + f_)
            bump("attr:" + pr["attr"])
            ws = [k for k, _ in pr["pattr"]] + [x for _, v in pr["pattr"] for x in (v or [])]
            if len(set(k for k, _ in pr["pattr"])) < len(pr["pattr"]):
                bump("ref:name-occurs-twice")
            o_ = ob["lax"].get("ok")
            if o_ is not None and len(pr["pattr"]) > 1:
                outw = [w.rstrip(":") for w in o_.split() if not w.startswith("REF_NOT_FOUND")]
                if len(set(ws)) == len(ws) and any(outw.count(w) > 1 and w not in ("mean", "maximum", "sum") for w in outw):
                    bump("ref:two-spellings-resolve-to-one-name")
            distinct.add(lib.canon([r["tree"], pr["group"], pr["attr"], pr["pattr"], pr["coords"]]))
            for strict in (False, True):
                o = ob["strict" if strict else "lax"]
                if not cf_check_attr(T, rl, pr, strict, o):
                    explained.add(("ref", c["i"], pr["var"], strict))
                    kind = "+".join(sorted(form)) or "none"
                    sig = f"reference-resolution:{kind}" + (":raised" if "exc" in o and o["exc"] != "UnresolvedReferenceException" else "")
                    chk.fail("property", sig,
                             f"{pr['attr']}={pr['value']!r} in a variable of /{'/'.join(pr['group'])} flattened "
                             f"(strict={strict}) to {o}, which is not what CF section 2.7 prescribes",
                             {"input": {"tree": r["tree"], "probe": pr, "strict": strict}, "observed": o})
                obs_l = "(@None str)" if "exc" in o else f"(Some {gs(o['ok'])})"
                lits.append(f"({tlit}, {lib.gstr(pr['attr'])}, {gbool(strict)}, {gpath(list(reversed(pr['group'])))}, "
                            f"{'(@None str)' if pr['coords'] is None else '(Some ' + gs(pr['coords']) + ')'}, {gpattr(pr['pattr'])}, {obs_l})")
                lit_case.append((c, pr, strict, o))
    if model_ok and lits:
        bad = lib.coq_bad_indices("C11", REQ, "check_ref", lits, chunk=150)
        ncorr += len(lits)
        for i in bad[:40]:
            c, pr, strict, o = lit_case[i]
            if ("ref", c["i"], pr["var"], strict) in explained:
                continue
            chk.fail("correspondence", "model-vs-impl:reference",
                     f"model and flattener disagree on {pr['attr']}={pr['value']!r} in /{'/'.join(pr['group'])} (strict={strict}): {o}",
                     {"correspondence": "C11.Run.check_ref", "input": {"tree": rows[c['i']]['tree'], "probe": pr, "strict": strict},
                      "observed": o})
        bad = lib.coq_bad_indices("C11", REQ, "check_maps", map_lits, chunk=100)
        ncorr += len(map_lits)
        for i in bad[:20]:
            chk.fail("correspondence", "model-vs-impl:name-maps", "model and flattener disagree on the name-mapping attributes",
                     {"correspondence": "C11.Run.check_maps", "input": map_case[i]["tree"], "observed": rows[map_case[i]["i"]].get("varmap")})
        bad = lib.coq_bad_indices("C11", REQ, "check_vardims", vd_lits, chunk=200)
        ncorr += len(vd_lits)
        for i in bad[:20]:
            c, ab, tag_, got = vd_case[i]
            chk.fail("correspondence", "model-vs-impl:variable-dimensions",
                     f"model and flattener ({tag_}) disagree on the dimensions of {ab}: {got}",
                     {"correspondence": "C11.Run.check_vardims", "input": c["tree"], "observed": got})
        bad = lib.coq_bad_indices("C11", REQ, "check_name", name_lits, chunk=600)
        ncorr += len(name_lits)
        for i in bad[:20]:
            c, flat, ab = name_case[i]
            chk.fail("correspondence", "model-vs-impl:flat-name", f"model and flattener disagree on the flattened name of {ab}: {flat}",
                     {"correspondence": "C11.Run.check_name", "input": ab, "observed": flat})

    lap("refs-check")
    # ======================================================= 2. the reader's coordinate-variable search
    coord_cases = [dict(c) for c in CORPUS_COORD]
    for _ in range(0 if only not in ('', 'coord') else 300 if quick else 3600):
        coord_cases.append(coord_case(rng))
    for j, c in enumerate(coord_cases):
        c["i"] = j
    payload = [{"tree": coord_tree(c), "field": [c["F"], "ta"]} for c in coord_cases]
    rows, crashed = run_family("coord", payload, scratch)
    crash("coord", crashed)
    lits, lit_case = [], []
    for c, r in zip(coord_cases, rows):
        if r is None:
            continue
        if "harness_err" in r:
            chk.fail("correspondence", "harness-error", r["harness_err"], {"correspondence": DRV + " coord", "input": c, "log": r.get("tb")})
            continue
        bump("coord:" + ("proximal" if any(c["F"][:len(p)] == p for p in c["cands"]) else "lateral" if c["cands"] else "none"))
        distinct.add(lib.canon(["coord", c]))
        if "exc" in r or "missing" in r:
            chk.fail("property", "grouped-file-not-read", f"a valid grouped file was not read: {r}", {"input": c, "observed": r})
            continue
        got = r["dimcoord"]
        ok_set = coord_oracle(c)
        for what in r.get("alias", []):
            chk.fail("property", "array-aliased", f"overwriting a returned array in place changed what is read next: {what}",
                     {"input": c, "observed": what})
        if r.get("dimcoord_values_again") != r.get("dimcoord_values"):
            chk.fail("property", "array-aliased", "the dimension coordinate's values changed after a returned array was overwritten",
                     {"input": c, "observed": [r.get("dimcoord_values"), r.get("dimcoord_values_again")]})
        if order_disagrees(c):
            bump("coord:lateral-depth-order-differs-from-string-length-order")
        if c.get("outer"):
            bump("coord:same-named-outer-dimension")
        h5 = r.get("h5", {})
        if "exc" in h5 or "missing" in h5:
            chk.fail("property", "h5netcdf-differs:coordinate-file-not-read",
                     f"the file that the netCDF4 backend reads could not be read with netcdf_backend='h5netcdf': {h5}",
                     {"input": c, "observed": h5})
        elif h5 and (h5.get("dimcoord") != r.get("dimcoord") or h5.get("shape") != r.get("shape")
                     or h5.get("axis_ncdim") != r.get("axis_ncdim") or h5.get("dimcoord_values") != r.get("dimcoord_values")
                     or h5.get("equals") is not True):
            chk.fail("property", "h5netcdf-differs:coordinate-file",
                     f"netcdf_backend='h5netcdf' gave dimension coordinate {h5.get('dimcoord')} shape {h5.get('shape')} axis {h5.get('axis_ncdim')}; "
                     f"netCDF4 gave {r.get('dimcoord')} shape {r.get('shape')} axis {r.get('axis_ncdim')}",
                     {"input": c, "expected": {k: r.get(k) for k in ("dimcoord", "shape", "axis_ncdim", "dimcoord_values")}, "observed": h5})
        if r.get("shape") != [3]:
            chk.fail("property", "coordinate-file-wrong-dimension", f"the data variable's axis has shape {r.get('shape')} instead of [3]",
                     {"input": c, "observed": r})
        if c.get("strings"):
            bump("coord:string-valued")
        if max([len(c["F"])] + [len(p) for p in c["cands"]]) >= 4:
            bump("coord:depth-4")
        gotp = None
        if got:
            nm = got[0]
            gotp = tuple(nm.split("/")[1:-1]) if "/" in nm else ()
            if (nm.split("/")[-1] if "/" in nm else nm) != "x":
                gotp = ("?",)
        has_groups = bool(c["D"] or c["F"] or c["cands"] or c["shadow"] or any(c.get("outer", [])))
        if gotp not in ok_set:
            explained.add(("coord", c["i"]))
            kind = "proximal" if any(c["F"][:len(p)] == p for p in c["cands"]) else "lateral"
            chk.fail("property", f"coordinate-variable-search:{kind}",
                     f"dimension x in /{'/'.join(c['D'])}, data variable in /{'/'.join(c['F'])}, coordinate variables x(x) in "
                     f"{['/' + '/'.join(p) for p in c['cands']]}: cfdm.read chose {got}, CF 2.7 allows {sorted(map(str, ok_set))}",
                     {"input": c, "observed": r})
        vars_ = coord_vars(c)
        lits.append(f"({gbool(has_groups and any(len(v[0]) for v in vars_))}, "
                    + glist(vars_, lambda v: f"(mkVar {gpath(v[0])} {gs(v[1])} {glist(v[2], gid)})")
                    + f", {gid((c['F'], 'ta'))}, {gid((c['D'], 'x'))}, "
                    + ("(@None (list str * str))" if gotp is None else f"(Some {gid((list(gotp), 'x'))})") + ")")
        lit_case.append((c, r))
    if model_ok and lits:
        bad = lib.coq_bad_indices("C11", REQ, "check_coord", lits, chunk=300)
        ncorr += len(lits)
        for i in bad[:40]:
            c, r = lit_case[i]
            if ("coord", c["i"]) in explained:
                continue
            chk.fail("correspondence", "model-vs-impl:coordinate-variable",
                     f"model and reader disagree on the coordinate variable for {c}: {r.get('dimcoord')}",
                     {"correspondence": "C11.Run.check_coord", "input": c, "observed": r})

    lap("coord")
    # ======================================================= 3. netCDF names and groups on constructs
    name_cases = []
    pool = ["x", "/x", "/g/x", "/g/h/x", "g/x", "/", "", "/g/", "//x", "/g//x", "x/", "/g/h/k/lat", "a__b", "/a/b__c"]
    for v in pool:
        name_cases.append({"op": "set", "value": v})
    for _ in range(0 if only not in ('', 'names') else 300 if quick else 1800):
        name = rng.choice(["x", "/g/x", "/g/h/x", "lat", "/forecast/model/t", "/k/y"])
        groups = [rng.choice(GROUPS + ["forecast", "a/b", ""]) for _ in range(rng.choice([0, 1, 2, 3]))]
        name_cases.append({"op": rng.choice(["set_groups", "set_groups", "clear_groups", "dim_set_groups"]),
                           "name": name, "groups": groups})
    rows, crashed = run_family("names", name_cases, scratch, nworkers=2)
    crash("names", crashed)
    lits, lit_case = [], []
    for c, r in zip(name_cases, rows):
        if r is None or "harness_err" in (r or {}):
            continue
        bump("names:" + c["op"])
        op = {"set": 0, "set_groups": 1, "dim_set_groups": 1, "clear_groups": 2}[c["op"]]
        name = c.get("value", c.get("name"))
        groups = c.get("groups", [])
        if not all(32 <= ord(ch) < 127 for ch in name):
            continue
        # oracle: setting groups then asking for them returns them
        if c["op"] in ("set_groups", "dim_set_groups") and "ok" in r and all(g and "/" not in g for g in groups):
            if r["ok"]["groups"] != groups or r["ok"]["name"].split("/")[-1] != name.split("/")[-1]:
                chk.fail("property", "groups-not-recorded", f"nc_set_*_groups({groups}) on {name!r} recorded {r['ok']}",
                         {"input": c, "observed": r})
        if c["op"] == "clear_groups" and "ok" in r and r["ok"]["groups"]:
            chk.fail("property", "groups-not-cleared", f"nc_clear_variable_groups on {name!r} left {r['ok']}", {"input": c, "observed": r})
        obs_l = "(@None (str * list str))" if "err" in r else f"(Some ({gs(r['ok']['name'] or '')}, {gpath(r['ok']['groups'])}))"
        if "err" in r and r["err"] != "ValueErr":
            chk.fail("property", "name-accessor-raised", f"{c} raised {r['err']}", {"input": c, "observed": r})
        lits.append(f"({gnat(op)}, {gs(name)}, {gpath(groups)}, {obs_l})")
        lit_case.append((c, r))
    if model_ok and lits:
        bad = lib.coq_bad_indices("C11", REQ, "check_nc", lits, chunk=400)
        ncorr += len(lits)
        for i in bad[:20]:
            c, r = lit_case[i]
            chk.fail("correspondence", "model-vs-impl:name-accessors", f"model and cfdm disagree on {c}: {r}",
                     {"correspondence": "C11.Run.check_nc", "input": c, "observed": r})

    lap("names")
    # ======================================================= 4. generated fields x group assignments
    n_eval = n_probe + len(coord_cases) + len(name_cases)
    n_eval += run_fields(chk, model_ok, rng, quick, scratch, bump, distinct, stats)
    ncorr += stats.pop("_ncorr", 0)
    lap("fields")

    # ======================================================= 5. formula terms found only through the bounds variable
    n_eval += run_fterms(chk, rng, quick, scratch, bump, distinct)
    lap("fterms")

    # ======================================================= 6. group attributes at several nested levels
    n_eval += run_gattrs(chk, model_ok, rng, quick, scratch, bump, distinct, stats)
    ncorr += stats.pop("_ncorr", 0)
    lap("gattrs")

    chk.coverage.update({
        "evaluations": n_eval,
        "distinct_nontrivial": len(distinct),
        "rule": "references: random group trees (depth <= 3, every fifth <= 4; shared small name pools so that shadowing, local apexes and lateral "
                "candidates are frequent; every eighth tree from pools of names whose flattened names clash: g/g_, x/_x/g__x/g__x_1) x probes; "
                "coordinate files also with two or three same-named coordinate variables on the ancestor path, string-valued coordinate variables, depth >= 4; "
                "fields also with a chain of depth 4, string-valued auxiliary coordinates, same-named variables in the root and an intermediate group; "
                "every array handed out by a read-back field is overwritten in place and read again. Originally: "
                "random group trees (depth <= 3, shared small name pools so that shadowing, local apexes and lateral "
                "candidates are frequent) x probes of every rule class of the flattener's table (list/dict form, keys/values, "
                "dimension-first, standard-name fallback, scalar-coordinate limit) x reference forms absolute/relative(../, sub-paths, "
                "above root, missing group, missing last component)/by proximity/lateral, strict and lax; coordinate files: dimension "
                "at depth 0-2, data variable 0-2 below, 0-3 candidate coordinate variables on and off the chain, same-named other "
                "dimensions; fields: generated skeletons (1-3 axes, dimension/auxiliary coordinates with bounds, measures, ancillaries, "
                "grid mapping, cell methods, group attributes) and cfdm example fields x group assignments (valid by construction, "
                "uniform, random, shadowing, root) x group=True/False. Non-trivial = involves at least one non-root group; distinct by canonical JSON",
        "samples": [ref_cases[len(ref_cases) // 2]["probes"][0], coord_cases[-1]],
        "traces_validated_against_impl": ncorr,
        "disagreements_checked": ncorr,
        "families": stats,
        "exhaustive": False,
    })
    chk.assumptions += [
        "parse_attribute's regular expressions are not modelled: generated attributes are word lists / 'key: value' lists and are handed to the model parsed",
        "flattened names of 256 characters or more are replaced by SHA-1 digests; the model takes the hash as a parameter (theorems: injective, values without '__' or trailing '_') and the correspondence only uses shorter names",
        "the writer's second check (no hidden dimension) is modelled against the set of all dimensions of the field, which is the state of the file when the first non-coordinate variable is created",
        "netCDF-4's own scoping (a variable's dimension name is looked up from its group towards the root) is modelled by nc_lookup_dim, not verified",
        "group and variable names are free of regular-expression metacharacters (the reader strips the group prefix of a flattened name with re.sub)",
        "the order in which netCDF4-python iterates dimensions, variables and sub-groups is taken from the library (the model is given the tree in that order)",
    ]


GA_NAMES = ["comment", "source", "model_id", "experiment"]
GA_GROUPS = ["a", "b", "c", "d", "grp", "lev"]

# seed C11-s4: two nested levels define the same group attribute
CORPUS_GATTRS = [
    {"kind": "cfdm", "chain": ["a", "b"], "variables": [
        {"name": "ta", "depth": 1, "standard_name": "air_temperature", "attrs": {"comment": "A"}, "group_attrs": ["comment"]},
        {"name": "pa", "depth": 2, "standard_name": "air_pressure", "attrs": {"comment": "B"}, "group_attrs": ["comment"]}]},
    {"kind": "hand", "chain": ["a", "b", "c"],
     "levels": {"0": {"comment": "G", "source": "GS"}, "1": {"comment": "A", "model_id": "MA"}, "2": {"comment": "B"}, "3": {"experiment": "E3"}},
     "variables": [{"name": "ta", "depth": 2, "standard_name": "air_temperature", "attrs": {}},
                   {"name": "pa", "depth": 3, "standard_name": "air_pressure", "attrs": {"comment": "V"}},
                   {"name": "ua", "depth": 1, "standard_name": "eastward_wind", "attrs": {}}]},
]
GA_STD = ["air_temperature", "air_pressure", "eastward_wind", "northward_wind", "upward_air_velocity", "specific_humidity"]


def gattr_case(rng):
    chain = rng.sample(GA_GROUPS, rng.choice([2, 3, 3, 4]))
    n = len(chain)
    if rng.random() < 0.6:
        levels = {}
        for d in range(0, n + 1):
            at = {k: f"{k}@{d}" for k in GA_NAMES if rng.random() < (0.55 if k == "comment" else 0.3)}
            if at:
                levels[str(d)] = at
        for d in rng.sample(range(1, n + 1), 2):           # one name at two nested levels at least
            levels.setdefault(str(d), {})["comment"] = f"comment@{d}"
        depths = rng.sample(range(0, n + 1), rng.choice([1, 2, 3])) if rng.random() < 0.3 else rng.sample(range(1, n + 1), rng.choice([1, 2]))
        if max(depths) < 2:
            depths[0] = n
        variables = [{"name": f"v{j}", "depth": d, "standard_name": GA_STD[j],
                      "attrs": {k: f"{k}@v{j}" for k in GA_NAMES if rng.random() < 0.25}} for j, d in enumerate(depths)]
        return {"kind": "hand", "chain": chain, "levels": levels, "variables": variables}
    depths = sorted(rng.sample(range(1, n + 1), rng.choice([2, 2, min(3, n), min(4, n)])))
    if rng.random() < 0.25:
        depths = [0] + depths
    shared = rng.random() < 0.5
    variables = []
    for j, d in enumerate(depths):
        attrs = {"comment": f"comment of v{j}"}
        if rng.random() < 0.6:
            attrs["model_id"] = "M" if shared else f"M{j}"
        if rng.random() < 0.4:
            attrs["source"] = "S" if shared else f"S{j}"
        ga = [k for k in attrs if rng.random() < (0.8 if k == "comment" else 0.5)] if d > 0 else []
        variables.append({"name": f"v{j}", "depth": d, "standard_name": GA_STD[j], "attrs": attrs, "group_attrs": ga})
    # a name used as a group attribute above must be a property of every field below (a group
    # attribute applies to everything in the group)
    for v in variables:
        for w in variables:
            if w["depth"] > v["depth"]:
                for k in v["group_attrs"]:
                    w["attrs"].setdefault(k, f"{k} of {w['name']}")
    return {"kind": "cfdm", "chain": chain, "variables": variables}


def gattrs(d):
    return glist(sorted(d.items()), lambda kv: f"({gs(kv[0])}, {gs(kv[1])})") if d else "(@nil (str * str))"


def run_gattrs(chk, model_ok, rng, quick, scratch, bump, distinct, stats):
    """Attribute inheritance down the group path: nearest group wins, the variable's own attribute
    beats a group attribute, global attributes come last; recorded group attributes; both backends;
    re-write grouped and flat."""
    only = os.environ.get("C11_ONLY", "")
    cases = [json.loads(json.dumps(c)) for c in CORPUS_GATTRS] if only in ("", "gattrs") else []
    for _ in range(0 if only not in ("", "gattrs") else 60 if quick else 700):
        cases.append(gattr_case(rng))
    rows, crashed = run_family("gattrs", cases, scratch, nworkers=12)
    for rc, err in crashed:
        chk.fail("correspondence", "worker-crash", f"C11 gattrs worker died rc={rc}: {err}", {"correspondence": DRV + " gattrs"})
    lits, lit_case, rlits, rlit_case = [], [], [], []
    for c, r in zip(cases, rows):
        if r is None:
            continue
        inp = {k: v for k, v in c.items() if k != "i"}
        if "harness_err" in r:
            chk.fail("correspondence", "harness-error", r["harness_err"], {"correspondence": DRV + " gattrs", "input": inp, "log": r.get("tb")})
            continue
        bump("gattrs:" + c["kind"])
        distinct.add(lib.canon(["gattrs", inp]))
        if "write_exc" in r:
            chk.fail("property", "group-attributes:write-failed", r["write_exc"], {"input": inp})
            continue
        if "exc" in r["read"]:
            chk.fail("property", "group-attributes:file-not-read", str(r["read"]), {"input": inp, "observed": r["read"]})
            continue
        chain = c["chain"]
        F = r["file"]
        fa = {tuple(x for x in p.split("/") if x): at for p, at in F["groups"].items() if p != "/"}
        glob = F["groups"].get("/", {})
        nested = max((sum(1 for d in range(1, v["depth"] + 1) if k in fa.get(tuple(chain[:d]), {}))
                      for v in c["variables"] for k in GA_NAMES), default=0)
        bump(f"gattrs:one-name-at-{min(nested, 4)}-nested-levels")
        byvar = {f_["ncvar"]: f_ for f_ in r["read"]["fields"]}
        if r["read_h5"] != r["read"]:
            chk.fail("property", "h5netcdf-differs:group-attributes",
                     f"netcdf_backend='h5netcdf' gives other properties / recorded group attributes than netCDF4: {str(r['read_h5'])[:300]}",
                     {"input": inp, "expected": r["read"], "observed": r["read_h5"]})
        for v in c["variables"]:
            groups = chain[:v["depth"]]
            ncvar = full_name(groups, v["name"])
            got = byvar.get(ncvar)
            if got is None:
                chk.fail("property", "group-attributes:field-missing", f"no field for variable {ncvar}: {sorted(byvar)}", {"input": inp})
                continue
            va = F["vars"].get(ncvar, {})
            # the hand-written file is what the generator said; the cfdm-written one is what the writer made
            for k in GA_NAMES:
                want = va.get(k)
                if want is None:
                    for d in range(len(groups), 0, -1):
                        if k in fa.get(tuple(groups[:d]), {}):
                            want = fa[tuple(groups[:d])][k]
                            break
                if want is None:
                    want = glob.get(k)
                have = got["props"].get(k)
                if have != want:
                    chk.fail("property", "group-attributes:precedence",
                             f"property {k!r} of {ncvar}: read {have!r}; own attribute {va.get(k)!r}, groups (outermost first) "
                             f"{[fa.get(tuple(groups[:d]), {}).get(k) for d in range(1, len(groups) + 1)]}, global {glob.get(k)!r} -> expected {want!r}",
                             {"input": inp, "expected": want, "observed": have})
                lits.append(f"({gattrs(glob)}, {glist(sorted(fa.items()), lambda pe: f'({gpath(list(pe[0]))}, {gattrs(pe[1])})')}, "
                            f"{gpath(groups)}, {gattrs(va)}, {gs(k)}, " + ("(@None str)" if have is None else f"(Some {gs(have)})") + ")")
                lit_case.append((inp, ncvar, k, have))
            wantrec = sorted({k for d in range(1, len(groups) + 1) for k in fa.get(tuple(groups[:d]), {})})
            if got["group_attrs"] != wantrec:
                chk.fail("property", "group-attributes:recorded", f"{ncvar}: nc_group_attributes() names {got['group_attrs']}, the enclosing groups define {wantrec}",
                         {"input": inp, "expected": wantrec, "observed": got["group_attrs"]})
            rlits.append(f"({glist(sorted(fa.items()), lambda pe: f'({gpath(list(pe[0]))}, {gattrs(pe[1])})')}, {gpath(groups)}, {gattrs(va)}, {gpath(got['group_attrs'])})")
            rlit_case.append((inp, ncvar, got["group_attrs"]))
            if c["kind"] == "cfdm":
                # the writer put every marked property on the field's own group, with its value
                # (or, with the same value, on the nearest enclosing group that has one), not on the variable
                for k in v["group_attrs"]:
                    eff = next((fa[tuple(groups[:d])][k] for d in range(len(groups), 0, -1) if k in fa.get(tuple(groups[:d]), {})), None)
                    if eff != v["attrs"][k] or k in va:
                        chk.fail("property", "group-attribute-not-written",
                                 f"{k}={v['attrs'][k]!r} of {ncvar}, marked as a group attribute: the groups give {eff!r}, the variable has {va.get(k)!r}",
                                 {"input": inp, "observed": F["groups"]})
        if c["kind"] == "cfdm" and r.get("equals_orig") != [True] * len(c["variables"]):
            chk.fail("property", "group-attributes:readback-differs", f"fields written together in nested groups, read back: equal to the originals {r.get('equals_orig')}",
                     {"input": inp, "observed": r["read"]})
        for tag, what in (("G2", "grouped"), ("F2", "flat")):
            R = r.get(tag, {})
            if "exc" in R:
                chk.fail("property", f"group-attributes:{what}-rewrite-failed", R["exc"], {"input": inp})
            elif R.get("equals_first") != [True] * len(r["read"]["fields"]):
                chk.fail("property", f"group-attributes:{what}-rewrite-differs",
                         f"the fields read from the file, written again ({what}) and read: equal to the first read {R.get('equals_first')}; "
                         f"properties then {[f_['props'] for f_ in R.get('read', {}).get('fields', [])]}, first {[f_['props'] for f_ in r['read']['fields']]}",
                         {"input": inp, "expected": r["read"], "observed": R.get("read")})
        if c["kind"] == "cfdm" and "file" in r.get("G2", {}) and r["G2"]["file"]["groups"] != F["groups"]:
            chk.fail("property", "group-attributes:layout-not-reproduced", f"group attributes of the re-written file {r['G2']['file']['groups']}, of the first {F['groups']}",
                     {"input": inp, "expected": F["groups"], "observed": r["G2"]["file"]["groups"]})
    if model_ok and lits:
        for fn_, L, LC in (("check_gattr", lits, lit_case), ("check_gattr_recorded", rlits, rlit_case)):
            bad = lib.coq_bad_indices("C11", REQ, fn_, L, chunk=400)
            stats["_ncorr"] = stats.get("_ncorr", 0) + len(L)
            for i in bad[:20]:
                chk.fail("correspondence", "model-vs-impl:group-attributes", f"model and reader disagree ({fn_}) on {LC[i][1:]}",
                         {"correspondence": "C11.Run." + fn_, "input": LC[i][0], "observed": LC[i][1:]})
    return len(cases)


# seed C11-s1: the smallest placement (coordinate, bounds and terms in /g1, data in /g1/g2)
CORPUS_FTERMS = [
    {"chain": ["g1", "g2", "g3"], "r0": 1, "k": 2, "seed": 1, "bounds_deeper": False, "spread": False},
    {"chain": ["forecast", "model", "run"], "r0": 2, "k": 2, "seed": 2, "bounds_deeper": False, "spread": True},
    {"chain": ["a1", "b1", "c1", "d1"], "r0": 3, "k": 4, "seed": 3, "bounds_deeper": True, "spread": True},
]


def run_fterms(chk, rng, quick, scratch, bump, distinct):
    """A bounded parametric vertical coordinate whose terms' bounds are reachable only through the
    formula_terms attribute of the coordinate's bounds variable (CF 7.1; a file of another producer),
    everything in non-root groups: grouped read-back == flat read-back == original."""
    only = os.environ.get("C11_ONLY", "")
    cases = [dict(c) for c in CORPUS_FTERMS] if only in ("", "fterms") else []
    for _ in range(0 if only not in ("", "fterms") else 36 if quick else 400):
        chain = list(rng.choice(CHAINS))
        if rng.random() < 0.3:
            chain.append(chain[-1] + "x")
        r0 = rng.randint(1, len(chain))
        cases.append({"chain": chain, "r0": r0, "k": rng.randint(r0, len(chain)), "seed": rng.randrange(10 ** 6),
                      "bounds_deeper": rng.random() < 0.3, "spread": rng.random() < 0.6})
    rows, crashed = run_family("fterms", cases, scratch, nworkers=12)
    for rc, err in crashed:
        chk.fail("correspondence", "worker-crash", f"C11 fterms worker died rc={rc}: {err}", {"correspondence": DRV + " fterms"})
    for c, r in zip(cases, rows):
        if r is None:
            continue
        inp = {k: v for k, v in c.items() if k != "i"}
        if "harness_err" in r:
            chk.fail("correspondence", "harness-error", r["harness_err"], {"correspondence": DRV + " fterms", "input": inp, "log": r.get("tb")})
            continue
        bump(f"fterms:coordinate-depth-{c['r0']}")
        bump("fterms:data-" + ("deeper" if max(c["k"], c["r0"]) > c["r0"] else "beside"))
        distinct.add(lib.canon(["fterms", inp]))
        for tag in ("G", "F"):
            R = r.get(tag, {})
            obs = {k: v for k, v in R.items() if k != "layout"}
            if "write_exc" in R:
                chk.fail("property", f"formula-terms:{tag}-write-failed", f"{R['write_exc']}: {R.get('write_msg')}", {"input": inp, "observed": obs})
                continue
            if not R.get("removed"):
                chk.fail("correspondence", "formula-terms:nothing-stripped",
                         "no formula-terms variable had a bounds attribute of its own to remove (the harness no longer exercises the CF 7.1 route)",
                         {"correspondence": DRV + " fterms", "input": inp, "observed": obs})
            if "read_exc" in R:
                chk.fail("property", f"formula-terms:{'grouped' if tag == 'G' else 'flat'}-file-not-read",
                         f"{R['read_exc']}: {R.get('read_msg')}", {"input": inp, "observed": obs})
                continue
            what = "grouped" if tag == "G" else "flat"
            if R.get("nfields") != 1:
                chk.fail("property", f"formula-terms:{what}-file-field-count",
                         f"the {what} file, whose term variables have no bounds attribute of their own, gave {R.get('nfields')} fields "
                         f"{R.get('field_ncvars')} instead of 1", {"input": inp, "observed": obs})
            if R.get("has_bounds") is not None and R["has_bounds"] != r["has_bounds_orig"]:
                chk.fail("property", f"formula-terms:{what}-bounds-lost",
                         f"which formula terms (domain ancillaries) have bounds, read from the {what} file: {R['has_bounds']}, original: {r['has_bounds_orig']}",
                         {"input": inp, "expected": r["has_bounds_orig"], "observed": obs})
            if not (R.get("equals_orig") is True and R.get("orig_equals") is True):
                chk.fail("property", f"formula-terms:{what}-readback-differs",
                         f"the field read from the {what} file does not equal the original", {"input": inp, "observed": obs})
            for a in R.get("alias") or []:
                chk.fail("property", "array-aliased", f"{what}: {a}", {"input": inp, "observed": a})
        if r.get("G_equals_F") is False:
            chk.fail("property", "formula-terms:grouped-differs-from-flat",
                     "the fields read from the grouped and the flat file differ", {"input": inp})
    return len(cases)


def run_fields(chk, model_ok, rng, quick, scratch, bump, distinct, stats):
    cases = []
    for _ in range(0 if os.environ.get('C11_ONLY', '') not in ('', 'fields') else 400 if quick else 4800):
        spec = field_spec(rng)
        cases.append({"spec": spec})
    # corpus first: F11g (parametric vertical coordinate with bounds in a non-root group)
    ex_cases = [] if os.environ.get('C11_ONLY', '') not in ('', 'fields', 'examples') else [
        {"example": 1, "chain": ["g1", "g2", "g3"], "k": 2, "r0": 1, "seed": 520715}]
    for _ in range(0 if os.environ.get('C11_ONLY', '') not in ('', 'fields', 'examples') else 70 if quick else 900):
        ex_cases.append(example_case(rng))
    rows, crashed = run_family("fields", cases, scratch, nworkers=14)
    for rc, err in crashed:
        chk.fail("correspondence", "worker-crash", f"C11 fields worker died rc={rc}: {err}", {"correspondence": DRV + " fields"})
    lits, lit_case = [], []
    for c, r in zip(cases, rows):
        if r is None:
            continue
        if "harness_err" in r:
            chk.fail("correspondence", "harness-error", r["harness_err"], {"correspondence": DRV + " fields", "input": c, "log": r.get("tb")})
            continue
        spec = c["spec"]
        bump("field:" + spec["mode"])
        if spec["groups"] or any(x.get("groups") for x in spec["constructs"]):
            distinct.add(lib.canon(spec))
        variables, dimname = spec_variables(spec)
        check_field_case(chk, c, r, spec, variables, dimname, bump)
        G = r.get("G", {})
        accepted_all = "write_exc" not in G
        rejected_vis = G.get("write_exc") == "ValueError" and (
            "not in the same group nor in a parent group" in G.get("write_msg", "")
            or HIDDEN_MSG in G.get("write_msg", ""))
        if not accepted_all and not rejected_vis:
            continue
        layout = G.get("layout", {})
        # the dimensions in the file when the variables are created, as a tree for the model
        alldims = sorted({d for _, _, dims in variables for d in dims})
        dtree = gtree(dims_tree(alldims))

        def py_ok(n_, d_):
            return py_visible(n_, d_) and not py_hidden(n_, d_, alldims)
        # per-variable literals: the writer creates variables until the first rejected one
        pred_all = all(py_ok(n, d) for _, n, d in variables)
        for kind, name, dims in variables:
            placed = "(@None (list str * str))"
            if accepted_all:
                base = name.split("/")[-1]
                homes = [p for p, g in layout.items() if base in g["vars"]]
                if len(homes) == 1:
                    hp = [x for x in homes[0].split("/") if x]
                    placed = f"(Some ({gpath(hp)}, {gs(base)}))"
                if not py_ok(name, dims):
                    continue                        # reported below as a property failure
                ok = "true"
            else:
                # rejected somewhere: only variables that are themselves fine are informative
                if not py_ok(name, dims):
                    continue
                ok = "true"
            lits.append(f"({dtree}, true, {gs(name)}, {gpath(dims)}, {ok}, {placed})")
            lit_case.append((c, name, dims, r))
        if not accepted_all:
            # at least one variable must be rejected by the model's checks, for the stated reason
            hidden = HIDDEN_MSG in G.get("write_msg", "")
            bad_vars = [(n, d) for _, n, d in variables
                        if (py_visible(n, d) and py_hidden(n, d, alldims)) == hidden and not py_ok(n, d)]
            if not bad_vars:
                chk.fail("property", "writer-rejected-valid-placement",
                         f"no variable has {'a hidden' if hidden else 'an invisible'} dimension, yet the writer refused: {G.get('write_msg')}",
                         {"input": spec, "observed": G})
            for n, d in bad_vars[:1]:
                lits.append(f"({dtree}, true, {gs(n)}, {gpath(d)}, false, (@None (list str * str)))")
                lit_case.append((c, n, d, r))
        elif not pred_all:
            bad_vars = [(n, d) for _, n, d in variables if not py_visible(n, d)]
            if not bad_vars:
                continue                            # a hidden dimension accepted: see check_field_case
            chk.fail("property", "invisible-dimension-accepted",
                     f"the writer accepted {bad_vars[0][0]} although its dimension(s) {bad_vars[0][1]} are not in its group or a parent group",
                     {"input": spec, "observed": {k: v for k, v in G.items() if k != 'layout'}})
    if model_ok and lits:
        bad = lib.coq_bad_indices("C11", REQ, "check_writer", lits, chunk=500)
        stats["_ncorr"] = stats.get("_ncorr", 0) + len(lits)
        for i in bad[:30]:
            c, name, dims, r = lit_case[i]
            chk.fail("correspondence", "model-vs-impl:writer-placement",
                     f"model and writer disagree on the placement/acceptance of {name} with dimensions {dims}",
                     {"correspondence": "C11.Run.check_writer", "input": c["spec"],
                      "observed": {k: v for k, v in r.get("G", {}).items() if k != "layout"}})

    # ---- cfdm example fields
    payload = []
    for c in ex_cases:
        payload.append({"example": c["example"], "assign": {"plan": c}})
    rows, crashed = run_family("fields", payload, scratch, nworkers=14)
    for rc, err in crashed:
        chk.fail("correspondence", "worker-crash", f"C11 example-fields worker died rc={rc}: {err}", {"correspondence": DRV + " fields"})
    for c, r in zip(ex_cases, rows):
        if r is None:
            continue
        if "harness_err" in r:
            chk.fail("correspondence", "harness-error", r["harness_err"], {"correspondence": DRV + " fields", "input": c, "log": r.get("tb")})
            continue
        bump(f"example:{c['example']}")
        distinct.add(lib.canon(c))
        check_field_case(chk, {"spec": c}, r, None, None, None, bump)
    return len(cases) + len(ex_cases)


def predicted_shadow(variables):
    """True if some variable's dimension is hidden from it by a same-named dimension defined in
    a group between the two (netCDF resolves a dimension name to the nearest definition)."""
    alld = {d for _, _, dims in variables for d in dims}
    for _, name, dims in variables:
        gv = groups_of(name)
        for d in dims:
            gd, b = groups_of(d), d.split("/")[-1]
            for d2 in alld:
                g2 = groups_of(d2)
                if d2 != d and d2.split("/")[-1] == b and len(g2) > len(gd) and gv[:len(g2)] == g2 and g2[:len(gd)] == gd:
                    return True
    return False


def predicted_var_shadow(variables):
    """True if a variable in the root group (which the writer refers to by its bare name) has a
    namesake in a non-root group at or above some other variable's group."""
    names = [n for _, n, _ in variables]
    for n in names:
        if "/" in n:
            continue
        for m in names:
            if "/" in m and m.split("/")[-1] == n:
                gm = groups_of(m)
                if any(groups_of(o)[:len(gm)] == gm for o in names if o != m):
                    return True
    return False


class _Sub:
    """chk with every property signature replaced (all symptoms of one known cause)."""

    def __init__(self, chk, sig):
        self.chk, self.sig = chk, sig

    def fail(self, kind, sig, what, detail=None):
        self.chk.fail(kind, self.sig if kind == "property" else sig, what, detail)


def check_field_case(chk, c, r, spec, variables, dimname, bump):
    """The property oracle for one field x assignment."""
    inp = c["spec"]
    G, F = r.get("G", {}), r.get("F", {})
    shadowed = variables is not None and predicted_shadow(variables)
    if shadowed:
        bump("field-with-shadowed-dimension")
        if "write_exc" not in G:
            chk.fail("property", "dimension-shadowed",
                     "the writer accepted a variable one of whose dimensions is hidden by a same-named dimension in a nearer group",
                     {"input": inp, "observed": {k: v for k, v in G.items() if k != "layout"}})
            chk = _Sub(chk, "dimension-shadowed")
    if variables is not None and predicted_var_shadow(variables):
        bump("field-with-shadowed-variable")
        chk = _Sub(chk, "variable-shadowed")
    if not r.get("unchanged", True):
        chk.fail("property", "write-changed-field", "writing changed the field or its netCDF names", {"input": inp})
    if "write_exc" in F:
        chk.fail("property", "flat-write-failed", f"group=False write failed: {F.get('write_msg')}", {"input": inp, "observed": F})
        return
    if "write_exc" in G:
        bump("grouped-write-rejected")
        msg = G.get("write_msg", "")
        if G["write_exc"] != "ValueError" or not ("not in the same group nor in a parent group" in msg
                                                  or (shadowed and HIDDEN_MSG in msg)):
            # the only refusals the property allows are the writer's own visibility checks
            chk.fail("property", "grouped-write-error:" + G["write_exc"],
                     f"grouped write raised {G['write_exc']}: {G.get('write_msg')}", {"input": inp, "observed": G})
        return
    bump("grouped-write-accepted")
    for tag, R in (("grouped", G), ("flat", F)):
        if "read_exc" in R:
            chk.fail("property", f"{tag}-file-not-read", f"reading the {tag} file raised {R['read_exc']}: {R.get('read_msg')}",
                     {"input": inp, "observed": {k: v for k, v in R.items() if k != 'layout'}})
            return
        if R.get("nfields") != 1:
            chk.fail("property", f"{tag}-file-field-count", f"the {tag} file gave {R.get('nfields')} fields instead of 1",
                     {"input": inp, "observed": {k: v for k, v in R.items() if k != 'layout'}})
            return
        if not (R.get("equals_orig") is True and R.get("orig_equals") is True):
            chk.fail("property", f"{tag}-readback-differs", f"the field read from the {tag} file does not equal the original",
                     {"input": inp, "observed": {k: v for k, v in R.items() if k != 'layout'}})
    for tag in ("G", "F"):
        for what in r.get(tag + "_alias", []):
            chk.fail("property", "array-aliased", f"{tag}: overwriting a returned array in place changed what is read next: {what}",
                     {"input": inp, "observed": what})
    if r.get("G_equals_F") is False:
        chk.fail("property", "grouped-differs-from-flat", "the fields read from the grouped and the flat file differ", {"input": inp})
    if "h5_exc" in G or ("h5_nfields" in G and (G["h5_nfields"] != 1 or G.get("h5_equals") is not True or G.get("h5_names") is not True)):
        if G.get("equals_orig") is True:
            chk.fail("property", "h5netcdf-differs:field",
                     "the grouped file read with netcdf_backend='h5netcdf' differs from the original although the netCDF4 read-back equals it: "
                     + str({k: v for k, v in G.items() if k.startswith("h5_")}), {"input": inp, "observed": {k: v for k, v in G.items() if k.startswith("h5_")}})
    # a variable is only ever placed where its dimensions are visible, and they are the intended ones
    lay = G.get("layout", {})
    for gp, g in lay.items():
        for vn, v in g["vars"].items():
            for dg, dn in v["dims"]:
                if not (gp == dg or gp.startswith(dg.rstrip("/") + "/")):
                    chk.fail("property", "dimension-not-visible", f"variable {gp}/{vn} uses dimension {dg}/{dn}", {"input": inp})
    on = r.get("orig", {})
    gn = G.get("names", {})
    # data axes: same sizes, and the recorded dimension (with its group) is the intended one
    if gn:
        oa, ga = on.get("data_axes", []), gn.get("data_axes", [])
        if [a[0] for a in oa] != [a[0] for a in ga]:
            chk.fail("property", "grouped-readback-axes", f"axis sizes {oa} became {ga}", {"input": inp})
        if spec is not None:
            want = [dimname[i] for i in spec["data_axes"]]
            have = [a[1] for a in ga]
            if want != have:
                shadowed = len(set(have)) < len(have) or any(w.split("/")[-1] == h.split("/")[-1] for w, h in zip(want, have) if w != h)
                chk.fail("property", "dimension-shadowed" if shadowed else "dimension-group-not-reproduced",
                         f"the data variable's dimensions were to be {want}; the grouped file read back gives {have}",
                         {"input": inp, "expected": want, "observed": have})
            # every variable where it was put
            for kind, name, dims in variables:
                base = name.split("/")[-1]
                home = "/" + "/".join(groups_of(name))
                if home not in lay or base not in lay[home]["vars"]:
                    chk.fail("property", "variable-group-not-honoured", f"{kind} variable {name} is not in group {home} of the file",
                             {"input": inp, "observed": sorted((p, sorted(g['vars'])) for p, g in lay.items())})
                    continue
                got = lay[home]["vars"][base]["dims"]
                wantd = [[("/" + "/".join(groups_of(d))), d.split("/")[-1]] for d in dims]
                if got != wantd and kind != "ref":
                    sh = any(a[1] == b[1] and a[0] != b[0] for a, b in zip(got, wantd))
                    chk.fail("property", "dimension-shadowed" if sh else "variable-dimensions-differ",
                             f"{kind} variable {name}: dimensions in the file {got}, intended {wantd}", {"input": inp})
            # recorded names reproduce the assignment
            if gn.get("field") != full_name(spec["groups"], spec["ncvar"]):
                chk.fail("property", "variable-groups-not-recorded", f"field read back as {gn.get('field')}", {"input": inp})
            if spec.get("group_attrs") and sorted(gn.get("group_attrs", {})) != sorted(spec["group_attrs"]):
                chk.fail("property", "group-attributes-not-recorded",
                         f"group attributes {spec['group_attrs']} read back as {gn.get('group_attrs')}", {"input": inp})
            if spec.get("group_attrs"):
                home = "/" + "/".join(spec["groups"])
                for a in spec["group_attrs"]:
                    if a not in lay.get(home, {}).get("attrs", {}):
                        chk.fail("property", "group-attribute-not-written", f"attribute {a} is not on group {home}", {"input": inp})
    # flat file: everything in the root group
    if set(F.get("layout", {"/": 0})) != {"/"}:
        chk.fail("property", "flat-file-has-groups", f"group=False produced groups {sorted(F['layout'])}", {"input": inp})
    # writing the read-back again reproduces the layout
    if "rewrite_exc" in r:
        chk.fail("property", "rewrite-failed", f"writing the field read from the grouped file failed: {r['rewrite_exc']}", {"input": inp})
    elif "rewrite_layout" in r:
        if strip_layout(r["rewrite_layout"]) != strip_layout(lay):
            chk.fail("property", "layout-not-reproduced", "writing the field read from the grouped file gave a different layout",
                     {"input": inp, "expected": strip_layout(lay), "observed": strip_layout(r["rewrite_layout"])})
        if r.get("rewrite_equals") is False:
            chk.fail("property", "rewrite-readback-differs", "second-generation read-back differs from the original", {"input": inp})
    if "rewrite_flat_layout" in r and strip_layout(r["rewrite_flat_layout"]) != strip_layout(F.get("layout", {})):
        chk.fail("property", "flat-layout-not-reproduced", "group=False write of the grouped read-back differs from the flat file",
                 {"input": inp, "expected": strip_layout(F.get("layout", {})), "observed": strip_layout(r["rewrite_flat_layout"])})


def strip_layout(lay):
    """Layout without volatile attributes (history-like), order-insensitive."""
    out = {}
    for p, g in lay.items():
        out[p] = {"attrs": {k: v for k, v in g["attrs"].items() if k not in ("history",)},
                  "dims": g["dims"], "vars": g["vars"]}
    return out


def replay(chk, path):
    d = json.load(open(path))
    bad = 0
    rules = load_rules()
    import os
    import time
    only = os.environ.get("C11_ONLY", "")          # development aid: run one family
    t_stage = [time.time()]

    def lap(name):
        stats["seconds:" + name] = round(time.time() - t_stage[0], 1)
        t_stage[0] = time.time()
    for x in d.get("cases", []):
        inp = x.get("input")
        if not inp:
            continue
        if isinstance(inp, dict) and "probe" in inp:
            # rebuild the dataset from the observed tree
            def conv(t):
                return {"name": t["name"], "dims": [[d_, 2] for d_ in t["dims"]],
                        "vars": [{"name": v[0], "dims": []} for v in t["vars"]], "subs": [conv(s_) for s_ in t["subs"]]}
            print("reference replay needs the generated tree; observed:", json.dumps(x.get("observed"))[:300])
            bad += 1
        elif isinstance(inp, dict) and "D" in inp:
            inp["i"] = 0
            rc, out, err = lib.run_worker(DRV, {"mode": "coord", "scratch": chk.scratch,
                                                "cases": [{"i": 0, "tree": coord_tree(inp), "field": [inp["F"], "ta"]}]})
            print(json.dumps(inp), "->", json.dumps(out)[:400])
            got = out[0].get("dimcoord") if out else None
            gotp = None
            if got:
                gotp = tuple(got[0].split("/")[1:-1]) if "/" in got[0] else ()
            bad += gotp not in coord_oracle(inp)
        elif isinstance(inp, dict) and "axes" in inp:
            rc, out, err = lib.run_worker(DRV, {"mode": "fields", "scratch": chk.scratch, "cases": [{"i": 0, "spec": inp}]})
            r = out[0] if out else {}
            print(json.dumps({k: v for k, v in r.items() if k not in ("G", "F", "rewrite_layout", "rewrite_flat_layout")})[:600])
            n0 = len(chk.failures)
            v, dn = spec_variables(inp)
            check_field_case(chk, {"spec": inp}, r, inp, v, dn, lambda *a: None)
            bad += len(chk.failures) > n0
        else:
            bad += 1
    return 1 if bad else 0
